/-
Model of the step-threshold part of configuration loading (C39).  Import-free.

  * `ntp-proto/src/config.rs`: the two `StepThreshold` visitors (single-number form, per-direction table with
    the private `ThresholdPart` visitor) as functions of a TOML-like value (what serde's data model presents
    to `deserialize_any`): float | int (i64) | uint (u64) | string | table | anything else;
  * `NtpDuration`'s `Deserialize` (used by `accumulated-step-panic-threshold`);
  * `Config::count_sources` and the source-count test of `Config::check` (ntpd/src/daemon/config/mod.rs).

The model describes the code WITH the fix of F-C39 (`ThresholdPart::visit_f64` validates like the
single-number form; `count_sources` adds saturating).  `partOfUnfixed` / `countSourcesUnfixed` keep the old
behaviour for the counterexample theorems.  `from_seconds`' `debug_assert!` is the outcome `panic`.
-/
import NtpVerif.Basic.F64
import NtpVerif.Basic.Wrap
import NtpVerif.Model.GlueTime
import NtpVerif.Gen.Consts

namespace NtpVerif.Config
open NtpVerif NtpVerif.Wrap NtpVerif.GlueTime

/-- a scalar as presented by the deserializer (`other`: bool, table, array, datetime …) -/
inductive Scalar where
  | float (f : F64)
  | int (i : Int)        -- i64
  | uint (u : Nat)       -- u64 (never produced by TOML, reachable through other serde formats)
  | str (s : String)
  | other
deriving Repr, DecidableEq

inductive Val where
  | scalar (s : Scalar)
  | table (kvs : List (String × Scalar))
deriving Repr

inductive Err where
  | invalidValue
  | invalidType
  | duplicateField
  | unknownField
deriving Repr, DecidableEq

/-- result of a visitor: a value, a serde error, or a Rust panic -/
inductive Res (α : Type) where
  | ok (a : α)
  | err (e : Err)
  | panic
deriving Repr, DecidableEq

def Res.bind {α β : Type} (r : Res α) (f : α → Res β) : Res β :=
  match r with
  | .ok a => f a
  | .err e => .err e
  | .panic => .panic

/-- `NtpDuration::from_seconds` as a visitor step -/
def fromSec (x : F64) : Res Int :=
  match fromSeconds x with
  | .ok d => .ok d
  | .assertFail => .panic
  | .unreachable => .panic

/-- the validation of the single-number form: `v.is_nan() || v.is_infinite() || v < 0.0` -/
def badNumber (x : F64) : Bool := x.isNaN || x.isInf || F64.lt x F64.zero

/-- the number a scalar denotes for a threshold (`v as f64` for integers) -/
def numberOf : Scalar → Option F64
  | .float f => some f
  | .int i => some (F64.ofI64 i)
  | .uint u => some (F64.ofU64 u)
  | _ => none

/-- a validated number → duration -/
def checkedDuration (x : F64) : Res Int :=
  if badNumber x then .err .invalidValue else fromSec x

/-- `ThresholdPart` (one direction): `some d` = limit, `none` = "inf" (unlimited) -/
def partOf : Scalar → Res (Option Int)
  | .str s => if s = "inf" then .ok none else .err .invalidValue
  | .other => .err .invalidType
  | sc => match numberOf sc with
    | some x => (checkedDuration x).bind fun d => .ok (some d)
    | none => .err .invalidType

/-- `ThresholdPart` before the fix: no validation at all -/
def partOfUnfixed : Scalar → Res (Option Int)
  | .str s => if s = "inf" then .ok none else .err .invalidValue
  | .other => .err .invalidType
  | sc => match numberOf sc with
    | some x => (fromSec x).bind fun d => .ok (some d)
    | none => .err .invalidType

structure Threshold where
  forward : Option Int
  backward : Option Int
deriving Repr, DecidableEq

/-- the `visit_map` loop: `fwd` / `bwd` are `Option<Option<NtpDuration>>` -/
def visitMap (part : Scalar → Res (Option Int)) :
    List (String × Scalar) → Option (Option Int) → Option (Option Int) → Res Threshold
  | [], fwd, bwd => .ok ⟨fwd.join, bwd.join⟩
  | (k, v) :: rest, fwd, bwd =>
    if k = "forward" then
      if fwd.isSome then .err .duplicateField
      else (part v).bind fun p => visitMap part rest (some p) bwd
    else if k = "backward" then
      if bwd.isSome then .err .duplicateField
      else (part v).bind fun p => visitMap part rest fwd (some p)
    else .err .unknownField

/-- `StepThreshold`'s `Deserialize` -/
def thresholdWith (part : Scalar → Res (Option Int)) : Val → Res Threshold
  | .table kvs => visitMap part kvs none none
  | .scalar (.str s) => if s = "inf" then .ok ⟨none, none⟩ else .err .invalidValue
  | .scalar .other => .err .invalidType
  | .scalar sc => match numberOf sc with
    | some x => (checkedDuration x).bind fun d => .ok ⟨some d, some d⟩
    | none => .err .invalidType

def thresholdOf : Val → Res Threshold := thresholdWith partOf
def thresholdOfUnfixed : Val → Res Threshold := thresholdWith partOfUnfixed

/-- `deserialize_option_accumulated_step_panic_threshold` (through `NtpDuration`'s `Deserialize`: a number,
    NaN / infinite rejected, zero means "no limit") -/
def accumOf : Scalar → Res (Option Int)
  | .str _ => .err .invalidType
  | .other => .err .invalidType
  | sc => match numberOf sc with
    | some x =>
      if x.isNaN || x.isInf then .err .invalidValue
      else (fromSec x).bind fun d => .ok (if d = 0 then none else some d)
    | none => .err .invalidType

/-! #### defaults (`SynchronizationConfig::default`, constants regenerated from the source) -/

def secsDuration (n : Nat) : Int :=
  match fromSeconds (F64.ofNatExact n) with
  | .ok d => d
  | _ => 0

/-- `default_single_step_panic_threshold` -/
def defaultSingle : Threshold :=
  ⟨some (secsDuration Gen.CFG_DEFAULT_SINGLE_STEP_SECS), some (secsDuration Gen.CFG_DEFAULT_SINGLE_STEP_SECS)⟩

/-- `default_startup_step_panic_threshold`: no forward limit, backwards one day -/
def defaultStartup : Threshold := ⟨none, some (secsDuration Gen.CFG_DEFAULT_STARTUP_BACKWARD_SECS)⟩

/-! #### other fields validated by the repository's own code (ntpd/src/daemon/config/ntp_source.rs) -/

/-- 2^64 as a double: the first value `Duration::try_from_secs_f64` rejects as too large -/
def TWO64 : F64 := ⟨0x43f0000000000000⟩

/-- csptp `poll_interval` / `response_interval`: `v > 0.0 && Duration::try_from_secs_f64(v).is_ok()`
    (the conversion fails exactly for negative, NaN, infinite and ≥ 2^64 s values) -/
def intervalOk (x : F64) : Bool := F64.lt F64.zero x && F64.lt x TWO64

/-- sock / pps `precision`, `accuracy`, `period`, `measurement_noise_estimate`:
    `v.partial_cmp(&0.0) == Some(Greater)` (+∞ passes, NaN does not) -/
def positiveOk (x : F64) : Bool := F64.lt F64.zero x

/-- the f64 a TOML value denotes for an `f64` field (integers are converted, everything else is a type error) -/
def fieldNumber : Scalar → Option F64
  | .float f => some f
  | .int i => some (F64.ofI64 i)
  | .uint u => some (F64.ofU64 u)
  | _ => none

def intervalField (sc : Scalar) : Bool := match fieldNumber sc with | some x => intervalOk x | none => false
def positiveField (sc : Scalar) : Bool := match fieldNumber sc with | some x => positiveOk x | none => false

/-- csptp `domain`: a `u8` in 128..=239 -/
def domainField : Scalar → Bool
  | .int i => decide (128 ≤ i ∧ i ≤ 239)
  | .uint u => decide (128 ≤ u ∧ u ≤ 239)
  | _ => false

/-! #### source counting -/

/-- a configured source: one association, or a pool asking for `count` (a `usize`) -/
inductive Src where
  | one
  | pool (count : Nat)
deriving Repr, DecidableEq

def USIZE_MAX : Nat := 18446744073709551615

/-- `Config::count_sources` (fixed: saturating addition) -/
def countSources : List Src → Nat → Nat
  | [], acc => acc
  | .one :: r, acc => countSources r (min (acc + 1) USIZE_MAX)
  | .pool c :: r, acc => countSources r (min (acc + c) USIZE_MAX)

/-- before the fix: `count += …` panics on overflow in checked builds (`none`) -/
def countSourcesUnfixed : List Src → Nat → Option Nat
  | [], acc => some acc
  | .one :: r, acc => if acc + 1 > USIZE_MAX then none else countSourcesUnfixed r (acc + 1)
  | .pool c :: r, acc => if acc + c > USIZE_MAX then none else countSourcesUnfixed r (acc + c)

/-- the source-count part of `Config::check` (the NTPv5 and NTS-KE consistency warnings are not modelled) -/
def checkCount (srcs : List Src) (minAgree : Nat) : Bool :=
  !(!srcs.isEmpty && decide (countSources srcs 0 < minAgree))

end NtpVerif.Config
