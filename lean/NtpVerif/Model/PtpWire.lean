/-
Model of the PTP wire codec of `statime-wire` (import-free).

Rust (statime-wire/src)                         Model
  common/timestamp.rs   Timestamp                 `Timestamp`, `Timestamp.deserialize/serialize`
  common/time_interval.rs TimeInterval(i64)       `Int` + `toI64` / `ofI64`
  common/port_identity.rs, clock_identity.rs      `PortIdentity` (clock identity = 64-bit big-endian number)
  common/clock_quality.rs, clock_accuracy.rs      `ClockQuality`, `ClockAccuracy`
  common/time_source.rs                           `TimeSource`
  common/tlv.rs  TlvSet::deserialize              `TlvSet.deserialize`   (fuelled loop, `tlvLoop`)
                 TlvSetIterator::next             `TlvSet.iter`          (fuelled loop, `iterLoop`)
                 TlvSetBuilder::add / build       `TlvBuilder.add` / `.build`
                 Tlv::serialize / deserialize     `Tlv.serialize` / `Tlv.deserialize`
  messages/header.rs Header::{de,}serialize_header `Header.deserialize` / `Header.serialize`
  messages/*.rs  the ten bodies                   `Body`, `Body.deserialize` / `Body.serialize`
  messages/mod.rs Message::{serialize,deserialize} `Message.serialize` / `Message.deserialize`

Conventions
  * all unsigned fields are `Nat` (well-formedness = the Rust type's range, see `*.WF`);
    `log_message_interval : i8` is kept as its raw byte (`cast_signed`/`cast_unsigned` are bijections).
  * a `TlvSet` is its raw bytes (that is what the Rust type is, and what `PartialEq` compares).
  * `Fail.panic` is an explicit outcome for every Rust panic site on the modelled paths
    (`unwrap`, `debug_assert`, checked `+`); "never panics" is a theorem, not a convention.
  * serialisation writes into a caller-provided buffer; bytes the code leaves untouched (Announce
    body byte 12, Management body byte 10) keep the buffer's old content — `Message.serialize` takes
    the old buffer and returns the written prefix `buffer[..n]`.
  * The model describes the code WITH the proposed fixes F-C41 (`TlvSet::deserialize` / iterator use
    `>= 4` / `< 4`) and F-C44b (`Timestamp::deserialize` rejects `nanos >= 10^9`).  The unfixed
    variants are kept as `TlvSet.deserializeOrig`, `TlvSet.iterOrig` and `Timestamp.deserializeOrig`
    for the counterexample theorems.
-/
namespace NtpVerif.PtpWire

abbrev Bytes := List UInt8

inductive Fail where
  | tooShort   -- `Error::BufferTooShort`
  | invalid    -- `Error::Invalid`
  | panic      -- a Rust panic (unwrap / debug_assert / overflow)
deriving DecidableEq, Repr

/-! ### big-endian numbers -/

/-- value of a big-endian byte string -/
def beNat (bs : Bytes) : Nat := bs.foldl (fun acc b => acc * 256 + b.toNat) 0

/-- the `k` low-order bytes of `n`, big-endian (`to_be_bytes` of a `k`-byte unsigned) -/
def beBytes : Nat → Nat → Bytes
  | 0, _ => []
  | k+1, n => UInt8.ofNat (n / 256 ^ k) :: beBytes k n

/-- `i64::from_be_bytes` on the unsigned value of the 8 bytes -/
def toI64 (n : Nat) : Int := if n < 9223372036854775808 then (n : Int) else (n : Int) - 18446744073709551616

/-- the unsigned 64-bit pattern of an `i64` -/
def ofI64 (x : Int) : Nat := (x % 18446744073709551616).toNat

def b2n (b : Bool) : Nat := if b then 1 else 0

/-- bit `i` of `n` -/
def bit (n i : Nat) : Bool := n / 2 ^ i % 2 = 1

/-! ### Timestamp (10 bytes: 48-bit seconds, 32-bit nanoseconds) -/

structure Timestamp where
  seconds : Nat
  nanos : Nat
deriving DecidableEq, Repr

def Timestamp.WF (t : Timestamp) : Prop := t.seconds < 2 ^ 48 ∧ t.nanos < 1000000000
instance (t : Timestamp) : Decidable t.WF := by unfold Timestamp.WF; infer_instance

/-- `Timestamp::new` -/
def Timestamp.new (seconds nanos : Nat) : Except Fail Timestamp :=
  if seconds ≥ 2 ^ 48 ∨ nanos ≥ 1000000000 then .error .invalid else .ok ⟨seconds, nanos⟩

/-- `Timestamp::try_set_seconds`: the same guard as `Timestamp::new` on the seconds -/
def Timestamp.trySetSeconds (t : Timestamp) (seconds : Nat) : Except Fail Timestamp :=
  if seconds ≥ 2 ^ 48 then .error .invalid else .ok { t with seconds := seconds }

/-- `Timestamp::try_set_nanos`: the same guard as `Timestamp::new` on the nanoseconds -/
def Timestamp.trySetNanos (t : Timestamp) (nanos : Nat) : Except Fail Timestamp :=
  if nanos ≥ 1000000000 then .error .invalid else .ok { t with nanos := nanos }

/-- `Timestamp::deserialize` (fixed: `nanos >= 1_000_000_000` is rejected) -/
def Timestamp.deserialize : Bytes → Except Fail Timestamp
  | s0 :: s1 :: s2 :: s3 :: s4 :: s5 :: n0 :: n1 :: n2 :: n3 :: _ =>
    let nanos := beNat [n0, n1, n2, n3]
    if nanos ≥ 1000000000 then .error .invalid
    else .ok ⟨beNat [s0, s1, s2, s3, s4, s5], nanos⟩
  | _ => .error .tooShort

/-- the unfixed `Timestamp::deserialize` (`nanos > 1_000_000_000`) -/
def Timestamp.deserializeOrig : Bytes → Except Fail Timestamp
  | s0 :: s1 :: s2 :: s3 :: s4 :: s5 :: n0 :: n1 :: n2 :: n3 :: _ =>
    let nanos := beNat [n0, n1, n2, n3]
    if nanos > 1000000000 then .error .invalid
    else .ok ⟨beNat [s0, s1, s2, s3, s4, s5], nanos⟩
  | _ => .error .tooShort

/-- `Timestamp::serialize` into an exactly-10-byte (or longer) window: the 10 bytes written.
    (`seconds.to_be_bytes()[2..8]`: the low 48 bits.) -/
def Timestamp.bytes (t : Timestamp) : Bytes := beBytes 6 t.seconds ++ beBytes 4 t.nanos

/-! ### PortIdentity, ClockQuality, ClockAccuracy, TimeSource -/

structure PortIdentity where
  clock : Nat     -- ClockIdentity([u8; 8]) as a big-endian number
  port : Nat      -- u16
deriving DecidableEq, Repr

def PortIdentity.WF (p : PortIdentity) : Prop := p.clock < 2 ^ 64 ∧ p.port < 2 ^ 16
instance (p : PortIdentity) : Decidable p.WF := by unfold PortIdentity.WF; infer_instance

def PortIdentity.deserialize : Bytes → Except Fail PortIdentity
  | c0 :: c1 :: c2 :: c3 :: c4 :: c5 :: c6 :: c7 :: p0 :: p1 :: _ =>
    .ok ⟨beNat [c0, c1, c2, c3, c4, c5, c6, c7], beNat [p0, p1]⟩
  | _ => .error .tooShort

def PortIdentity.bytes (p : PortIdentity) : Bytes := beBytes 8 p.clock ++ beBytes 2 p.port

/-- `ClockAccuracy`: the 27 named variants are collapsed into `named code` (0x17 ..= 0x31) -/
inductive ClockAccuracy where
  | reserved
  | named (code : Nat)
  | profileSpecific (v : Nat)
  | unknown
deriving DecidableEq, Repr

/-- `ClockAccuracy::from_primitive` -/
def ClockAccuracy.fromPrimitive (v : Nat) : ClockAccuracy :=
  if 0x17 ≤ v ∧ v ≤ 0x31 then .named v
  else if 0x80 ≤ v ∧ v ≤ 0xfd then .profileSpecific (v - 0x80)
  else if v = 0xfe then .unknown
  else .reserved

/-- `ClockAccuracy::to_primitive`; `0x80 + value` overflows `u8` for `value ≥ 0x80` (panic in checked
    builds) -/
def ClockAccuracy.toPrimitive : ClockAccuracy → Except Fail Nat
  | .reserved => .ok 0
  | .named c => .ok c
  | .profileSpecific v => if 0x80 + v > 255 then .error .panic else .ok (0x80 + v)
  | .unknown => .ok 0xfe

/-- values that serialise to a byte that parses back to themselves -/
def ClockAccuracy.WF : ClockAccuracy → Prop
  | .reserved => True
  | .named c => 0x17 ≤ c ∧ c ≤ 0x31
  | .profileSpecific v => v ≤ 0x7d
  | .unknown => True
instance (a : ClockAccuracy) : Decidable a.WF := by cases a <;> unfold ClockAccuracy.WF <;> infer_instance

structure ClockQuality where
  clockClass : Nat
  accuracy : ClockAccuracy
  variance : Nat      -- offset_scaled_log_variance : u16
deriving DecidableEq, Repr

def ClockQuality.WF (q : ClockQuality) : Prop := q.clockClass < 256 ∧ q.accuracy.WF ∧ q.variance < 2 ^ 16
instance (q : ClockQuality) : Decidable q.WF := by unfold ClockQuality.WF; infer_instance

def ClockQuality.deserialize : Bytes → Except Fail ClockQuality
  | c :: a :: v0 :: v1 :: _ => .ok ⟨c.toNat, ClockAccuracy.fromPrimitive a.toNat, beNat [v0, v1]⟩
  | _ => .error .tooShort

def ClockQuality.bytes (q : ClockQuality) : Except Fail Bytes := do
  let a ← q.accuracy.toPrimitive
  pure (UInt8.ofNat q.clockClass :: UInt8.ofNat a :: beBytes 2 q.variance)

inductive TimeSource where
  | named (code : Nat)            -- 0x10 0x20 0x30 0x39 0x40 0x50 0x60 0x90 0xa0
  | profileSpecific (v : Nat)
  | reserved (v : Nat)
deriving DecidableEq, Repr

def TimeSource.isNamed (v : Nat) : Bool :=
  v = 0x10 ∨ v = 0x20 ∨ v = 0x30 ∨ v = 0x39 ∨ v = 0x40 ∨ v = 0x50 ∨ v = 0x60 ∨ v = 0x90 ∨ v = 0xa0

def TimeSource.fromPrimitive (v : Nat) : TimeSource :=
  if TimeSource.isNamed v then .named v
  else if 0xf0 ≤ v ∧ v ≤ 0xfe then .profileSpecific v
  else .reserved v

def TimeSource.toPrimitive : TimeSource → Nat
  | .named c => c
  | .profileSpecific v => v
  | .reserved v => v

def TimeSource.WF : TimeSource → Prop
  | .named c => TimeSource.isNamed c = true
  | .profileSpecific v => 0xf0 ≤ v ∧ v ≤ 0xfe
  | .reserved v => v < 256 ∧ TimeSource.isNamed v = false ∧ ¬ (0xf0 ≤ v ∧ v ≤ 0xfe)
instance (a : TimeSource) : Decidable a.WF := by cases a <;> unfold TimeSource.WF <;> infer_instance

/-! ### TLVs -/

structure Tlv where
  type : Nat       -- `TlvType::to_primitive` (u16); `from_primitive ∘ to_primitive` is the identity on
                   -- parsed types, and the CSPTP layer only tests equality with three fixed codes
  value : Bytes
deriving DecidableEq, Repr

def Tlv.wireSize (t : Tlv) : Nat := 4 + t.value.length

/-- `Tlv::serialize` into a window of `avail` bytes: the bytes written -/
def Tlv.serialize (t : Tlv) (avail : Nat) : Except Fail Bytes :=
  if t.value.length ≥ 2 ^ 16 then .error .invalid
  else if avail < 4 + t.value.length then .error .tooShort
  else .ok (beBytes 2 t.type ++ beBytes 2 t.value.length ++ t.value)

/-- `Tlv::deserialize` -/
def Tlv.deserialize : Bytes → Except Fail Tlv
  | t0 :: t1 :: l0 :: l1 :: rest =>
    let len := beNat [l0, l1]
    if rest.length < len then .error .tooShort
    else .ok ⟨beNat [t0, t1], rest.take len⟩
  | _ => .error .tooShort

/-- the loop of `TlvSet::deserialize` (fixed: `while buffer.len() >= 4`); `fuel` bounds the number of
    iterations (each consumes at least 4 bytes, so `buffer.length` suffices: `tlvLoop_fuel`) -/
def tlvLoop : Nat → Bytes → Except Fail Unit
  | 0, _ => .error .panic      -- out of fuel: unreachable with fuel = length (theorem)
  | fuel+1, t0 :: t1 :: l0 :: l1 :: rest =>
    let _ := (t0, t1)
    let len := beNat [l0, l1]
    if len % 2 ≠ 0 then .error .invalid
    else if rest.length < len then .error .tooShort
    else tlvLoop fuel (rest.drop len)
  | _+1, [] => .ok ()
  | _+1, _ => .error .tooShort    -- 1..3 trailing bytes

/-- the unfixed loop: `while buffer.len() > 4` -/
def tlvLoopOrig : Nat → Bytes → Except Fail Unit
  | 0, _ => .error .panic
  | fuel+1, t0 :: t1 :: l0 :: l1 :: x :: rest' =>
    let _ := (t0, t1)
    let rest := x :: rest'
    let len := beNat [l0, l1]
    if len % 2 ≠ 0 then .error .invalid
    else if rest.length < len then .error .tooShort
    else tlvLoopOrig fuel (rest.drop len)
  | _+1, [] => .ok ()
  | _+1, _ => .error .tooShort    -- 1..4 trailing bytes

/-- `TlvSet::deserialize`: on success the set is the whole buffer -/
def TlvSet.deserialize (b : Bytes) : Except Fail Bytes :=
  match tlvLoop (b.length + 1) b with
  | .ok () => .ok b
  | .error e => .error e

def TlvSet.deserializeOrig (b : Bytes) : Except Fail Bytes :=
  match tlvLoopOrig (b.length + 1) b with
  | .ok () => .ok b
  | .error e => .error e

/-- `TlvSetIterator` run to exhaustion (fixed: `if self.buffer.len() < 4 { debug_assert_eq!(len, 0) … }`) -/
def iterLoop : Nat → Bytes → Except Fail (List Tlv)
  | 0, _ => .error .panic
  | _+1, [] => .ok []
  | fuel+1, b@(_ :: _ :: _ :: _ :: _) =>
    match Tlv.deserialize b with
    | .error _ => .error .panic                       -- `.unwrap()`
    | .ok t =>
      match iterLoop fuel (b.drop t.wireSize) with
      | .ok ts => .ok (t :: ts)
      | .error e => .error e
  | _+1, _ => .error .panic                          -- debug_assert_eq!(len, 0) with 1..3 bytes left

/-- unfixed iterator: `if self.buffer.len() <= 4 { debug_assert_eq!(len, 0); return None }` -/
def iterLoopOrig : Nat → Bytes → Except Fail (List Tlv)
  | 0, _ => .error .panic
  | _+1, [] => .ok []
  | fuel+1, b@(_ :: _ :: _ :: _ :: _ :: _) =>
    match Tlv.deserialize b with
    | .error _ => .error .panic
    | .ok t =>
      match iterLoopOrig fuel (b.drop t.wireSize) with
      | .ok ts => .ok (t :: ts)
      | .error e => .error e
  | _+1, _ => .error .panic

/-- `TlvSet::tlvs().collect()` -/
def TlvSet.iter (s : Bytes) : Except Fail (List Tlv) := iterLoop (s.length + 1) s
def TlvSet.iterOrig (s : Bytes) : Except Fail (List Tlv) := iterLoopOrig (s.length + 1) s

/-- `TlvSet::wire_size` (`debug_assert_eq!(len % 2, 0)`) -/
def TlvSet.wireSize (s : Bytes) : Except Fail Nat :=
  if s.length % 2 ≠ 0 then .error .panic else .ok s.length

/-- `TlvSetBuilder` over a buffer of `cap` bytes: the bytes used so far -/
structure TlvBuilder where
  cap : Nat
  used : Bytes
deriving DecidableEq, Repr

def TlvBuilder.new (cap : Nat) : TlvBuilder := ⟨cap, []⟩

/-- `TlvSetBuilder::add` -/
def TlvBuilder.add (b : TlvBuilder) (t : Tlv) : Except Fail TlvBuilder := do
  let bytes ← t.serialize (b.cap - b.used.length)
  pure { b with used := b.used ++ bytes }

/-- `TlvSetBuilder::build` -/
def TlvBuilder.build (b : TlvBuilder) : Bytes := b.used

/-- add a list of TLVs in order -/
def TlvBuilder.addAll (b : TlvBuilder) : List Tlv → Except Fail TlvBuilder
  | [] => .ok b
  | t :: ts => do let b' ← b.add t; b'.addAll ts

/-! ### Header (34 bytes) -/

structure Header where
  sdoId : Nat            -- 12 bits
  major : Nat            -- versionPTP (4 bits)
  minor : Nat            -- minorVersionPTP (4 bits)
  domain : Nat           -- u8
  alternateMaster : Bool
  twoStep : Bool
  unicast : Bool
  profile1 : Bool
  profile2 : Bool
  leap61 : Bool
  leap59 : Bool
  utcOffsetValid : Bool
  ptpTimescale : Bool
  timeTraceable : Bool
  freqTraceable : Bool
  syncUncertain : Bool
  correction : Int       -- TimeInterval(i64)
  source : PortIdentity
  seqId : Nat            -- u16
  logInterval : Nat      -- raw byte of the i8
deriving DecidableEq, Repr

def Header.WF (h : Header) : Prop :=
  h.sdoId < 2 ^ 12 ∧ h.major < 16 ∧ h.minor < 16 ∧ h.domain < 256 ∧
  (-9223372036854775808 ≤ h.correction ∧ h.correction ≤ 9223372036854775807) ∧
  h.source.WF ∧ h.seqId < 2 ^ 16 ∧ h.logInterval < 256
instance (h : Header) : Decidable h.WF := by unfold Header.WF; infer_instance

/-- `MessageType` codes accepted by `TryFrom<u8>` -/
def validType (t : Nat) : Bool :=
  t = 0 ∨ t = 1 ∨ t = 2 ∨ t = 3 ∨ t = 8 ∨ t = 9 ∨ t = 10 ∨ t = 11 ∨ t = 12 ∨ t = 13

structure DeserializedHeader where
  header : Header
  messageType : Nat
  messageLength : Nat
deriving DecidableEq, Repr

/-- `Header::deserialize_header` -/
def Header.deserialize : Bytes → Except Fail DeserializedHeader
  | b0 :: b1 :: l0 :: l1 :: b4 :: b5 :: b6 :: b7 ::
    c0 :: c1 :: c2 :: c3 :: c4 :: c5 :: c6 :: c7 ::
    _ :: _ :: _ :: _ ::
    i0 :: i1 :: i2 :: i3 :: i4 :: i5 :: i6 :: i7 :: p0 :: p1 ::
    s0 :: s1 :: _ :: li :: _ =>
    let ty := b0.toNat % 16
    if validType ty then
      .ok {
        header := {
          sdoId := (b0.toNat / 16) * 256 + b5.toNat
          major := b1.toNat % 16
          minor := b1.toNat / 16
          domain := b4.toNat
          alternateMaster := bit b6.toNat 0
          twoStep := bit b6.toNat 1
          unicast := bit b6.toNat 2
          profile1 := bit b6.toNat 5
          profile2 := bit b6.toNat 6
          leap61 := bit b7.toNat 0
          leap59 := bit b7.toNat 1
          utcOffsetValid := bit b7.toNat 2
          ptpTimescale := bit b7.toNat 3
          timeTraceable := bit b7.toNat 4
          freqTraceable := bit b7.toNat 5
          syncUncertain := bit b7.toNat 6
          correction := toI64 (beNat [c0, c1, c2, c3, c4, c5, c6, c7])
          source := ⟨beNat [i0, i1, i2, i3, i4, i5, i6, i7], beNat [p0, p1]⟩
          seqId := beNat [s0, s1]
          logInterval := li.toNat }
        messageType := ty
        messageLength := beNat [l0, l1] }
    else .error .invalid
  | _ => .error .tooShort

def Header.flags6 (h : Header) : Nat :=
  b2n h.alternateMaster + 2 * b2n h.twoStep + 4 * b2n h.unicast + 32 * b2n h.profile1 + 64 * b2n h.profile2

def Header.flags7 (h : Header) : Nat :=
  b2n h.leap61 + 2 * b2n h.leap59 + 4 * b2n h.utcOffsetValid + 8 * b2n h.ptpTimescale +
  16 * b2n h.timeTraceable + 32 * b2n h.freqTraceable + 64 * b2n h.syncUncertain

/-- `Header::serialize_header(content_type, content_length, buffer34)`: the 34 bytes written.
    `(sdo_id.high_byte() << 4) | type`, `(minor << 4) | major` are computed on `u8` (bits shifted out
    are lost): with `WF` they are `high*16 + type`, `minor*16 + major`. -/
def Header.serialize (h : Header) (ty : Nat) (contentLength : Nat) : Except Fail Bytes :=
  if contentLength + 34 ≥ 2 ^ 16 then .error .invalid
  else .ok (
    [UInt8.ofNat ((h.sdoId / 256) % 16 * 16 + ty % 16), UInt8.ofNat (h.minor % 16 * 16 + h.major % 16)] ++
    beBytes 2 (contentLength + 34) ++
    [UInt8.ofNat h.domain, UInt8.ofNat (h.sdoId % 256), UInt8.ofNat h.flags6, UInt8.ofNat h.flags7] ++
    beBytes 8 (ofI64 h.correction) ++
    [0, 0, 0, 0] ++
    h.source.bytes ++
    beBytes 2 h.seqId ++
    [0, UInt8.ofNat h.logInterval])


/-! ### Validating constructors of the header fields (`PtpVersion::new`, `SdoId::try_from`, `Header::new`) -/

/-- `PtpVersion::new(major, minor)`: both must fit the 4-bit packing of octet 1 -/
def PtpVersion.new? (major minor : Nat) : Option (Nat × Nat) :=
  if major ≥ 0x10 ∨ minor ≥ 0x10 then none else some (major, minor)

/-- `SdoId::try_from(u16)`: 12 bits -/
def SdoId.new? (v : Nat) : Option Nat := if v ≤ 0xfff then some v else none

/-- `Header::new(minor)`: default header of version 2.`minor`; the minor version is NOT validated here -/
def Header.new (minor : Nat) : Header :=
  { sdoId := 0, major := 2, minor := minor, domain := 0, alternateMaster := false, twoStep := false, unicast := false,
    profile1 := false, profile2 := false, leap61 := false, leap59 := false, utcOffsetValid := false,
    ptpTimescale := false, timeTraceable := false, freqTraceable := false, syncUncertain := false,
    correction := 0, source := ⟨0, 0⟩, seqId := 0, logInterval := 0 }

/-- a default header whose version / sdoId went through the validating constructors and whose plain integer
    fields have the given values (`domain : u8`, `seq : u16`, `li`: the raw byte of the `i8`) -/
def Header.construct? (major minor sdo domain seq li : Nat) : Option Header := do
  let v ← PtpVersion.new? major minor
  let sd ← SdoId.new? sdo
  pure { Header.new 0 with major := v.1, minor := v.2, sdoId := sd, domain := domain, seqId := seq, logInterval := li }

/-! ### Bodies -/

structure Announce where
  origin : Timestamp
  utcOffset : Nat        -- raw u16 of the i16
  priority1 : Nat
  quality : ClockQuality
  priority2 : Nat
  identity : Nat         -- ClockIdentity
  stepsRemoved : Nat
  timeSource : TimeSource
deriving DecidableEq, Repr

structure Management where
  target : PortIdentity
  startingHops : Nat
  hops : Nat
  action : Nat           -- ManagementAction: 0..4, 5 = Reserved
deriving DecidableEq, Repr

inductive Body where
  | sync (origin : Timestamp)
  | delayReq (origin : Timestamp)
  | pDelayReq (origin : Timestamp)
  | pDelayResp (ts : Timestamp) (port : PortIdentity)
  | followUp (precise : Timestamp)
  | delayResp (ts : Timestamp) (port : PortIdentity)
  | pDelayRespFollowUp (ts : Timestamp) (port : PortIdentity)
  | announce (a : Announce)
  | signaling (target : PortIdentity)
  | management (m : Management)
deriving DecidableEq, Repr

/-- `MessageBody::content_type` -/
def Body.type : Body → Nat
  | .sync _ => 0 | .delayReq _ => 1 | .pDelayReq _ => 2 | .pDelayResp .. => 3 | .followUp _ => 8
  | .delayResp .. => 9 | .pDelayRespFollowUp .. => 10 | .announce _ => 11 | .signaling _ => 12
  | .management _ => 13

/-- `MessageBody::wire_size` -/
def Body.wireSize : Body → Nat
  | .sync _ => 10 | .delayReq _ => 10 | .pDelayReq _ => 20 | .pDelayResp .. => 20 | .followUp _ => 10
  | .delayResp .. => 20 | .pDelayRespFollowUp .. => 20 | .announce _ => 30 | .signaling _ => 10
  | .management _ => 14

def Announce.WF (a : Announce) : Prop :=
  a.origin.WF ∧ a.utcOffset < 2 ^ 16 ∧ a.priority1 < 256 ∧ a.quality.WF ∧ a.priority2 < 256 ∧
  a.identity < 2 ^ 64 ∧ a.stepsRemoved < 2 ^ 16 ∧ a.timeSource.WF
instance (a : Announce) : Decidable a.WF := by unfold Announce.WF; infer_instance

def Management.WF (m : Management) : Prop :=
  m.target.WF ∧ m.startingHops < 256 ∧ m.hops < 256 ∧ m.action ≤ 5
instance (m : Management) : Decidable m.WF := by unfold Management.WF; infer_instance

def Body.WF : Body → Prop
  | .sync t => t.WF | .delayReq t => t.WF | .pDelayReq t => t.WF | .followUp t => t.WF
  | .pDelayResp t p => t.WF ∧ p.WF | .delayResp t p => t.WF ∧ p.WF | .pDelayRespFollowUp t p => t.WF ∧ p.WF
  | .announce a => a.WF | .signaling p => p.WF | .management m => m.WF
instance (b : Body) : Decidable b.WF := by cases b <;> unfold Body.WF <;> infer_instance

def tsPort (b : Bytes) : Except Fail (Timestamp × PortIdentity) :=
  if b.length < 20 then .error .tooShort
  else do
    let t ← Timestamp.deserialize b
    let p ← PortIdentity.deserialize (b.drop 10)
    pure (t, p)

def Announce.deserialize (b : Bytes) : Except Fail Announce :=
  if b.length < 30 then .error .tooShort
  else do
    let origin ← Timestamp.deserialize b
    match b.drop 10 with
    | u0 :: u1 :: _ :: p1 :: rest => do
      let quality ← ClockQuality.deserialize rest
      match rest.drop 4 with
      | p2 :: i0 :: i1 :: i2 :: i3 :: i4 :: i5 :: i6 :: i7 :: s0 :: s1 :: src :: _ =>
        pure { origin, utcOffset := beNat [u0, u1], priority1 := p1.toNat, quality,
               priority2 := p2.toNat, identity := beNat [i0, i1, i2, i3, i4, i5, i6, i7],
               stepsRemoved := beNat [s0, s1], timeSource := TimeSource.fromPrimitive src.toNat }
      | _ => .error .panic       -- slice index out of range: unreachable after the length test
    | _ => .error .panic

def Management.deserialize (b : Bytes) : Except Fail Management :=
  if b.length < 14 then .error .tooShort
  else do
    let target ← PortIdentity.deserialize b
    match b.drop 10 with
    | _ :: sh :: h :: a :: _ =>
      pure { target, startingHops := sh.toNat, hops := h.toNat, action := min a.toNat 5 }
    | _ => .error .panic

/-- `MessageBody::deserialize(message_type, buffer)` (`message_type` already validated) -/
def Body.deserialize (ty : Nat) (b : Bytes) : Except Fail Body :=
  if ty = 0 then do let t ← Timestamp.deserialize b; pure (.sync t)
  else if ty = 1 then do let t ← Timestamp.deserialize b; pure (.delayReq t)
  else if ty = 2 then
    (if b.length < 20 then .error .tooShort else do let t ← Timestamp.deserialize b; pure (.pDelayReq t))
  else if ty = 3 then do let (t, p) ← tsPort b; pure (.pDelayResp t p)
  else if ty = 8 then do let t ← Timestamp.deserialize b; pure (.followUp t)
  else if ty = 9 then do let (t, p) ← tsPort b; pure (.delayResp t p)
  else if ty = 10 then do let (t, p) ← tsPort b; pure (.pDelayRespFollowUp t p)
  else if ty = 11 then do let a ← Announce.deserialize b; pure (.announce a)
  else if ty = 12 then do let p ← PortIdentity.deserialize b; pure (.signaling p)
  else if ty = 13 then do let m ← Management.deserialize b; pure (.management m)
  else .error .panic     -- not a `MessageType`: unreachable (the header parser validated it)

/-- `MessageBody::serialize` into a window of exactly `wire_size` bytes whose old content is `old`:
    the bytes of the window afterwards.  `old` matters only for the two bytes the code never writes. -/
def Body.serialize (body : Body) (old : Bytes) : Except Fail Bytes :=
  match body with
  | .sync t => .ok t.bytes
  | .delayReq t => .ok t.bytes
  | .pDelayReq t => .ok (t.bytes ++ List.replicate 10 0)
  | .pDelayResp t p => .ok (t.bytes ++ p.bytes)
  | .followUp t => .ok t.bytes
  | .delayResp t p => .ok (t.bytes ++ p.bytes)
  | .pDelayRespFollowUp t p => .ok (t.bytes ++ p.bytes)
  | .announce a =>
    match old.drop 12 with
    | stale :: _ => do
      let q ← a.quality.bytes
      pure (a.origin.bytes ++ beBytes 2 a.utcOffset ++ [stale, UInt8.ofNat a.priority1] ++ q ++
            [UInt8.ofNat a.priority2] ++ beBytes 8 a.identity ++ beBytes 2 a.stepsRemoved ++
            [UInt8.ofNat a.timeSource.toPrimitive])
    | [] => .error .tooShort
  | .signaling p => .ok p.bytes
  | .management m =>
    match old.drop 10 with
    | stale :: _ =>
      .ok (m.target.bytes ++ [stale, UInt8.ofNat m.startingHops, UInt8.ofNat m.hops, UInt8.ofNat m.action])
    | [] => .error .tooShort

/-! ### Message -/

structure Message where
  header : Header
  body : Body
  suffix : Bytes      -- TlvSet
deriving DecidableEq, Repr

/-- `Message::serialize(buffer)`: on success the written prefix `buffer[..n]`.
    Order of checks as in the code: the two `split_at_mut_checked`, then `serialize_header` (which
    evaluates `suffix.wire_size()` with its `debug_assert`, then the `u16` conversion), the body, the
    suffix copy. -/
def Message.serialize (m : Message) (buf : Bytes) : Except Fail Bytes :=
  if buf.length < 34 then .error .tooShort
  else if buf.length - 34 < m.body.wireSize then .error .tooShort
  else do
    let sfx ← TlvSet.wireSize m.suffix
    let h ← m.header.serialize m.body.type (m.body.wireSize + sfx)
    let b ← m.body.serialize ((buf.drop 34).take m.body.wireSize)
    if buf.length - 34 - m.body.wireSize < m.suffix.length then .error .tooShort
    else pure (h ++ b ++ m.suffix)

/-- `Message::deserialize` -/
def Message.deserialize (buf : Bytes) : Except Fail Message := do
  let dh ← Header.deserialize buf
  if dh.messageLength < 34 then .error .invalid
  else if buf.length < dh.messageLength then .error .tooShort
  else
    let content := (buf.take dh.messageLength).drop 34
    let body ← Body.deserialize dh.messageType content
    if content.length < body.wireSize then .error .tooShort
    else
      let sfx ← TlvSet.deserialize (content.drop body.wireSize)
      pure { header := dh.header, body, suffix := sfx }

/-- the unfixed `Message::deserialize` (unfixed TLV loop and timestamp check are not threaded through
    every body; only the TLV loop matters for the C41 counterexample) -/
def Message.deserializeOrig (buf : Bytes) : Except Fail Message := do
  let dh ← Header.deserialize buf
  if dh.messageLength < 34 then .error .invalid
  else if buf.length < dh.messageLength then .error .tooShort
  else
    let content := (buf.take dh.messageLength).drop 34
    let body ← Body.deserialize dh.messageType content
    if content.length < body.wireSize then .error .tooShort
    else
      let sfx ← TlvSet.deserializeOrig (content.drop body.wireSize)
      pure { header := dh.header, body, suffix := sfx }

def Message.WF (m : Message) : Prop := m.header.WF ∧ m.body.WF
instance (m : Message) : Decidable m.WF := by unfold Message.WF; infer_instance

end NtpVerif.PtpWire
