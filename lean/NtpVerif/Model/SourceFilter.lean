/-
Model of the per-source clock filter of `ntp-proto/src/algorithm/kalman/source.rs`
(`SourceFilter`, `InitialSourceFilter`, `SourceState`, `AveragingBuffer`, the two-way
`KalmanSourceController`) on top of the generic kernel `Model/Kalman2` instantiated at `F64`.
Mathlib-free.  Parts 1-3: NTP (two-way) sources, `period = None`.  Part 4: one-way sources (PPS/sock,
`KalmanSourceController<(), FixedMeasurementNoise>`) with `period : Option<f64>`.

Part 1 (integer logic with F64 comparisons; C10 filter half, shared with C06):
  PollInterval::{inc, dec, as_duration}                 pollInc, pollDec, pollAsDuration
  SourceFilter::update_desired_poll                     updateDesiredPoll
  SourceFilter::update_wander_estimate                  updateWanderEstimate
Part 2 (time types as far as the filter uses them):
  NtpTimestamp −, +, is_before; NtpDuration to_seconds, from_seconds, abs_diff, from_system_duration
Part 3 (the filter):
  AveragingBuffer::{mean, variance, update, is_outlier, get_max_roundtrip}
  KalmanState::{progress_time, process_offset_steering, process_frequency_steering}
  SourceFilter::{absorb_measurement, update}, InitialSourceFilter::update,
  SourceState::{update_self_using_measurement, snapshot, get_desired_poll, process_*_steering},
  SourceSnapshot::observe, chi_1.

Every Rust panic site on these paths is an explicit `none`:
i8/i32 overflow (test builds have overflow checks), `-hysteresis` at `i32::MIN`, the `debug_assert!` of `NtpDuration::from_seconds` on NaN/∞.
-/
import NtpVerif.Basic.F64
import NtpVerif.Basic.Wrap
import NtpVerif.Gen.Consts
import NtpVerif.Model.Kalman2

namespace NtpVerif.SourceFilter
open NtpVerif.Wrap NtpVerif.Kalman2

/-! ## Part 1: poll / precision scores -/

def checkedI8 (x : Int) : Option Int := checkedRange (-128) 127 x
def checkedI32 (x : Int) : Option Int := checkedRange I32_MIN I32_MAX x

/-- `i32::signum` -/
def signum (x : Int) : Int := if x > 0 then 1 else if x < 0 then -1 else 0

/-- `PollIntervalLimits` (the `i8` exponents) -/
structure Limits where
  min : Int
  max : Int
deriving Repr, DecidableEq

/-- `PollInterval::inc`: `Self(self.0 + 1).min(limits.max)` (`+ 1` overflows at 127) -/
def pollInc (p : Int) (l : Limits) : Option Int := (checkedI8 (p + 1)).map fun q => min q l.max
/-- `PollInterval::dec`: `Self(self.0 - 1).max(limits.min)` (`- 1` overflows at −128) -/
def pollDec (p : Int) (l : Limits) : Option Int := (checkedI8 (p - 1)).map fun q => max q l.min

/-- `PollInterval::as_duration`: `1 << clamp(self.0.saturating_add(32), 0, 62)` in units of 2⁻³² s -/
def pollAsDuration (p : Int) : Int :=
  let base := satI8 (p + 32)
  let shift := if base < 0 then 0 else if base > 62 then 62 else base
  (2 : Int) ^ shift.toNat

/-- `u32::MAX as f64` = 4294967295.0 -/
def u32MaxF : F64 := ⟨0x41efffffffe00000⟩

/-- `NtpDuration::to_seconds`: `self.duration as f64 / u32::MAX as f64` -/
def durToSeconds (d : Int) : F64 := F64.ofI64 d / u32MaxF

/-- the `AlgorithmConfig` fields used by `update_desired_poll` -/
structure PollCfg where
  lowWeight : F64
  highWeight : F64
  hysteresis : Int      -- i32
  stepThreshold : F64
deriving Repr

structure PollState where
  score : Int           -- `poll_score : i32`
  desired : Int         -- `desired_poll_interval : PollInterval(i8)`
deriving Repr, DecidableEq

/-- `0.75` and `1.4` -/
def c075 : F64 := ⟨0x3fe8000000000000⟩
def c14 : F64 := ⟨0x3ff6666666666666⟩

/-- second half of `update_desired_poll`, after the score has been adjusted: the step-threshold reset
    and the hysteresis decisions -/
def pollDecide (score : Int) (s : PollState) (cfg : PollCfg) (lim : Limits) (p : F64) :
    Option PollState :=
  if F64.le p cfg.stepThreshold then
    some { score := 0, desired := lim.min }
  else
    (checkedI32 (-cfg.hysteresis)).bind fun negHyst =>
    if score ≤ negHyst then
      (pollInc s.desired lim).bind fun d => some { score := 0, desired := d }
    else if score ≥ cfg.hysteresis then
      (pollDec s.desired lim).bind fun d => some { score := 0, desired := d }
    else
      some { score := score, desired := s.desired }

/-- `SourceFilter::update_desired_poll`; `none` = arithmetic overflow panic -/
def updateDesiredPoll (s : PollState) (cfg : PollCfg) (lim : Limits)
    (p weight measurementPeriod : F64) : Option PollState :=
  let reference := durToSeconds (pollAsDuration s.desired)
  (if F64.lt weight cfg.lowWeight && F64.gt (measurementPeriod / reference) c075 then
      checkedI32 (s.score - 1)
    else if F64.gt weight cfg.highWeight && F64.lt (measurementPeriod / reference) c14 then
      checkedI32 (s.score + 1)
    else
      some (s.score - signum s.score)).bind fun score => pollDecide score s cfg lim p

/-- run `update_desired_poll` over a list of `(p, weight, measurement_period)` triples, collecting the
    desired interval after every update; `none` as soon as one update panics -/
def runDesiredPoll (s : PollState) (cfg : PollCfg) (lim : Limits) :
    List (F64 × F64 × F64) → Option (List Int)
  | [] => some []
  | (p, w, m) :: rest => do
    let s' ← updateDesiredPoll s cfg lim p w m
    let ds ← runDesiredPoll s' cfg lim rest
    some (s'.desired :: ds)

/-- the `AlgorithmConfig` fields used by `update_wander_estimate` -/
structure WanderCfg where
  lowProb : F64
  highProb : F64
  hysteresis : Int
  minWeight : F64
deriving Repr

def four : F64 := ⟨0x4010000000000000⟩

/-- `SourceFilter::update_wander_estimate` on `(precision_score, clock_wander)` -/
def updateWanderEstimate (score : Int) (wander : F64) (cfg : WanderCfg) (p weight : F64) :
    Option (Int × F64) := do
  let q := F64.one - p
  let score ←
    if F64.lt q cfg.lowProb && F64.gt weight cfg.minWeight then checkedI32 (score - 1)
    else if F64.gt q cfg.highProb then checkedI32 (score + 1)
    else some (score - signum score)
  let negHyst ← checkedI32 (-cfg.hysteresis)
  if score ≤ negHyst then some (0, wander / four)
  else if score ≥ cfg.hysteresis then some (0, wander * four)
  else some (score, wander)

/-! ## Part 2: time types -/

/-- `NtpTimestamp - NtpTimestamp`: `wrapping_sub as i64` -/
def tsSub (a b : Nat) : Int := wrapS64 ((a : Int) - (b : Int))
/-- `NtpTimestamp + NtpDuration`: `wrapping_add(dur as u64)` -/
def tsAdd (t : Nat) (d : Int) : Nat := (wrapU64 ((t : Int) + d)).toNat
/-- `NtpTimestamp::is_before` -/
def isBefore (a b : Nat) : Bool := tsSub a b < 0

/-- `NtpDuration::from_seconds`; `none` = the `debug_assert!(!(nan || infinite))` fired -/
def durFromSeconds (s : F64) : Option Int :=
  if s.isNaN || s.isInf then none else
  let i := s.floor
  let f := s - i
  let ii := i.toI64Sat
  if I32_MIN ≤ ii ∧ ii ≤ I32_MAX then
    -- `(i << 32) | (f * u32::MAX as f64) as i64`
    let hi := (wrapU64 (ii * 4294967296)).toNat
    let lo := (wrapU64 (f * u32MaxF).toI64Sat).toNat
    some (wrapS64 ((hi ||| lo : Nat) : Int))
  else if ii < I32_MIN then some I64_MIN
  else some I64_MAX

/-- `NtpDuration::abs_diff`: `(self - other).abs()` — saturating `-`, then `i64::saturating_abs`
    (since the `fix:` for C32 `abs` no longer overflows on `i64::MIN`: it yields `i64::MAX`).  Total; the
    `Option` is kept so that callers read as before (`none` never occurs: `durAbsDiff_isSome`). -/
def durAbsDiff (a b : Int) : Option Int :=
  let d := satI64 (a - b)
  some (if d = I64_MIN then I64_MAX else if d < 0 then -d else d)

theorem durAbsDiff_isSome (a b : Int) : ∃ d, durAbsDiff a b = some d := ⟨_, rfl⟩

/-- `NtpDuration::from_system_duration` of a `std::time::Duration` given in nanoseconds
    (`(seconds << 32) + ((nanos << 32) / 10⁹)`, reinterpreted as `i64`) -/
def durFromSystemNanos (ns : Nat) : Int :=
  let secs := ns / 1000000000
  let nanos := ns % 1000000000
  wrapS64 (wrapU64 ((secs * 4294967296 + nanos * 4294967296 / 1000000000 : Nat) : Int))

/-! ## Part 3: the filter -/

open scoped NtpVerif.Kalman2

/-- `-0.0`, the start value of `Iterator::sum::<f64>()` -/
def negZero : F64 := ⟨0x8000000000000000⟩
def fsum (xs : List F64) : F64 := xs.foldl (· + ·) negZero
def sqr (x : F64) : F64 := x * x

def eight : F64 := ⟨0x4020000000000000⟩
def seven : F64 := ⟨0x401c000000000000⟩
def hundred : F64 := ⟨0x4059000000000000⟩

/-- `AveragingBuffer` (`data : [f64; 8]` as a list of length 8, `next_idx`) -/
structure AvgBuf where
  data : List F64
  nextIdx : Nat
deriving Repr

def AvgBuf.default : AvgBuf := { data := List.replicate 8 F64.zero, nextIdx := 0 }
/-- `mean`: `sum / 8.0` -/
def AvgBuf.mean (b : AvgBuf) : F64 := fsum b.data / eight
/-- `variance`: `Σ sqr(v − mean) / 7.0` -/
def AvgBuf.variance (b : AvgBuf) : F64 :=
  let m := b.mean
  fsum (b.data.map fun v => sqr (v - m)) / seven
/-- `update` (`data[next_idx] = v; next_idx = (next_idx + 1) % 8`; the index is `< 8` by construction) -/
def AvgBuf.update (b : AvgBuf) (v : F64) : AvgBuf :=
  { data := b.data.set b.nextIdx v, nextIdx := (b.nextIdx + 1) % 8 }
/-- `is_outlier`: `(delay.to_seconds() - mean()) > threshold * variance().sqrt()` -/
def AvgBuf.isOutlier (b : AvgBuf) (delay : Int) (threshold : F64) : Bool :=
  F64.gt (durToSeconds delay - b.mean) (threshold * b.variance.sqrt)
/-- `get_max_roundtrip`: maximum of the first `samples` entries skipping NaNs -/
def AvgBuf.maxRoundtrip (b : AvgBuf) (samples : Nat) : Option F64 :=
  (b.data.take samples).foldl (fun v1 v2 =>
    if v2.isNaN then v1 else match v1 with
      | some v1 => some (F64.max v2 v1)
      | none => some v2) none

/-- `chi_1` -/
def chi1 (chi : F64) : F64 :=
  let P : F64 := ⟨0x3fd4f740a93d7b8c⟩   -- 0.3275911
  let A1 : F64 := ⟨0x3fd04f20c6ec5a7e⟩  -- 0.254829592
  let A2 : F64 := ⟨0xbfd23531cc3c1469⟩  -- -0.284496736
  let A3 : F64 := ⟨0x3ff6be1c55bae157⟩  -- 1.421413741
  let A4 : F64 := ⟨0xbff7401c57014c39⟩  -- -1.453152027
  let A5 : F64 := ⟨0x3ff0fb844255a12d⟩  -- 1.061405429
  let x := (chi / (2 : F64)).sqrt
  let t := (1 : F64) / ((1 : F64) + P * x)
  (A1 * t + A2 * t * t + A3 * t * t * t + A4 * t * t * t * t + A5 * t * t * t * t * t)
    * (-(x * x)).exp

/-- `KalmanState` with its time stamp -/
structure KT where
  s : KState F64
  time : Nat
deriving Repr

/-- `KalmanState::progress_time` (period `None`) -/
def progressTime (k : KT) (time : Nat) (wander : F64) : KT :=
  if isBefore time k.time then k
  else { s := progressCore k.s (durToSeconds (tsSub time k.time)) wander, time := time }

/-- `InternalMeasurement<NtpDuration>` (leap and precision are not used by the filter arithmetic) -/
structure Meas where
  delay : Int
  offset : Int
  localtime : Nat
  rootDelay : Int
  rootDisp : Int
deriving Repr

structure AlgoCfg where
  poll : PollCfg
  wander : WanderCfg
  outlierThreshold : F64
  initialWander : F64
  initialFreqUncertainty : F64
  meddlingThreshold : Int
deriving Repr

structure SrcCfg where
  lim : Limits
  initial : Int
deriving Repr

/-- `SourceFilter<NtpDuration, AveragingBuffer>`; `lastMono` = monotonic clock reading in ns -/
structure Stable where
  k : KT
  wander : F64
  noise : AvgBuf
  precisionScore : Int
  poll : PollState
  last : Meas
  lastMono : Nat
  prevWasOutlier : Bool
  lastIter : Nat
deriving Repr

/-- `InitialSourceFilter` -/
structure Initial where
  noise : AvgBuf
  initOffset : AvgBuf
  last : Option Meas
  samples : Nat
deriving Repr

inductive SState where
  | initial (f : Initial)
  | stable (f : Stable)
deriving Repr

def SState.new : SState := .initial { noise := AvgBuf.default, initOffset := AvgBuf.default, last := none, samples := 0 }

/-- `SourceFilter::update`; returns the new filter and the `bool` -/
def Stable.update (f : Stable) (sc : SrcCfg) (ac : AlgoCfg) (m : Meas) (now : Nat) :
    Option (Stable × Bool) := do
  let f := { f with last := { f.last with rootDelay := m.rootDelay, rootDisp := m.rootDisp } }
  if isBefore m.localtime f.k.time then return (f, false)
  let f := { f with lastIter := m.localtime }
  if !f.prevWasOutlier && f.noise.isOutlier m.delay ac.outlierThreshold then
    return ({ f with prevWasOutlier := true }, false)
  -- progress_filtertime, noise_estimator.update
  let k := progressTime f.k m.localtime f.wander
  let noise := f.noise.update (durToSeconds m.delay)
  -- absorb_measurement
  let mDeltaT := durToSeconds (tsSub m.localtime f.last.localtime)
  let r := noise.variance / four
  let out := absorbCore k.s (1 : F64) (0 : F64) (durToSeconds m.offset) r
  let p := chi1 out.chiArg
  let weight := out.weight
  let (ps, wander) ← updateWanderEstimate f.precisionScore f.wander ac.wander p weight
  let poll ← updateDesiredPoll f.poll ac.poll sc.lim p weight mDeltaT
  return ({ f with k := { s := out.st, time := k.time }, noise := noise, last := m, lastMono := now,
                   precisionScore := ps, wander := wander, poll := poll }, true)

/-- `InitialSourceFilter::update` followed by the promotion test of
    `update_self_using_raw_measurement` -/
def Initial.update (f : Initial) (sc : SrcCfg) (ac : AlgoCfg) (m : Meas) (now : Nat) : SState :=
  let noise := f.noise.update (durToSeconds m.delay)
  let io := f.initOffset.update (durToSeconds m.offset)
  let samples := f.samples + 1
  if samples = Gen.KF_INIT_SAMPLES then
    .stable {
      k := { s := { x := { x0 := io.mean, x1 := (0 : F64) }
                    P := { a00 := io.variance, a01 := (0 : F64), a10 := (0 : F64),
                           a11 := sqr ac.initialFreqUncertainty } }
             time := m.localtime }
      wander := sqr ac.initialWander
      noise := noise
      precisionScore := 0
      poll := { score := 0, desired := sc.initial }
      last := m
      lastMono := now
      prevWasOutlier := false
      lastIter := m.localtime }
  else
    .initial { noise := noise, initOffset := io, last := some m, samples := samples }

/-- `MIN_DELAY = NtpDuration::from_exponent(-18)` -/
def minDelay : Int := (4294967296 : Int) / (2 : Int) ^ (-Gen.KF_MIN_DELAY_EXP).toNat

/-- `SourceState::update_self_using_measurement` (preprocess + raw update); `now` is the monotonic
    clock in ns -/
def SState.update (st : SState) (sc : SrcCfg) (ac : AlgoCfg) (m : Meas) (now : Nat) :
    Option (SState × Bool) := do
  let m := { m with delay := max m.delay minDelay }
  match st with
  | .initial f => return (f.update sc ac m now, true)
  | .stable f =>
    let localDiff := tsSub m.localtime f.last.localtime
    let monoDiff := durFromSystemNanos (now - f.lastMono)
    let ad ← durAbsDiff localDiff monoDiff
    if ad > ac.meddlingThreshold then
      return (SState.new, false)
    else
      let (f', b) ← f.update sc ac m now
      return (.stable f', b)

/-- `SourceSnapshot` (the fields that are numbers) -/
structure Snapshot where
  k : KT
  wander : F64
  delay : F64
  sourceUncertainty : Int
  sourceDelay : Int
  lastUpdate : Nat
deriving Repr

/-- `SourceState::snapshot` -/
def SState.snapshot (st : SState) (ac : AlgoCfg) : Option Snapshot :=
  match st with
  | .initial f =>
    match f.last with
    | some last =>
      if f.samples > 0 then
        (f.noise.maxRoundtrip f.samples).map fun mr =>
          { k := { s := { x := { x0 := fsum (f.initOffset.data.take f.samples) / F64.ofI64 f.samples
                                 x1 := (0 : F64) }
                          P := { a00 := mr, a01 := (0 : F64), a10 := (0 : F64), a11 := hundred } }
                   time := last.localtime }
            wander := ac.initialWander
            delay := mr
            sourceUncertainty := last.rootDisp
            sourceDelay := last.rootDelay
            lastUpdate := last.localtime }
      else none
    | none => none
  | .stable f =>
    some { k := f.k, wander := f.wander, delay := f.noise.mean,
           sourceUncertainty := f.last.rootDisp, sourceDelay := f.last.rootDelay,
           lastUpdate := f.lastIter }

/-- `SourceState::get_desired_poll` -/
def SState.desiredPoll (st : SState) (lim : Limits) : Int :=
  match st with
  | .initial _ => lim.min
  | .stable f => f.poll.desired

/-- `SourceSnapshot::observe`: `(offset, uncertainty, delay)` as `NtpDuration`s; `none` = a
    `from_seconds` `debug_assert!` fired -/
def Snapshot.observe (s : Snapshot) : Option (Int × Int × Int) := do
  let o ← durFromSeconds s.k.s.x.x0
  let u ← durFromSeconds s.k.s.P.a00.sqrt
  let d ← durFromSeconds s.delay
  return (o, u, d)

/-- `KalmanState::process_offset_steering` (period `None`): `state - [steer, 0.0]`,
    `time + NtpDuration::from_seconds(steer)` -/
def kOffsetSteer (k : KT) (steer : F64) : Option KT := do
  let d ← durFromSeconds steer
  some { s := { k.s with x := { x0 := k.s.x.x0 - steer, x1 := k.s.x.x1 - (0 : F64) } },
         time := tsAdd k.time d }

/-- `KalmanState::process_frequency_steering` (period `None`): progress, then `state - [0.0, steer]` -/
def kFreqSteer (k : KT) (time : Nat) (steer wander : F64) : KT :=
  let k := progressTime k time wander
  { k with s := { k.s with x := { x0 := k.s.x.x0 - (0 : F64), x1 := k.s.x.x1 - steer } } }

/-- `SourceState::process_offset_steering` (period `None`) -/
def SState.offsetSteer (st : SState) (steer : F64) : Option SState :=
  match st with
  | .initial f =>
    some (.initial { f with initOffset := { f.initOffset with data := f.initOffset.data.map (· - steer) } })
  | .stable f => do
    let k ← kOffsetSteer f.k steer
    let d ← durFromSeconds steer
    some (.stable { f with
      k := k
      last := { f.last with offset := satI64 (f.last.offset - d), localtime := tsAdd f.last.localtime d } })

/-- `SourceState::process_frequency_steering` -/
def SState.freqSteer (st : SState) (time : Nat) (steer : F64) : Option SState :=
  match st with
  | .initial _ => some st
  | .stable f => do
    let k := kFreqSteer f.k time steer f.wander
    let d ← durFromSeconds (steer * durToSeconds (tsSub time f.last.localtime))
    some (.stable { f with k := k, last := { f.last with offset := satI64 (f.last.offset + d) } })

/-! ## Part 4: one-way (PPS / sock) sources — `KalmanSourceController<(), FixedMeasurementNoise>`
with `period : Option<f64>`

The periodicity `while` loops (`KalmanState::correct_periodicity`, the measurement correction closure of
`SourceFilter::absorb_measurement`, `InitialSourceFilter::{update, correct_period}`) are modelled with an
iteration budget (`Kalman2.iterWhile`); budget exhausted = `Outcome.fuel` = the real loop is still
running (the number of iterations is about `|x| / period`, unbounded; for `x = ±∞` or `|x| ≥ 2^53·p` the
real loop never ends).  Panic sites are `Outcome.panic` as before. -/

inductive Outcome (α : Type) where
  | ok (a : α)
  | panic
  | fuel
deriving Repr

def Outcome.bind {α β : Type} (o : Outcome α) (f : α → Outcome β) : Outcome β :=
  match o with
  | .ok a => f a
  | .panic => .panic
  | .fuel => .fuel

instance : Monad Outcome where
  pure := .ok
  bind := Outcome.bind

/-- an `Option` whose `none` is a panic -/
def orPanic {α : Type} : Option α → Outcome α
  | some a => .ok a
  | none => .panic
/-- an `Option` whose `none` is an exhausted loop budget -/
def orFuel {α : Type} : Option α → Outcome α
  | some a => .ok a
  | none => .fuel

/-- iteration budget of the periodicity loops in the executable model -/
def LOOP_FUEL : Nat := 1000000

def fgt (a b : F64) : Bool := F64.gt a b
def flt (a b : F64) : Bool := F64.lt a b

/-- `KalmanState::correct_periodicity` -/
def correctPeriodicity (fuel : Nat) (k : KT) (period : Option F64) : Outcome KT :=
  match period with
  | none => .ok k
  | some p => (orFuel (wrapVec fgt flt fuel k.s.x p)).bind fun x => .ok { k with s := { k.s with x := x } }

/-- `KalmanState::progress_time` with a period (no correction when `time` is before the state's time) -/
def progressTimeP (fuel : Nat) (k : KT) (time : Nat) (wander : F64) (period : Option F64) : Outcome KT :=
  if isBefore time k.time then .ok k
  else correctPeriodicity fuel
    { s := progressCore k.s (durToSeconds (tsSub time k.time)) wander, time := time } period

/-- Rust `f64 % f64` (C `fmod`): exact, sign of the dividend.  Long division by repeated exact
    subtraction of `|y|·2^k` (Sterbenz), budgeted. -/
def fmodDouble : Nat → F64 → F64 → F64
  | 0, t, _ => t
  | n + 1, t, r => if F64.le (t * (2 : F64)) r then fmodDouble n (t * (2 : F64)) r else t

def fmodAbs : Nat → F64 → F64 → F64
  | 0, r, _ => r
  | n + 1, r, y => if F64.lt r y then r else fmodAbs n (r - fmodDouble 2200 y r) y

def fmod (x y : F64) : F64 :=
  if x.isNaN || y.isNaN || x.isInf || y.isZero then F64.nan
  else if y.isInf then x
  else
    let r := fmodAbs 2200 x.abs y.abs
    if x.signBit then -r else r

/-- `FixedMeasurementNoise` -/
structure FixedNoise where
  precision : F64
  accuracy : F64
deriving Repr

/-- `InternalMeasurement<()>` -/
structure OMeas where
  offset : Int
  localtime : Nat
  rootDelay : Int
  rootDisp : Int
deriving Repr

/-- `SourceFilter<(), FixedMeasurementNoise>` -/
structure OStable where
  k : KT
  wander : F64
  noise : FixedNoise
  precisionScore : Int
  poll : PollState
  last : OMeas
  lastMono : Nat
  prevWasOutlier : Bool
  lastIter : Nat
deriving Repr

/-- `InitialSourceFilter<(), FixedMeasurementNoise>` -/
structure OInitial where
  noise : FixedNoise
  initOffset : AvgBuf
  last : Option OMeas
  samples : Nat
deriving Repr

inductive OState where
  | initial (f : OInitial)
  | stable (f : OStable)
deriving Repr

def OState.new (n : FixedNoise) : OState :=
  .initial { noise := n, initOffset := AvgBuf.default, last := none, samples := 0 }

/-- `InitialSourceFilter::cur_avg` -/
def curAvg (b : AvgBuf) (samples : Nat) : F64 :=
  if samples = 0 then (0 : F64) else fsum (b.data.take samples) / F64.ofI64 samples

/-- `InitialSourceFilter::correct_period` -/
def correctPeriod (fuel : Nat) (b : AvgBuf) (samples : Nat) (period : Option F64) : Outcome AvgBuf :=
  if samples = 0 then .ok b else
  match period with
  | none => .ok b
  | some p =>
    (orFuel (iterWhile (fun (b : AvgBuf) => fgt (curAvg b samples) (p / (2 : F64)))
      (fun b => { b with data := b.data.map (· - p) }) fuel b)).bind fun b =>
    orFuel (iterWhile (fun (b : AvgBuf) => flt (curAvg b samples) (-p / (2 : F64)))
      (fun b => { b with data := b.data.map (· + p) }) fuel b)

/-- `SourceFilter::update` for a one-way source -/
def OStable.update (fuel : Nat) (f : OStable) (sc : SrcCfg) (ac : AlgoCfg) (period : Option F64)
    (m : OMeas) (now : Nat) : Outcome (OStable × Bool) := do
  let f := { f with last := { f.last with rootDelay := m.rootDelay, rootDisp := m.rootDisp } }
  if isBefore m.localtime f.k.time then return (f, false)
  let f := { f with lastIter := m.localtime }
  -- `FixedMeasurementNoise::is_outlier` is always false
  let k ← progressTimeP fuel f.k m.localtime f.wander period
  let mDeltaT := durToSeconds (tsSub m.localtime f.last.localtime)
  let r := f.noise.precision
  -- measurement correction closure, then `KalmanState::absorb_measurement`
  let prediction := sum2 ((1 : F64) * k.s.x.x0) ((0 : F64) * k.s.x.x1)
  let z ← match period with
    | none => Outcome.ok (durToSeconds m.offset)
    | some p => orFuel (wrapValue fgt flt fuel (durToSeconds m.offset) prediction p)
  let out := absorbCore k.s (1 : F64) (0 : F64) z r
  let k' ← correctPeriodicity fuel { s := out.st, time := k.time } period
  let p := chi1 out.chiArg
  let weight := out.weight
  let (ps, wander) ← orPanic (updateWanderEstimate f.precisionScore f.wander ac.wander p weight)
  let poll ← orPanic (updateDesiredPoll f.poll ac.poll sc.lim p weight mDeltaT)
  return ({ f with k := k', last := m, lastMono := now, precisionScore := ps, wander := wander,
                   poll := poll }, true)

/-- `InitialSourceFilter::update` + the promotion test, one-way source -/
def OInitial.update (fuel : Nat) (f : OInitial) (sc : SrcCfg) (ac : AlgoCfg) (period : Option F64)
    (m : OMeas) (now : Nat) : Outcome OState := do
  let offset ← match period with
    | none => Outcome.ok (durToSeconds m.offset)
    | some p =>
      let avg := curAvg f.initOffset f.samples
      orFuel ((iterWhile (fun o => fgt (o - avg) (p / (2 : F64))) (fun o => o - p) fuel
                (durToSeconds m.offset)).bind fun o =>
              iterWhile (fun o => flt (o - avg) (-p / (2 : F64))) (fun o => o + p) fuel o)
  let io := f.initOffset.update offset
  let samples := f.samples + 1
  let io ← correctPeriod fuel io samples period
  if samples = Gen.KF_INIT_SAMPLES then
    let k ← correctPeriodicity fuel
      { s := { x := { x0 := io.mean, x1 := (0 : F64) }
               P := { a00 := io.variance, a01 := (0 : F64), a10 := (0 : F64),
                      a11 := sqr ac.initialFreqUncertainty } }
        time := m.localtime } period
    return .stable {
      k := k
      wander := sqr ac.initialWander
      noise := f.noise
      precisionScore := 0
      poll := { score := 0, desired := sc.initial }
      last := m
      lastMono := now
      prevWasOutlier := false
      lastIter := m.localtime }
  else
    return .initial { noise := f.noise, initOffset := io, last := some m, samples := samples }

/-- `SourceState::update_self_using_measurement`, one-way source -/
def OState.update (fuel : Nat) (st : OState) (sc : SrcCfg) (ac : AlgoCfg) (period : Option F64)
    (m : OMeas) (now : Nat) : Outcome (OState × Bool) := do
  match st with
  | .initial f =>
    let st' ← f.update fuel sc ac period m now
    return (st', true)
  | .stable f =>
    let localDiff := tsSub m.localtime f.last.localtime
    let monoDiff := durFromSystemNanos (now - f.lastMono)
    let ad ← orPanic (durAbsDiff localDiff monoDiff)
    if ad > ac.meddlingThreshold then
      -- `FixedMeasurementNoise::reset` returns itself
      return (OState.new f.noise, false)
    else
      let (f', b) ← f.update fuel sc ac period m now
      return (.stable f', b)

/-- `SourceSnapshot` of a one-way source (with its `period`) -/
structure OSnapshot where
  snap : Snapshot
  period : Option F64
deriving Repr

def one : F64 := F64.one

/-- `SourceState::snapshot`, one-way source: `get_max_roundtrip = Some(1.0f64.max(accuracy))`,
    `get_delay_mean = 4.0 * accuracy` -/
def OState.snapshot (st : OState) (ac : AlgoCfg) (period : Option F64) : Option OSnapshot :=
  match st with
  | .initial f =>
    match f.last with
    | some last =>
      if f.samples > 0 then
        let mr := F64.max one f.noise.accuracy
        some { period := period, snap :=
          { k := { s := { x := { x0 := fsum (f.initOffset.data.take f.samples) / F64.ofI64 f.samples
                                 x1 := (0 : F64) }
                          P := { a00 := mr, a01 := (0 : F64), a10 := (0 : F64), a11 := hundred } }
                   time := last.localtime }
            wander := ac.initialWander
            delay := mr
            sourceUncertainty := last.rootDisp
            sourceDelay := last.rootDelay
            lastUpdate := last.localtime } }
      else none
    | none => none
  | .stable f =>
    some { period := period, snap :=
           { k := f.k, wander := f.wander, delay := four * f.noise.accuracy,
             sourceUncertainty := f.last.rootDisp, sourceDelay := f.last.rootDelay,
             lastUpdate := f.lastIter } }

def OState.desiredPoll (st : OState) (lim : Limits) : Int :=
  match st with
  | .initial _ => lim.min
  | .stable f => f.poll.desired

/-- `SourceState::process_offset_steering` with a period: `steer %= period` first -/
def OState.offsetSteer (fuel : Nat) (st : OState) (steer : F64) (period : Option F64) : Outcome OState :=
  let steer := match period with
    | some p => fmod steer p
    | none => steer
  match st with
  | .initial f => do
    let io : AvgBuf := { f.initOffset with data := f.initOffset.data.map (· - steer) }
    let io ← correctPeriod fuel io f.samples period
    return .initial { f with initOffset := io }
  | .stable f => do
    let k ← orPanic (kOffsetSteer f.k steer)
    let k ← correctPeriodicity fuel k period
    let d ← orPanic (durFromSeconds steer)
    return .stable { f with
      k := k
      last := { f.last with offset := satI64 (f.last.offset - d), localtime := tsAdd f.last.localtime d } }

/-- `SourceState::process_frequency_steering`, one-way source -/
def OState.freqSteer (fuel : Nat) (st : OState) (time : Nat) (steer : F64) (period : Option F64) :
    Outcome OState :=
  match st with
  | .initial _ => .ok st
  | .stable f => do
    let k ← progressTimeP fuel f.k time f.wander period
    let k := { k with s := { k.s with x := { x0 := k.s.x.x0 - (0 : F64), x1 := k.s.x.x1 - steer } } }
    let d ← orPanic (durFromSeconds (steer * durToSeconds (tsSub time f.last.localtime)))
    return .stable { f with k := k, last := { f.last with offset := satI64 (f.last.offset + d) } }

end NtpVerif.SourceFilter
