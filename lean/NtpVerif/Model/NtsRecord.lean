/-
Model of `ntp-proto/src/nts/record.rs` (`NtsRecord::{parse, serialize}`) and of the id enums of
`ntp-proto/src/nts/mod.rs` (`NextProtocol`, `AeadAlgorithm`, `ErrorCode`, `WarningCode`).  Import-free.

Readers.  The Rust parser reads from an `AsyncRead`; `reader.take(n)` wraps it so that at most `n` more
bytes can be read (then EOF).  Over an in-memory stream a `Take` reader behaves exactly like a reader
over the *truncated* stream, so the model passes around the list of bytes that are still AVAILABLE to the
reader (already truncated by every enclosing `take`) and every parser returns

    (result, number of bytes it consumed from the reader)

also in the error case (`read_u16` / `read_exact` consume what is there before reporting `UnexpectedEof`;
`read_to_string` reads to EOF before validating UTF-8).  `Take::limit() != 0` after reading the body is
"the record announced more bytes than were read".

Rust                                           Model
  u16 ids / codes / sizes                        `Nat` (< 65536 for everything produced by the parser: `Record.Valid`)
  `Cow<[u8]>`, `Cow<str>`                        `Bytes` (a `str` is a byte list passing `validUtf8`)
  `std::io::ErrorKind::{UnexpectedEof,InvalidData}`   `IoErr`
  `try_into::<u16>()` failing in `serialize`     `serialize r = none`
-/
import NtpVerif.Gen.Consts

namespace NtpVerif.NtsRecord

abbrev Bytes := List UInt8

/-- UTF-8 validity exactly as core Lean decides it (same definition as Rust's `str::from_utf8`: no
    overlong forms, no surrogates, nothing above U+10FFFF); validated against Rust by the harness. -/
def validUtf8 (b : Bytes) : Bool := ByteArray.validateUTF8 (ByteArray.mk b.toArray)

inductive IoErr where
  | unexpectedEof
  | invalidData
deriving Repr, DecidableEq

/-- parse result: outcome and bytes consumed from the reader -/
abbrev PR (α : Type) := Except IoErr α × Nat

/-! ### id enums (`From<u16>` / `Into<u16>`) -/

inductive NextProtocol where
  | ntpv4
  | draftNtpv5
  | unknown (id : Nat)
deriving Repr, DecidableEq

def NextProtocol.ofU16 (v : Nat) : NextProtocol :=
  if v = Gen.NTSKE_PROTO_NTPV4 then .ntpv4
  else if v = Gen.NTSKE_PROTO_DRAFT_NTPV5 then .draftNtpv5
  else .unknown v

def NextProtocol.toU16 : NextProtocol → Nat
  | .ntpv4 => Gen.NTSKE_PROTO_NTPV4_OUT
  | .draftNtpv5 => Gen.NTSKE_PROTO_DRAFT_NTPV5_OUT
  | .unknown v => v

inductive Aead where
  | siv256
  | siv512
  | unknown (id : Nat)
deriving Repr, DecidableEq

def Aead.ofU16 (v : Nat) : Aead :=
  if v = Gen.NTSKE_AEAD_256 then .siv256
  else if v = Gen.NTSKE_AEAD_512 then .siv512
  else .unknown v

def Aead.toU16 : Aead → Nat
  | .siv256 => Gen.NTSKE_AEAD_256_OUT
  | .siv512 => Gen.NTSKE_AEAD_512_OUT
  | .unknown v => v

inductive ErrorCode where
  | unrecognizedCriticalRecord
  | badRequest
  | internalServerError
  | unknown (id : Nat)
deriving Repr, DecidableEq

def ErrorCode.ofU16 (v : Nat) : ErrorCode :=
  if v = Gen.NTSKE_ERR_CRITICAL then .unrecognizedCriticalRecord
  else if v = Gen.NTSKE_ERR_BAD_REQUEST then .badRequest
  else if v = Gen.NTSKE_ERR_INTERNAL then .internalServerError
  else .unknown v

def ErrorCode.toU16 : ErrorCode → Nat
  | .unrecognizedCriticalRecord => Gen.NTSKE_ERR_CRITICAL_OUT
  | .badRequest => Gen.NTSKE_ERR_BAD_REQUEST_OUT
  | .internalServerError => Gen.NTSKE_ERR_INTERNAL_OUT
  | .unknown v => v

/-- `AlgorithmDescription` -/
structure AlgDesc where
  id : Aead
  keysize : Nat
deriving Repr, DecidableEq

/-- `NtsRecord` (`WarningCode` has the single variant `Unknown(u16)`: a bare number) -/
inductive Record where
  | endOfMessage
  | nextProtocol (ids : List NextProtocol)
  | error (code : ErrorCode)
  | warning (code : Nat)
  | aeadAlgorithm (ids : List Aead)
  | newCookie (data : Bytes)
  | server (name : Bytes)
  | port (port : Nat)
  | unknown (recordType : Nat) (critical : Bool) (data : Bytes)
  | keepAlive
  | supportedNextProtocolList (protocols : List NextProtocol)
  | supportedAlgorithmList (algorithms : List AlgDesc)
  | fixedKeyRequest (c2s s2c : Bytes)
  | ntpServerDeny (denied : Bytes)
  | authentication (key : Bytes)
deriving Repr, DecidableEq

/-! ### big-endian u16 -/

def u16 (a b : UInt8) : Nat := a.toNat * 256 + b.toNat

/-- `write_u16` (of a value known to fit) -/
def putU16 (n : Nat) : Bytes := [UInt8.ofNat (n / 256), UInt8.ofNat (n % 256)]

/-! ### body parsers.  `missing` = announced size − bytes available (`> 0` iff the underlying stream ends
inside the body); `body` = the available body bytes (at most `size` of them). -/

/-- `while reader.limit() != 0 { v.push(reader.read_u16().await?) }` -/
def u16Loop (missing : Nat) : Bytes → PR (List Nat)
  | [] => if missing = 0 then (.ok [], 0) else (.error .unexpectedEof, 0)
  | [_] => (.error .unexpectedEof, 1)
  | a :: b :: rest =>
    match u16Loop missing rest with
    | (.ok xs, c) => (.ok (u16 a b :: xs), c + 2)
    | (.error e, c) => (.error e, c + 2)

/-- the loop of `parse_supported_algorithm_list`: two `read_u16` per entry -/
def descLoop (missing : Nat) : Bytes → PR (List AlgDesc)
  | [] => if missing = 0 then (.ok [], 0) else (.error .unexpectedEof, 0)
  | [_] => (.error .unexpectedEof, 1)
  | [_, _] => (.error .unexpectedEof, 2)
  | [_, _, _] => (.error .unexpectedEof, 3)
  | a :: b :: c :: d :: rest =>
    match descLoop missing rest with
    | (.ok xs, n) => (.ok ({ id := Aead.ofU16 (u16 a b), keysize := u16 c d } :: xs), n + 4)
    | (.error e, n) => (.error e, n + 4)

/-- `parse_end_of_message` / `parse_keep_alive`: drain the body, complain when it was cut short -/
def drainBody (r : Record) (missing : Nat) (body : Bytes) : PR Record :=
  if missing ≠ 0 then (.error .unexpectedEof, body.length) else (.ok r, body.length)

/-- `parse_error` / `parse_warning` / `parse_port`: one u16, then the body must be exhausted -/
def singleU16 (mk : Nat → Record) (size : Nat) (body : Bytes) : PR Record :=
  match body with
  | a :: b :: _ => if size ≠ 2 then (.error .invalidData, 2) else (.ok (mk (u16 a b)), 2)
  | _ => (.error .unexpectedEof, body.length)

/-- `vec![0; limit]; read_exact` (`parse_new_cookie`, unknown records) -/
def exactBody (mk : Bytes → Record) (missing : Nat) (body : Bytes) : PR Record :=
  if missing ≠ 0 then (.error .unexpectedEof, body.length) else (.ok (mk body), body.length)

/-- `read_to_string`, then `limit() != 0` (`parse_server`, `parse_ntp_server_deny`, `parse_authentication`) -/
def stringBody (mk : Bytes → Record) (missing : Nat) (body : Bytes) : PR Record :=
  if ¬ validUtf8 body then (.error .invalidData, body.length)
  else if missing ≠ 0 then (.error .unexpectedEof, body.length)
  else (.ok (mk body), body.length)

/-- `parse_fixed_key_request`: two `read_exact` of `size / 2` bytes, then the body must be exhausted -/
def fixedKeyBody (size : Nat) (body : Bytes) : PR Record :=
  let n := size / 2
  if body.length < 2 * n then (.error .unexpectedEof, body.length)
  else if size ≠ 2 * n then (.error .invalidData, 2 * n)
  else (.ok (.fixedKeyRequest (body.take n) ((body.drop n).take n)), 2 * n)

def mapPR (f : α → β) : PR α → PR β
  | (.ok a, c) => (.ok (f a), c)
  | (.error e, c) => (.error e, c)

/-- the arms of the `match record_type` of `NtsRecord::parse` -/
inductive Kind where
  | endOfMessage | nextProtocol | error | warning | aead | newCookie | server | port | keepAlive
  | supportedProtocols | supportedAlgorithms | fixedKey | serverDeny | authentication | unknown
deriving Repr, DecidableEq

/-- which arm a (masked) record type selects -/
def kindOf (ty : Nat) : Kind :=
  if ty = Gen.NTSKE_REC_END_OF_MESSAGE then .endOfMessage
  else if ty = Gen.NTSKE_REC_NEXT_PROTOCOL then .nextProtocol
  else if ty = Gen.NTSKE_REC_ERROR then .error
  else if ty = Gen.NTSKE_REC_WARNING then .warning
  else if ty = Gen.NTSKE_REC_AEAD then .aead
  else if ty = Gen.NTSKE_REC_NEW_COOKIE then .newCookie
  else if ty = Gen.NTSKE_REC_SERVER then .server
  else if ty = Gen.NTSKE_REC_PORT then .port
  else if ty = Gen.NTSKE_REC_KEEP_ALIVE then .keepAlive
  else if ty = Gen.NTSKE_REC_SUPPORTED_PROTOCOLS then .supportedProtocols
  else if ty = Gen.NTSKE_REC_SUPPORTED_ALGORITHMS then .supportedAlgorithms
  else if ty = Gen.NTSKE_REC_FIXED_KEY then .fixedKey
  else if ty = Gen.NTSKE_REC_SERVER_DENY then .serverDeny
  else if ty = Gen.NTSKE_REC_AUTHENTICATION then .authentication
  else .unknown

/-- the `match record_type` of `NtsRecord::parse` -/
def parseBody (ty : Nat) (critical : Bool) (size : Nat) (body : Bytes) : PR Record :=
  let missing := size - body.length
  match kindOf ty with
  | .endOfMessage => drainBody .endOfMessage missing body
  | .nextProtocol => mapPR (fun xs => .nextProtocol (xs.map NextProtocol.ofU16)) (u16Loop missing body)
  | .error => singleU16 (fun v => .error (ErrorCode.ofU16 v)) size body
  | .warning => singleU16 .warning size body
  | .aead => mapPR (fun xs => .aeadAlgorithm (xs.map Aead.ofU16)) (u16Loop missing body)
  | .newCookie => exactBody .newCookie missing body
  | .server => stringBody .server missing body
  | .port => singleU16 .port size body
  | .keepAlive => drainBody .keepAlive missing body
  | .supportedProtocols =>
    mapPR (fun xs => .supportedNextProtocolList (xs.map NextProtocol.ofU16)) (u16Loop missing body)
  | .supportedAlgorithms => mapPR .supportedAlgorithmList (descLoop missing body)
  | .fixedKey => fixedKeyBody size body
  | .serverDeny => stringBody .ntpServerDeny missing body
  | .authentication => stringBody .authentication missing body
  | .unknown => exactBody (.unknown ty critical) missing body

/-- `NtsRecord::parse` on a reader that has `inp` available.
    No panic outcome: the only candidates in record.rs are `Vec::with_capacity(limit / 2)` and
    `vec![0; limit]` with `limit ≤ u16::MAX` (panic-site inventory `anchors/panic_sites/ntske.json`). -/
def parseRecord (inp : Bytes) : PR Record :=
  match inp with
  | t0 :: t1 :: s0 :: s1 :: rest =>
    let raw := u16 t0 t1
    let size := u16 s0 s1
    let critical := decide (raw / Gen.NTSKE_CRITICAL_MASK_IN % 2 = 1)
    let ty := raw % (Gen.NTSKE_TYPE_MASK_IN + 1)
    match parseBody ty critical size (rest.take size) with
    | (r, c) => (r, c + 4)
  | _ => (.error .unexpectedEof, inp.length)

/-! ### serialisation -/

/-- `record_type()` -/
def Record.typeWord : Record → Nat
  | .endOfMessage => Gen.NTSKE_SER_CRIT_END_OF_MESSAGE + Gen.NTSKE_CRITICAL_BIT
  | .nextProtocol _ => Gen.NTSKE_SER_CRIT_NEXT_PROTOCOL + Gen.NTSKE_CRITICAL_BIT
  | .error _ => Gen.NTSKE_SER_CRIT_ERROR + Gen.NTSKE_CRITICAL_BIT
  | .warning _ => Gen.NTSKE_SER_CRIT_WARNING + Gen.NTSKE_CRITICAL_BIT
  | .aeadAlgorithm _ => Gen.NTSKE_SER_CRIT_AEAD + Gen.NTSKE_CRITICAL_BIT
  | .newCookie _ => Gen.NTSKE_SER_PLAIN_NEW_COOKIE
  | .server _ => Gen.NTSKE_SER_CRIT_SERVER + Gen.NTSKE_CRITICAL_BIT
  | .port _ => Gen.NTSKE_SER_CRIT_PORT + Gen.NTSKE_CRITICAL_BIT
  | .unknown ty critical _ => ty + (if critical then Gen.NTSKE_CRITICAL_BIT else 0)
  | .keepAlive => Gen.NTSKE_SER_PLAIN_KEEP_ALIVE
  | .supportedNextProtocolList _ => Gen.NTSKE_SER_CRIT_SUPPORTED_PROTOCOLS + Gen.NTSKE_CRITICAL_BIT
  | .supportedAlgorithmList _ => Gen.NTSKE_SER_CRIT_SUPPORTED_ALGORITHMS + Gen.NTSKE_CRITICAL_BIT
  | .fixedKeyRequest _ _ => Gen.NTSKE_SER_CRIT_FIXED_KEY + Gen.NTSKE_CRITICAL_BIT
  | .ntpServerDeny _ => Gen.NTSKE_SER_PLAIN_SERVER_DENY
  | .authentication _ => Gen.NTSKE_SER_PLAIN_AUTHENTICATION

def putU16s (xs : List Nat) : Bytes := xs.flatMap putU16

/-- the bytes written after the header -/
def Record.body : Record → Bytes
  | .endOfMessage | .keepAlive => []
  | .nextProtocol ids => putU16s (ids.map NextProtocol.toU16)
  | .error c => putU16 c.toU16
  | .warning c => putU16 c
  | .aeadAlgorithm ids => putU16s (ids.map Aead.toU16)
  | .newCookie d => d
  | .server n => n
  | .port p => putU16 p
  | .unknown _ _ d => d
  | .supportedNextProtocolList ps => putU16s (ps.map NextProtocol.toU16)
  | .supportedAlgorithmList ds => ds.flatMap fun d => putU16 d.id.toU16 ++ putU16 d.keysize
  | .fixedKeyRequest c2s s2c => c2s ++ s2c
  | .ntpServerDeny d => d
  | .authentication k => k

/-- `body_size()` -/
def Record.bodySize : Record → Nat
  | .endOfMessage | .keepAlive => 0
  | .error _ | .warning _ | .port _ => 2
  | .nextProtocol ids => ids.length * 2
  | .aeadAlgorithm ids => ids.length * 2
  | .newCookie d => d.length
  | .server n => n.length
  | .unknown _ _ d => d.length
  | .supportedNextProtocolList ps => ps.length * 2
  | .supportedAlgorithmList ds => ds.length * 2 * 2
  | .fixedKeyRequest c2s s2c => c2s.length + s2c.length
  | .ntpServerDeny d => d.length
  | .authentication k => k.length

/-- `NtsRecord::serialize` into an unbounded in-memory writer: `none` = `ErrorKind::InvalidInput`
    (body size does not fit a u16; nothing useful has been written) -/
def serialize (r : Record) : Option Bytes :=
  if r.bodySize ≤ 65535 then some (putU16 r.typeWord ++ putU16 r.bodySize ++ r.body) else none

end NtpVerif.NtsRecord
