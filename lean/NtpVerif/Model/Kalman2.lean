/-
Generic 2×2 Kalman kernel of `ntp-proto/src/algorithm/kalman/source.rs` (`KalmanState`) and
`matrix.rs` (`Matrix<N,M>` for the shapes that occur: 2×2, 2×1, 1×2, 1×1).  Mathlib-free.

The kernel is written ONCE over an arbitrary carrier `α` that only has the *operations*
`+ - * / neg` and the literals `0 1 2 3` (DESIGN §2.5, "Arith α").  Two instantiations:

* `α := F64` (this file, `scoped instance`s below): executable, bit-exact with the Rust code — every
  floating-point operation is performed in the same order and association as in the Rust source
  (including `Iterator::sum::<f64>()`, which folds from `-0.0`), arithmetic on the hardware;
* `α :=` any linearly ordered field (`NtpVerif/Proofs/KalmanExact.lean`): exact arithmetic, used for
  the C06 theorems (symmetry / positive semidefiniteness / innovation variance / weight range).

Rust                                              model
  Matrix<2,2>, Vector<2>                            Mat2 α, Vec2 α
  Matrix * Matrix (`(0..K).map(..).sum()`)          Mat2.mul, Mat2.mulVec, sum1, sum2
  Matrix<2,2>::{inverse, symmetrize, unit, +, -}    Mat2.inverse, symmetrize, unit, add, sub
  KalmanState { state, uncertainty, time }          KState α (the time stamp lives in the F64 layer)
  KalmanState::progress_time   (Δt already in s)    progressCore
  KalmanState::absorb_measurement                   absorbCore (period correction = identity: NTP
                                                    sources have `period = None`)
  KalmanState::merge, add_server_dispersion         merge, addServerDispersion
-/
import NtpVerif.Basic.F64

namespace NtpVerif.Kalman2

structure Vec2 (α : Type) where
  x0 : α
  x1 : α
deriving Repr, DecidableEq

structure Mat2 (α : Type) where
  a00 : α
  a01 : α
  a10 : α
  a11 : α
deriving Repr, DecidableEq

/-- `KalmanState` without its time stamp -/
structure KState (α : Type) where
  x : Vec2 α
  P : Mat2 α
deriving Repr, DecidableEq

/-- `MeasurementStats` (before `chi_1` is applied to `chiArg`) plus the intermediate innovation
    variance, exposed so the exact-arithmetic theorems can talk about it -/
structure AbsorbOut (α : Type) where
  st : KState α
  chiArg : α      -- `difference.inner(difference_covariance.inverse() * difference)`
  weight : α      -- `1.0 - noise.determinant() / difference_covariance.determinant()`
  innov : α       -- `difference_covariance` (1×1)
deriving Repr

section
variable {α : Type} [Add α] [Sub α] [Mul α] [Div α] [Neg α]
  [OfNat α 0] [OfNat α 1] [OfNat α 2] [OfNat α 3]

/-- `[a].iter().sum::<f64>()`: Rust folds float sums from `-0.0` -/
@[inline] def sum1 (a : α) : α := -(0 : α) + a
/-- `[a, b].iter().sum::<f64>()` -/
@[inline] def sum2 (a b : α) : α := (-(0 : α) + a) + b

def Mat2.mul (A B : Mat2 α) : Mat2 α :=
  { a00 := sum2 (A.a00 * B.a00) (A.a01 * B.a10)
    a01 := sum2 (A.a00 * B.a01) (A.a01 * B.a11)
    a10 := sum2 (A.a10 * B.a00) (A.a11 * B.a10)
    a11 := sum2 (A.a10 * B.a01) (A.a11 * B.a11) }

def Mat2.mulVec (A : Mat2 α) (v : Vec2 α) : Vec2 α :=
  { x0 := sum2 (A.a00 * v.x0) (A.a01 * v.x1)
    x1 := sum2 (A.a10 * v.x0) (A.a11 * v.x1) }

def Mat2.transpose (A : Mat2 α) : Mat2 α := { a00 := A.a00, a01 := A.a10, a10 := A.a01, a11 := A.a11 }

def Mat2.add (A B : Mat2 α) : Mat2 α :=
  { a00 := A.a00 + B.a00, a01 := A.a01 + B.a01, a10 := A.a10 + B.a10, a11 := A.a11 + B.a11 }

def Mat2.sub (A B : Mat2 α) : Mat2 α :=
  { a00 := A.a00 - B.a00, a01 := A.a01 - B.a01, a10 := A.a10 - B.a10, a11 := A.a11 - B.a11 }

def Vec2.add (u v : Vec2 α) : Vec2 α := { x0 := u.x0 + v.x0, x1 := u.x1 + v.x1 }
def Vec2.sub (u v : Vec2 α) : Vec2 α := { x0 := u.x0 - v.x0, x1 := u.x1 - v.x1 }

/-- `Matrix::<2,2>::symmetrize`: entry (i,j) ↦ `(a[i][j] + a[j][i]) / 2.` -/
def Mat2.symmetrize (A : Mat2 α) : Mat2 α :=
  { a00 := (A.a00 + A.a00) / 2, a01 := (A.a01 + A.a10) / 2,
    a10 := (A.a10 + A.a01) / 2, a11 := (A.a11 + A.a11) / 2 }

def Mat2.unit : Mat2 α := { a00 := 1, a01 := 0, a10 := 0, a11 := 1 }

/-- `Matrix::<2,2>::inverse` (`-d * x` is `(-d) * x` in Rust) -/
def Mat2.inverse (A : Mat2 α) : Mat2 α :=
  let d := 1 / (A.a00 * A.a11 - A.a01 * A.a10)
  { a00 := d * A.a11, a01 := -d * A.a01, a10 := -d * A.a10, a11 := d * A.a00 }

def Mat2.det (A : Mat2 α) : α := A.a00 * A.a11 - A.a01 * A.a10

/-- the process-noise matrix of `progress_time` (`wander * delta_t * delta_t * delta_t / 3.` …) -/
def processNoise (dt wander : α) : Mat2 α :=
  { a00 := wander * dt * dt * dt / 3, a01 := wander * dt * dt / 2,
    a10 := wander * dt * dt / 2, a11 := wander * dt }

/-- `KalmanState::progress_time` after the `is_before` test, for `delta_t = dt` seconds:
    `state := update * state`, `uncertainty := update * P * updateᵀ + process_noise`. -/
def progressCore (s : KState α) (dt wander : α) : KState α :=
  let update : Mat2 α := { a00 := 1, a01 := dt, a10 := 0, a11 := 1 }
  { x := update.mulVec s.x
    P := ((update.mul s.P).mul update.transpose).add (processNoise dt wander) }

/-- `KalmanState::absorb_measurement` for a 1×2 measurement matrix `(h0 h1)`, measured value `z`
    and measurement noise `r` (no periodicity). -/
def absorbCore (s : KState α) (h0 h1 z r : α) : AbsorbOut α :=
  let x := s.x
  let P := s.P
  -- prediction = measurement * state
  let prediction := sum2 (h0 * x.x0) (h1 * x.x1)
  let difference := z - prediction
  -- difference_covariance = measurement * P * measurementᵀ + noise
  let hP0 := sum2 (h0 * P.a00) (h1 * P.a10)
  let hP1 := sum2 (h0 * P.a01) (h1 * P.a11)
  let innov := sum2 (hP0 * h0) (hP1 * h1) + r
  let sinv := 1 / innov
  -- update_strength = P * measurementᵀ * difference_covariance.inverse()
  let pht0 := sum2 (P.a00 * h0) (P.a01 * h1)
  let pht1 := sum2 (P.a10 * h0) (P.a11 * h1)
  let k0 := sum1 (pht0 * sinv)
  let k1 := sum1 (pht1 * sinv)
  let chiArg := sum1 (difference * sum1 (sinv * difference))
  let weight := 1 - r / innov
  let kh : Mat2 α := { a00 := sum1 (k0 * h0), a01 := sum1 (k0 * h1),
                       a10 := sum1 (k1 * h0), a11 := sum1 (k1 * h1) }
  { st := { x := { x0 := x.x0 + sum1 (k0 * difference), x1 := x.x1 + sum1 (k1 * difference) }
            P := ((Mat2.unit.sub kh).mul P).symmetrize }
    chiArg := chiArg, weight := weight, innov := innov }

/-- `KalmanState::merge` (times assumed equal: `debug_assert_eq!` is in the F64 layer) -/
def merge (s o : KState α) : KState α :=
  let mixer := (s.P.add o.P).inverse
  let pm := s.P.mul mixer
  { x := s.x.add (pm.mulVec (o.x.sub s.x))
    P := pm.mul o.P }

/-- `KalmanState::add_server_dispersion` -/
def addServerDispersion (s : KState α) (d : α) : KState α :=
  { x := s.x, P := s.P.add { a00 := d * d, a01 := 0, a10 := 0, a11 := 0 } }

/-- the root-dispersion polynomial of `TimeSnapshot::root_dispersion` under the square root:
    `base + t·linear + t²·quadratic + t³·cubic` with `(base, linear, quadratic) = (P₀₀, P₀₁, P₁₁)` -/
def dispersionPoly (P : Mat2 α) (w t : α) : α :=
  P.a00 + t * P.a01 + t * t * P.a11 + t * t * t * w

end

/-! ### bounded `while` loops (periodic sources: `correct_periodicity` and friends)

Rust `while cond(s) { s = step(s) }` with an explicit iteration budget: `none` = the budget ran out
(the real loop is still running).  No arithmetic here, so the facts below hold for every carrier. -/

/-- at most `fuel` iterations of `while cond s { s := step s }` -/
def iterWhile {σ : Type} (cond : σ → Bool) (step : σ → σ) : Nat → σ → Option σ
  | 0, s => if cond s then none else some s
  | n + 1, s => if cond s then iterWhile cond step n (step s) else some s

/-- when the loop exits, its condition is false -/
theorem iterWhile_exit {σ : Type} (cond : σ → Bool) (step : σ → σ) (n : Nat) (s s' : σ)
    (h : iterWhile cond step n s = some s') : cond s' = false := by
  induction n generalizing s with
  | zero =>
    simp only [iterWhile] at h
    split at h
    · cases h
    · cases h; simp_all
  | succ n ih =>
    simp only [iterWhile] at h
    split at h
    · exact ih _ h
    · cases h; simp_all

/-- anything the body preserves (on states where the condition holds) still holds when the loop exits -/
theorem iterWhile_inv {σ : Type} (cond : σ → Bool) (step : σ → σ) (I : σ → Prop)
    (hstep : ∀ s, I s → cond s = true → I (step s)) (n : Nat) (s s' : σ) (hs : I s)
    (h : iterWhile cond step n s = some s') : I s' := by
  induction n generalizing s with
  | zero =>
    simp only [iterWhile] at h
    split at h
    · cases h
    · cases h; exact hs
  | succ n ih =>
    simp only [iterWhile] at h
    split at h
    · rename_i hc; exact ih _ (hstep s hs hc) h
    · cases h; exact hs

/-- a loop whose condition is false on entry does nothing -/
theorem iterWhile_skip {σ : Type} (cond : σ → Bool) (step : σ → σ) (n : Nat) (s : σ)
    (h : cond s = false) : iterWhile cond step n s = some s := by
  cases n <;> simp [iterWhile, h]

section
variable {α : Type} [Add α] [Sub α] [Div α] [Neg α] [OfNat α 0] [OfNat α 2]

/-- `KalmanState::correct_periodicity` on the state vector, for comparison functions `gt`/`lt`:
    `while x0 > p/2 { x := x - [p, 0.0] }; while x0 < -p/2 { x := x + [p, 0.0] }` -/
def wrapVec (gt lt : α → α → Bool) (fuel : Nat) (x : Vec2 α) (p : α) : Option (Vec2 α) :=
  (iterWhile (fun v => gt v.x0 (p / 2)) (fun v => { x0 := v.x0 - p, x1 := v.x1 - 0 }) fuel x).bind fun v =>
  iterWhile (fun v => lt v.x0 (-p / 2)) (fun v => { x0 := v.x0 + p, x1 := v.x1 + 0 }) fuel v

/-- the measurement correction closure of `SourceFilter::absorb_measurement`:
    `while value - prediction > p/2 { value -= p }; while value - prediction < -p/2 { value += p }` -/
def wrapValue (gt lt : α → α → Bool) (fuel : Nat) (value prediction p : α) : Option α :=
  (iterWhile (fun v => gt (v - prediction) (p / 2)) (fun v => v - p) fuel value).bind fun v =>
  iterWhile (fun v => lt (v - prediction) (-p / 2)) (fun v => v + p) fuel v

end

/-! ### the executable instance: `α := F64` -/

scoped instance : OfNat F64 0 := ⟨F64.zero⟩
scoped instance : OfNat F64 1 := ⟨F64.one⟩
scoped instance : OfNat F64 2 := ⟨⟨0x4000000000000000⟩⟩
scoped instance : OfNat F64 3 := ⟨⟨0x4008000000000000⟩⟩

end NtpVerif.Kalman2
