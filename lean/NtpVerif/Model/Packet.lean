/-
Model of `ntp-proto/src/packet/mod.rs`: `NtpHeaderV3V4::{deserialize, serialize}`,
`NtpPacket::{deserialize, serialize, draft_id}`.  Import-free.

  NtpPacket::deserialize(data, cipher)   parse dec ctx data : ParseOut
      Ok((packet, cookie))                 .ok p cookie
      Err(DecryptError(packet))            .decryptErr p
      Err(other)                           .err e
      a panic                              .panic     (`C23.total`: never)
  NtpPacket::serialize(w, cipher, desired_size)   Packet.serialize p sealed desired
-/
import NtpVerif.Model.PacketV5
import NtpVerif.Model.Mac

namespace NtpVerif.Wire

structure HeaderV34 where
  leap : Leap
  mode : Nat            -- `NtpAssociationMode` as its three bits
  stratum : Nat
  poll : Nat
  precision : Nat
  rootDelay : Int
  rootDispersion : Int
  referenceId : Nat
  referenceTs : Nat
  originTs : Nat
  receiveTs : Nat
  transmitTs : Nat
deriving Repr, DecidableEq

/-- `NtpAssociationMode::from_bits` (`_ => unreachable!()` explicit); the mode is kept as its number -/
def modeFromBits (b : Nat) : R Nat := if b < 8 then .ok b else rpanic

/-- `NtpHeaderV3V4::deserialize` -/
def HeaderV34.deserialize (data : Bytes) : R (HeaderV34 × Nat) :=
  if data.length < Gen.HEADER_V3V4_WIRE_LENGTH then perr .incorrectLength
  else do
    let b0 ← idxP data 0
    let leap ← Leap.fromBits (b0.toNat / 64)
    let mode ← modeFromBits (b0.toNat % 8)
    let stratum ← idxP data 1
    let poll ← idxP data 2
    let precision ← idxP data 3
    let rd ← sliceP data 4 8
    let rdisp ← sliceP data 8 12
    let rid ← sliceP data 12 16
    let rts ← sliceP data 16 24
    let ots ← sliceP data 24 32
    let rcv ← sliceP data 32 40
    let tts ← sliceP data 40 48
    pure ({ leap := leap, mode := mode, stratum := stratum.toNat, poll := poll.toNat,
            precision := precision.toNat, rootDelay := durFromShort rd, rootDispersion := durFromShort rdisp,
            referenceId := beNat rid, referenceTs := beNat rts, originTs := beNat ots,
            receiveTs := beNat rcv, transmitTs := beNat tts }, Gen.HEADER_V3V4_WIRE_LENGTH)

/-- `NtpHeaderV3V4::serialize(w, version)` -/
def HeaderV34.serialize (h : HeaderV34) (version : Nat) : S Bytes := do
  let rd ← durToShort h.rootDelay
  let rdisp ← durToShort h.rootDispersion
  pure ([UInt8.ofNat (h.leap.toBits * 64 + version * 8 + h.mode)] ++
        [UInt8.ofNat h.stratum, UInt8.ofNat h.poll, UInt8.ofNat h.precision] ++ rd ++ rdisp ++
        toBE 4 h.referenceId ++ toBE 8 h.referenceTs ++ toBE 8 h.originTs ++ toBE 8 h.receiveTs ++
        toBE 8 h.transmitTs)

inductive Header where
  | v3 (h : HeaderV34)
  | v4 (h : HeaderV34)
  | v5 (h : HeaderV5)
deriving Repr, DecidableEq

structure Packet where
  header : Header
  ef : EFData
  mac : Option Mac
deriving Repr, DecidableEq

inductive ParseOut where
  | ok (p : Packet) (cookie : Option Cookie)
  | decryptErr (p : Packet)
  | err (e : PErr)
  | panic
  | fuel
deriving Repr, DecidableEq

/-- `v5::DRAFT_VERSION` (checked against the source constant by the driver op `draftver`) -/
def draftVersion : Bytes := "draft-ietf-ntp-ntpv5-09".toList.map fun c => UInt8.ofNat c.toNat

/-- `NtpPacket::draft_id`: first `DraftIdentification` among untrusted then authenticated -/
def draftIdOf (ef : EFData) : Option Bytes :=
  (ef.untrusted ++ ef.authenticated).findSome? fun f =>
    match f with
    | .draftId s => some s
    | _ => none

/-- the `construct_packet` closure -/
def constructPacket (header : Header) (remaining : Bytes) (ef : EFData) : R Packet :=
  if remaining ≠ [] then do
    let m ← Mac.deserialize remaining
    pure { header := header, ef := ef, mac := some m }
  else pure { header := header, ef := ef, mac := none }

/-- packet, cookie, `true` = `Ok`, `false` = `Err(DecryptError(packet))` -/
def parseEF (dec : Dec) (ctx : Ctx) (data : Bytes) (header : Header) (headerSize : Nat) (ver : Ver) :
    R (Packet × Option Cookie × Bool) := do
  let r ← efDeserialize dec ctx data headerSize ver
  let p ← constructPacket header r.remaining r.ef
  pure (p, r.cookie, r.valid)

def parseR (dec : Dec) (ctx : Ctx) (data : Bytes) : R (Packet × Option Cookie × Bool) :=
  match data with
  | [] => perr .incorrectLength
  | b0 :: _ =>
    let version := (b0.toNat / 8) % 8
    if version = 3 then do
      let (h, hs) ← HeaderV34.deserialize data
      if hs ≠ data.length then do
        let rest ← sliceP data hs data.length
        let m ← Mac.deserialize rest
        pure ({ header := .v3 h, ef := .empty, mac := some m }, none, true)
      else pure ({ header := .v3 h, ef := .empty, mac := none }, none, true)
    else if version = 4 then do
      let (h, hs) ← HeaderV34.deserialize data
      parseEF dec ctx data (.v4 h) hs .v4
    else if version = 5 then do
      let (h, hs) ← HeaderV5.deserialize data
      let (p, cookie, valid) ← parseEF dec ctx data (.v5 h) hs .v5
      if ¬ valid then pure (p, cookie, valid)
      else if draftIdOf p.ef = some draftVersion then pure (p, cookie, valid)
      else perr .v5InvalidDraftIdentification
    else perr (.invalidVersion version)

/-- `NtpPacket::deserialize` -/
def parse (dec : Dec) (ctx : Ctx) (data : Bytes) : ParseOut :=
  match parseR dec ctx data with
  | .ok (p, cookie, true) => .ok p cookie
  | .ok (p, _, false) => .decryptErr p
  | .error (.parse e) => .err e
  | .error .panic => .panic
  | .error .fuel => .fuel

/-- `NtpPacket::serialize`.  `sealed`: see `EFData.serialize`.  Buffer capacity is not modelled here (every
    write appends; `serializeInto` adds the final capacity test). -/
def Packet.serialize (p : Packet) (sealed : Option (Bytes × Bytes)) (desired : Option Nat) :
    S (Bytes × Option Bytes) := do
  let hb ←
    match p.header with
    | .v3 h => h.serialize 3
    | .v4 h => h.serialize 4
    | .v5 h => h.serialize
  let (eb, pt) ←
    match p.header with
    | .v3 _ => (pure ([], none) : S (Bytes × Option Bytes))
    | .v4 _ => p.ef.serialize .v4 sealed
    | .v5 _ => p.ef.serialize .v5 sealed
  let mb := match p.mac with
    | some m => m.serialize
    | none => []
  let written := hb ++ eb ++ mb
  match p.header, desired with
  | .v5 _, some d =>
    if d > written.length then do
      let pad ← (EF.padding (d - written.length)).serialize 4 .v5
      pure (written ++ pad, pt)
    else pure (written, pt)
  | _, _ => pure (written, pt)

/-- serialisation into a buffer of `cap` bytes: the cursor's `write_all` fails once the buffer is full -/
def Packet.serializeInto (p : Packet) (cap : Nat) (sealed : Option (Bytes × Bytes)) (desired : Option Nat) :
    S (Bytes × Option Bytes) := do
  let (b, pt) ← p.serialize sealed desired
  if b.length > cap then .error .io else pure (b, pt)

end NtpVerif.Wire
