/-
Model of the `NtpSource` state machine of `ntp-proto/src/source.rs`:
`handle_timer`, `handle_incoming`, `process_message`, `NtpSourceSnapshot::accept_synchronization`, `Reach`,
`ProtocolVersion`, together with the packet classification helpers of `ntp-proto/src/packet/mod.rs`
(`valid_server_response`, `check_uid_extensionfield`, `is_kiss*`, `is_upgrade`), `PollInterval`
(`inc`, `max`, `as_system_duration`, `as_byte`) of `time_types.rs` and `NtpSnapshot::from_used_sources`
/ `NtpManager::update_used_sources` of `system.rs`.  Import-free (core Lean + other models).

Deliberate interface: the model does NOT parse bytes.  An incoming datagram arrives as `Option Pkt`:
`none` = `NtpPacket::deserialize` (under the source's s2c cipher) returned an error, `some p` = the abstract
record of the parsed packet.  Everything the source decides on top of that record is modelled here.

Rust                                           Model
  last_poll_interval, remote_min_poll_interval   lastPoll, remoteMinPoll : Int   (i8 value)
  current_request_identifier                     pending : Option (ReqId × deadline ns)
  have_deny_rstr_response                        haveDeny
  reach: Reach(u8)                               reach : Nat  (< 256, invariant `WF`)
  tries: usize                                   tries : Nat  (saturation at usize::MAX not modelled)
  protocol_version                               proto : Proto
  nts: Option<Box<SourceNtsData>>                nts : Option Stash   (keys are inside the parser)
  bloom_filter.full_filter().map(contains own)   bloom : Option Bool  (transfer itself is C34's)
-/
import NtpVerif.Gen.Consts
import NtpVerif.Model.CookieStash

namespace NtpVerif.SourceSM
open NtpVerif.CookieStash

/-! ### protocol version -/

inductive Proto where
  | v4
  | upgrading (triesLeft : Nat)
  | upgraded
  | v5
deriving Repr, DecidableEq

/-- `ProtocolVersion::is_expected_incoming_version` (versions as numbers 3, 4, 5) -/
def Proto.expects : Proto → Nat → Bool
  | .v4, v => v == 4 || v == 3
  | .upgrading _, v => v == 4
  | .upgraded, v => v == 5
  | .v5, v => v == 5

/-! ### abstract packet record -/

/-- class of the kiss code (`ReferenceId::is_deny/is_rate/is_rstr/is_ntsn` on `kiss_code()`) -/
inductive Kiss where
  | deny | rate | rstr | ntsn | other
deriving Repr, DecidableEq

structure Pkt where
  version : Nat                 -- 3, 4 or 5
  mode : Nat                    -- `mode()` as association-mode number (server = 4)
  stratum : Nat
  poll : Int                    -- `poll()` as i8
  kiss : Kiss
  refid : Nat                   -- `reference_id()` (v5: `ReferenceId::NONE`)
  refTs : Nat                   -- v3/v4 reference timestamp (u64), 0 for v5
  origin : Nat                  -- v3/v4 origin timestamp, v5 client cookie (u64)
  uidAuth : List (List UInt8)   -- bodies of the UniqueIdentifier fields of the authenticated list
  uidEnc : List (List UInt8)    --   … of the encrypted list
  uidUntr : List (List UInt8)   --   … of the untrusted list
  authnak : Bool                -- v5 flag
  cookiesAuth : List Cookie     -- NtsCookie fields per list
  cookiesEnc : List Cookie
  cookiesUntr : List Cookie
  rrAuth : Bool                 -- a ReferenceIdResponse is present in the authenticated / untrusted list
  rrUntr : Bool
  leap : Nat
  precision : Int
  rootDelay : Int
  rootDisp : Int
  recvTs : Nat
  xmitTs : Nat
deriving Repr, DecidableEq

/-- `v5::UPGRADE_TIMESTAMP` = `NtpTimestamp::from_bits(*b"NTP5DRFT")` -/
def UPGRADE_TIMESTAMP : Nat := 0x4E54503544524654

/-- `PollInterval::NEVER` = `i8::MAX` -/
def POLL_NEVER : Int := 127

def Pkt.isKiss (p : Pkt) : Bool := p.stratum == 0

def Pkt.isKissDeny (p : Pkt) : Bool :=
  p.isKiss && (if p.version == 5 then p.poll == POLL_NEVER else p.kiss == .deny)

def Pkt.isKissRate (p : Pkt) (own : Int) : Bool :=
  p.isKiss && (if p.version == 5 then decide (p.poll > own) && p.poll != POLL_NEVER else p.kiss == .rate)

def Pkt.isKissRstr (p : Pkt) : Bool :=
  p.isKiss && (if p.version == 5 then false else p.kiss == .rstr)

def Pkt.isKissNtsn (p : Pkt) : Bool :=
  p.isKiss && (if p.version == 5 then p.authnak else p.kiss == .ntsn)

def Pkt.isUpgrade (p : Pkt) : Bool := p.version == 4 && p.refTs == UPGRADE_TIMESTAMP

structure ReqId where
  origin : Nat
  uid : Option (List UInt8)
deriving Repr, DecidableEq

/-- `check_uid_extensionfield` -/
def checkUid (fields : List (List UInt8)) (uid : List UInt8) : Option Bool :=
  if fields.any (fun pid => decide (pid.length < uid.length) || pid.take uid.length != uid) then some false
  else if fields.isEmpty then none
  else some true

/-- the uid part of `valid_server_response` -/
def uidOk (p : Pkt) (uid : List UInt8) (nts : Bool) : Bool :=
  let auth := checkUid p.uidAuth uid
  let encr := checkUid p.uidEnc uid
  let untr := checkUid p.uidUntr uid
  auth != some false && encr != some false
    && (untr != some false || (nts && !p.isKissNtsn))
    && (auth.isSome || encr.isSome || ((!nts || p.isKissNtsn) && untr.isSome))

/-- `NtpPacket::valid_server_response` -/
def Pkt.validResponse (p : Pkt) (id : ReqId) (nts : Bool) : Bool :=
  (match id.uid with
   | some uid => uidOk p uid nts
   | none => true) && p.origin == id.origin

/-! ### poll intervals -/

structure Limits where
  min : Int
  max : Int
deriving Repr, DecidableEq

/-- `PollInterval::inc` (`self.0 + 1` overflows at 127 in checked builds: `none`) -/
def pollInc (p : Int) (l : Limits) : Option Int :=
  if p ≥ 127 then none else some (min (p + 1) l.max)

/-- `PollInterval::as_byte` -/
def pollByte (p : Int) : Nat := (p % 256).toNat

/-- `PollInterval::as_system_duration` in nanoseconds -/
def sysDurationNs (p : Int) : Nat :=
  let shift : Nat := if p < 0 then 0 else if p > Gen.SYSDUR_MAX_SHIFT then Gen.SYSDUR_MAX_SHIFT else p.toNat
  2 ^ shift * 1000000000

/-- the observed `SetTimer` lies in `[1.01, 1.05] · interval` (integer arithmetic, hundredths) -/
def jitterOk (poll : Int) (tns : Nat) : Bool :=
  decide ((100 + Gen.JITTER_LO_HUNDREDTHS) * sysDurationNs poll ≤ 100 * tns) &&
  decide (100 * tns ≤ (100 + Gen.JITTER_HI_HUNDREDTHS) * sysDurationNs poll)

/-! ### reach register -/

/-- `Reach::poll` -/
def reachPoll (r : Nat) : Nat := (r * 2) % 256
/-- `Reach::received_packet` -/
def reachRecv (r : Nat) : Nat := if r % 2 = 0 then r + 1 else r
/-- `u8::trailing_zeros` (8 for zero) -/
def tz8 (r : Nat) : Nat :=
  if r % 2 = 1 then 0 else if r % 4 = 2 then 1 else if r % 8 = 4 then 2 else if r % 16 = 8 then 3
  else if r % 32 = 16 then 4 else if r % 64 = 32 then 5 else if r % 128 = 64 then 6
  else if r % 256 = 128 then 7 else 8

/-! ### configuration and state -/

structure Cfg where
  limits : Limits
  localStratum : Nat
  localIds : List Nat        -- `ReferenceId::from_ip` of every local address
  sourceId : Nat             -- `ReferenceId::from_ip(source_addr.ip())`
deriving Repr, DecidableEq

structure State where
  cfg : Cfg
  nts : Option Stash
  lastPoll : Int
  remoteMinPoll : Int
  pending : Option (ReqId × Nat)
  haveDeny : Bool
  stratum : Nat
  refid : Nat
  reach : Nat
  tries : Nat
  proto : Proto
  bloom : Option Bool
deriving Repr, DecidableEq

/-- `NtpSource::new` -/
def init (cfg : Cfg) (proto : Proto) (nts : Option Stash) : State :=
  { cfg := cfg, nts := nts, lastPoll := cfg.limits.min, remoteMinPoll := cfg.limits.min, pending := none,
    haveDeny := false, stratum := 16, refid := 0x584E4F4E, reach := 0, tries := 0, proto := proto,
    bloom := none }

/-! ### accept_synchronization -/

inductive AcceptErr where
  | stratum | loop | unreachable
deriving Repr, DecidableEq

/-- `NtpSourceSnapshot::accept_synchronization` on the snapshot fields it reads -/
def accept (stratum : Nat) (sourceId : Nat) (bloom : Option Bool) (reach : Nat)
    (localStratum : Nat) (localIds : List Nat) : Except AcceptErr Unit :=
  if stratum ≥ localStratum then .error .stratum
  else if stratum ≠ 1 ∧ localIds.any (· == sourceId) then .error .loop
  else if bloom = some true then .error .loop
  else if reach = 0 then .error .unreachable
  else .ok ()

def State.usable (s : State) : Bool :=
  match accept s.stratum s.cfg.sourceId s.bloom s.reach s.cfg.localStratum s.cfg.localIds with
  | .ok _ => true
  | .error _ => false

/-! ### request sizes (the serialiser's size arithmetic for the packets `handle_timer` builds) -/

def roundUp4 (n : Nat) : Nat := (n + 3) / 4 * 4

/-- wire size of an extension field with `body` payload bytes and the given minimum size -/
def efSize (body minimum : Nat) : Nat := roundUp4 (max (body + 4) minimum)

/-- NTS authenticator field with an empty plaintext: header 4 + lengths 4 + nonce 16 + tag 16 -/
def AUTH_EF : Nat := 40
/-- `ReferenceIdRequest` for the chunk size 16 the source uses: 4 + 16 -/
def REFID_REQ_EF : Nat := 20
/-- length of `DRAFT_VERSION` -/
def DRAFT_LEN : Nat := 23

/-- serialised size of the request: `nts = some (ℓ, n)` = cookie length and number of cookie+placeholder
    fields -/
def requestSize (v5 : Bool) (nts : Option (Nat × Nat)) : Nat :=
  match nts, v5 with
  | none, false => 48
  | none, true => 48 + efSize DRAFT_LEN 4 + REFID_REQ_EF
  | some (l, n), false => 48 + efSize 32 16 + n * efSize l 16 + AUTH_EF
  | some (l, n), true => 48 + efSize 32 16 + n * efSize l 16 + efSize DRAFT_LEN 16 + REFID_REQ_EF + AUTH_EF

/-! ### handle_timer -/

structure SendInfo where
  version : Nat          -- 4 or 5
  poll : Int             -- poll field of the request
  upgrade : Bool         -- carries the upgrade marker
  cookie : Option Cookie -- NTS: the cookie used
  nCookies : Nat         -- NTS: cookie + placeholder fields
  len : Nat              -- serialised length
  usable : Bool          -- flag given to the controller
  jitterOk : Bool        -- the observed SetTimer is within [1.01, 1.05]·interval(poll)
deriving Repr, DecidableEq

inductive TimerOut where
  | reset
  | demobilize
  | send (i : SendInfo)
  | panic                -- stash index out of bounds, or serialised request > buffer (`expect`)
deriving Repr, DecidableEq

/-- protocol version after the fallback test at the start of a poll -/
def timerProto (s : State) : Proto :=
  if s.proto = .upgraded ∧ tz8 s.reach ≥ Gen.AFTER_UPGRADE_TRIES_THRESHOLD then .v4 else s.proto

/-- state after `reach.poll()` / `tries += 1` (and the fallback) -/
def timerBase (s : State) : State :=
  { s with proto := timerProto s, reach := reachPoll s.reach, tries := s.tries + 1 }

/-- state after a request went out -/
def timerSent (s : State) (nts : Option Stash) (id : ReqId) (now : Nat) (poll : Int) : State :=
  { timerBase s with nts := nts, pending := some (id, now + Gen.POLL_WINDOW_SECS * 1000000000), lastPoll := poll }

def plainV5 (pr : Proto) : Bool := pr == .upgraded || pr == .v5
def ntsV5 (pr : Proto) : Bool := pr != .v4
def isUpgrading : Proto → Bool
  | .upgrading _ => true
  | _ => false

/-- `NtpSource::handle_timer`.  `origin`/`uid` are the random identifiers the implementation drew,
    `tns` the `SetTimer` duration it returned (both read back). -/
def handleTimer (s : State) (now : Nat) (desired : Int) (origin : Nat) (uid : List UInt8) (tns : Nat) :
    State × TimerOut :=
  if s.reach = 0 ∧ s.tries ≥ Gen.STARTUP_TRIES_THRESHOLD then
    (s, if s.haveDeny then .demobilize else .reset)
  else
    let pr := timerProto s
    let poll := max desired s.remoteMinPoll
    match s.nts with
    | none =>
      let s2 := timerSent s none ⟨origin, none⟩ now poll
      let len := requestSize (plainV5 pr) none
      if len > Gen.SOURCE_BUFFER_LEN then (s2, .panic) else
      (s2, .send { version := if plainV5 pr then 5 else 4, poll := poll, upgrade := isUpgrading pr,
                   cookie := none, nCookies := 0, len := len, usable := s2.usable,
                   jitterOk := jitterOk poll tns })
    | some st =>
      match timerCookies st with
      | (st', .reset) => ({ timerBase s with nts := some st' }, .reset)
      | (st', .panic) => ({ timerBase s with nts := some st' }, .panic)
      | (st', .send c n) =>
        let s2 := timerSent s (some st') ⟨origin, some uid⟩ now poll
        let len := requestSize (ntsV5 pr) (some (c.length, n))
        if len > Gen.SOURCE_BUFFER_LEN then (s2, .panic) else
        (s2, .send { version := if ntsV5 pr then 5 else 4, poll := poll, upgrade := false,
                     cookie := some c, nCookies := n, len := len, usable := s2.usable,
                     jitterOk := jitterOk poll tns })

/-! ### handle_incoming / process_message -/

structure Meas where
  sendTs : Nat      -- outgoing: sender_ts
  srvRecvTs : Nat   -- outgoing: receiver_ts
  srvXmitTs : Nat   -- incoming: sender_ts
  recvTs : Nat      -- incoming: receiver_ts
  rootDelay : Int
  rootDisp : Int
  leap : Nat
  precision : Int
deriving Repr, DecidableEq

inductive InOut where
  | ignore                                         -- no action, no measurement, no set_usable
  | demobilize
  | accepted (usable : Bool) (m : Meas) (stored : Nat)   -- two measurements (out/in) from `m`
  | panic
deriving Repr, DecidableEq

/-- store the cookies in order (`CookieStash::store` with its panic sites explicit) -/
def storeAll : Stash → List Cookie → Option Stash
  | st, [] => some st
  | st, c :: cs => match storeChecked st c with
    | none => none
    | some st' => storeAll st' cs

/-- protocol-version transition on a valid response -/
def protoOnValid (pr : Proto) (isUpgrade : Bool) : Proto :=
  match pr with
  | .upgrading n =>
    let n' := n - 1
    if isUpgrade then .upgraded else if n' = 0 then .v4 else .upgrading n'
  | .upgraded => .v5
  | x => x

/-- `NtpSource::process_message` -/
def processMessage (s : State) (p : Pkt) (sendTs recvTs : Nat) (bloomAfter : Option Bool) : State × InOut :=
  let remote := if p.version = 5 ∧ p.poll > s.remoteMinPoll then p.poll else s.remoteMinPoll
  let rr := if s.nts.isSome then p.rrAuth else p.rrUntr
  let bloom := if p.version = 5 ∧ rr then bloomAfter else s.bloom
  let s1 := { s with reach := reachRecv s.reach, haveDeny := false, pending := none,
                     stratum := p.stratum, refid := p.refid, remoteMinPoll := remote, bloom := bloom }
  let m : Meas := { sendTs := sendTs, srvRecvTs := p.recvTs, srvXmitTs := p.xmitTs, recvTs := recvTs,
                    rootDelay := p.rootDelay, rootDisp := p.rootDisp, leap := p.leap, precision := p.precision }
  match s.nts with
  | none => (s1, .accepted s1.usable m 0)
  | some st =>
    match storeAll st p.cookiesEnc with
    | none => (s1, .panic)
    | some st' => ({ s1 with nts := some st' }, .accepted s1.usable m p.cookiesEnc.length)

/-- `NtpSource::handle_incoming`.  `ntsnFirst = true` is the code with the proposed fix for F-C07 (the NTS-NAK
    arm is tested before RATE / DENY / RSTR); `false` is the order of the unchanged code. -/
def handleIncomingG (ntsnFirst : Bool) (s : State) (now : Nat) (parsed : Option Pkt) (sendTs recvTs : Nat)
    (bloomAfter : Option Bool) : State × InOut :=
  match parsed with
  | none => (s, .ignore)
  | some p =>
    if !s.proto.expects p.version then (s, .ignore) else
    match s.pending with
    | none => (s, .ignore)
    | some (id, deadline) =>
      if deadline < now then (s, .ignore) else
      if !p.validResponse id s.nts.isSome then (s, .ignore) else
      let s1 := { s with proto := protoOnValid s.proto p.isUpgrade }
      if ntsnFirst && p.isKissNtsn then (s1, .ignore)
      else if p.isKissRate s.lastPoll then
        match pollInc s.remoteMinPoll s.cfg.limits with
        | none => (s1, .panic)
        | some r => ({ s1 with remoteMinPoll := max r s.lastPoll }, .ignore)
      else if p.isKissRstr || p.isKissDeny then
        if s.nts.isSome then (s1, .demobilize) else ({ s1 with haveDeny := true }, .ignore)
      else if p.isKissNtsn then (s1, .ignore)
      else if p.isKiss then (s1, .ignore)
      else if p.stratum > Gen.MAX_STRATUM then (s1, .ignore)
      else if p.mode ≠ 4 then (s1, .ignore)
      else processMessage s1 p sendTs recvTs bloomAfter

/-- the model of the code as delivered (with the F-C07 fix) -/
def handleIncoming := handleIncomingG true

/-! ### operations and runs -/

inductive Op where
  | timer (now : Nat) (desired : Int) (origin : Nat) (uid : List UInt8) (tns : Nat)
  | incoming (now : Nat) (parsed : Option Pkt) (sendTs recvTs : Nat) (bloomAfter : Option Bool)
deriving Repr

inductive Obs where
  | timer (o : TimerOut)
  | incoming (o : InOut)
deriving Repr, DecidableEq

def step (s : State) : Op → State × Obs
  | .timer now d o u t => let r := handleTimer s now d o u t; (r.1, .timer r.2)
  | .incoming now p st rt b => let r := handleIncoming s now p st rt b; (r.1, .incoming r.2)

/-! ### the calls a step makes to its `SourceController`, in order

`process_message`: `controller.set_usable(usable)` — computed on the snapshot of the NEW state — and only then the two
`controller.handle_measurement` calls (outgoing, incoming); `handle_timer`: `set_usable` when a request goes out. -/

inductive Call where
  | setUsable (b : Bool)
  | measurement (m : Meas) (outgoing : Bool)
deriving Repr, DecidableEq

def InOut.calls : InOut → List Call
  | .accepted u m _ => [.setUsable u, .measurement m true, .measurement m false]
  | _ => []

def TimerOut.calls : TimerOut → List Call
  | .send i => [.setUsable i.usable]
  | _ => []

def Obs.calls : Obs → List Call
  | .timer o => o.calls
  | .incoming o => o.calls

/-- the order string the harness' recording controller logs: `u` = set_usable, `m` = handle_measurement -/
def callsOrd (cs : List Call) : String :=
  String.mk (cs.map fun c => match c with | .setUsable _ => 'u' | .measurement _ _ => 'm')

/-- run an op list; returns the final state and the (state-after, observation) trace -/
def run (s : State) : List Op → State × List (State × Obs)
  | [] => (s, [])
  | op :: ops =>
    let r := step s op
    let rest := run r.1 ops
    (rest.1, (r.1, r.2) :: rest.2)

/-- the states visited (after each op) -/
def states (s : State) (ops : List Op) : List State := (run s ops).2.map (·.1)
def observations (s : State) (ops : List Op) : List Obs := (run s ops).2.map (·.2)

/-! ### advertised snapshot (system.rs) -/

inductive SrcSnap where
  | ntp (stratum : Nat) (sourceId : Nat) (bloom : Option (List Nat))   -- bloom: set bits of the filter, if any
  | ext (stratum : Nat) (sourceId : Nat)
deriving Repr, DecidableEq

structure Advert where
  stratum : Nat
  refid : Nat
  bloomBits : List Nat     -- set bits (as a list; order = insertion order, duplicates allowed)
deriving Repr, DecidableEq

def REFID_NONE : Nat := 0x584E4F4E

def SrcSnap.stratum : SrcSnap → Nat
  | .ntp s _ _ => s
  | .ext s _ => s
def SrcSnap.sourceId : SrcSnap → Nat
  | .ntp _ i _ => i
  | .ext _ i => i
def SrcSnap.bits : SrcSnap → List Nat
  | .ntp _ _ (some b) => b
  | _ => []

/-- `u8::saturating_add(1)` -/
def satInc8 (n : Nat) : Nat := if n ≥ 255 then 255 else n + 1

/-- `NtpSnapshot::from_used_sources` (`ownBits` = the bits of the daemon's own server id) -/
def fromUsedSources (localStratum : Nat) (ownBits : List Nat) (srcs : List SrcSnap) : Advert :=
  let (st, rid) := match srcs with
    | [] => (localStratum, REFID_NONE)
    | f :: _ => (satInc8 f.stratum, f.sourceId)
  { stratum := st, refid := rid, bloomBits := srcs.flatMap SrcSnap.bits ++ ownBits }

/-- `NtpManager::update_used_sources`: each used source is `some snapshot` or `none` (an NTP source that has
    not reported yet); with any `none` the previous advertisement stays. -/
def updateUsedSources (prev : Advert) (localStratum : Nat) (ownBits : List Nat)
    (srcs : List (Option SrcSnap)) : Advert :=
  if srcs.all Option.isSome then fromUsedSources localStratum ownBits (srcs.filterMap id) else prev

end NtpVerif.SourceSM
