/-
Model of `ntp-proto/src/packet/v5/server_reference_id.rs` (`BloomFilter`, `ServerId` as ten 12-bit
indices, `RemoteBloomFilter`) and of `ReferenceIdRequest::{new, decode, to_response}`
(`packet/v5/extension_fields.rs`).  Import-free (core + generated constants).

Rust:                                          Model:
  BloomFilter([u8; 512])                         Filter := List UInt8         (length 512 by `Filter.WF`)
  U12::byte_and_mask                             byteAndMask idx = (idx / 8, 1 <<< (idx % 8))
  set_bit / is_set (array index panics)          setBit / isSet : Option …   (`none` = index out of bounds)
  add_id / contains_id / add / union             addId / containsId / add / union
  RemoteBloomFilter { filter, chunk_size,        Remote { filter, chunk, last, next, filled }
      last_requested, next_to_request, is_filled }
  next_request (`expect` on the request ctor)    nextRequest : Remote × ReqOut        (`.panic`)
  handle_response (slice index panics)           handleResponse : Remote × RespOut    (`.panic`)
  ReferenceIdRequest::new (u16 `+` overflow)     Request.new? : NewOut                (`.panic`)
  ReferenceIdRequest::to_response                toResponse : Option (List UInt8)
-/
import NtpVerif.Gen.Consts

namespace NtpVerif.Bloom

abbrev Filter := List UInt8

/-- `BloomFilter::new()` -/
def Filter.new : Filter := List.replicate Gen.BLOOM_BYTES 0

/-- `U12::byte_and_mask` -/
def byteAndMask (idx : Nat) : Nat × UInt8 := (idx / 8, (1 : UInt8) <<< (idx % 8).toUInt8)

/-- `BloomFilter::set_bit` (`self.0[idx] |= mask`) -/
def setBit (f : Filter) (idx : Nat) : Option Filter :=
  let (i, m) := byteAndMask idx
  match f[i]? with
  | none => none
  | some b => some (f.set i (b ||| m))

/-- `BloomFilter::is_set` (`self.0[idx] & mask != 0`) -/
def isSet (f : Filter) (idx : Nat) : Option Bool :=
  let (i, m) := byteAndMask idx
  match f[i]? with
  | none => none
  | some b => some ((b &&& m) != 0)

/-- a `ServerId`: its ten 12-bit indices -/
abbrev ServerId := List Nat

/-- `BloomFilter::add_id` -/
def addId (f : Filter) : ServerId → Option Filter
  | [] => some f
  | idx :: rest =>
    match setBit f idx with
    | none => none
    | some f' => addId f' rest

/-- `BloomFilter::contains_id` (`all`, short-circuiting) -/
def containsId (f : Filter) : ServerId → Option Bool
  | [] => some true
  | idx :: rest =>
    match isSet f idx with
    | none => none
    | some false => some false
    | some true => containsId f rest

/-- `BloomFilter::add`: byte-wise OR over the zipped arrays -/
def add (f g : Filter) : Filter := List.zipWith (· ||| ·) f g

/-- `BloomFilter::union` -/
def union (gs : List Filter) : Filter := gs.foldl add Filter.new

def popcount8 (b : UInt8) : Nat :=
  ((List.range 8).filter fun k => (b &&& ((1 : UInt8) <<< k.toUInt8)) != 0).length

/-- `BloomFilter::count_ones` (sum of `u16`; at most 4096, no overflow) -/
def countOnes (f : Filter) : Nat := (f.map popcount8).sum

/-! ### chunk requests -/

structure Request where
  payloadLen : Nat
  offset : Nat
deriving Repr, DecidableEq

inductive NewOut where
  | some (r : Request)
  | none
  | panic              -- `payload_len + offset` overflows `u16` (overflow checks on)
deriving Repr, DecidableEq

/-- `ReferenceIdRequest::new(payload_len: u16, offset: u16)` -/
def Request.new? (payloadLen offset : Nat) : NewOut :=
  if payloadLen % 4 ≠ 0 then .none
  else if payloadLen + offset ≥ 65536 then .panic
  else if payloadLen + offset > 512 then .none
  else .some ⟨payloadLen, offset⟩

/-- `ReferenceIdRequest::decode(msg)`: `payload_len = msg.len()`, offset = first two bytes big-endian;
    `none` = `ParsingError::IncorrectLength` (the `u16::try_from(len).expect` cannot fail for a field
    cut out of a ≤ 65535-byte datagram; lengths ≥ 65536 are not modelled) -/
def Request.decode? (msg : List UInt8) : Option Request :=
  match msg with
  | a :: b :: _ => some ⟨msg.length, a.toNat * 256 + b.toNat⟩
  | _ => none

/-- `ReferenceIdRequest::to_response`: `filter.as_bytes().get(offset..)?.get(..payload_len)?` -/
def toResponse (r : Request) (f : Filter) : Option (List UInt8) :=
  if r.offset ≤ f.length then
    let rest := f.drop r.offset
    if r.payloadLen ≤ rest.length then some (rest.take r.payloadLen) else none
  else none

/-! ### the client side: `RemoteBloomFilter` -/

abbrev Cookie := List UInt8

structure Remote where
  filter : Filter
  chunk : Nat
  last : Option (Nat × Cookie)
  next : Nat
  filled : Bool
deriving Repr, DecidableEq

/-- `RemoteBloomFilter::new(chunk_size)` -/
def Remote.new? (chunk : Nat) : Option Remote :=
  if chunk % 4 ≠ 0 then none
  else if chunk = 0 ∨ chunk > 512 then none
  else if 512 % chunk ≠ 0 then none
  else some { filter := Filter.new, chunk := chunk, last := none, next := 0, filled := false }

/-- `RemoteBloomFilter::full_filter` -/
def fullFilter (r : Remote) : Option Filter := if r.filled then some r.filter else none

inductive ReqOut where
  | req (r : Request)
  | panic               -- `.expect("We ensure that our request always falls within the BloomFilter")`
deriving Repr, DecidableEq

/-- `RemoteBloomFilter::next_request` -/
def nextRequest (r : Remote) (cookie : Cookie) : Remote × ReqOut :=
  let offset := r.next
  let r' := { r with last := some (offset, cookie) }
  match Request.new? r.chunk offset with
  | .some q => (r', .req q)
  | _ => (r', .panic)

inductive RespOut where
  | ok
  | notAwaitingResponse
  | mismatchedCookie
  | mismatchedLength
  | panic               -- slice index out of range in `self.filter.0[offset..][..chunk_size]`
deriving Repr, DecidableEq

/-- `advance_next_to_request` -/
def advance (r : Remote) : Remote :=
  let next := (r.next + r.chunk) % Gen.BLOOM_BYTES
  { r with next := next, filled := if next = 0 then true else r.filled }

/-- `RemoteBloomFilter::handle_response` -/
def handleResponse (r : Remote) (cookie : Cookie) (bytes : List UInt8) : Remote × RespOut :=
  match r.last with
  | none => (r, .notAwaitingResponse)
  | some (offset, expected) =>
    if cookie ≠ expected then (r, .mismatchedCookie)
    else if bytes.length ≠ r.chunk then (r, .mismatchedLength)
    else if offset > r.filter.length ∨ r.chunk > r.filter.length - offset then (r, .panic)
    else
      let filter := r.filter.take offset ++ bytes ++ r.filter.drop (offset + r.chunk)
      let r' := advance { r with filter := filter }
      ({ r' with last := none }, .ok)

end NtpVerif.Bloom
