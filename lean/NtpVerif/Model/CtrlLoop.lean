/-
Model of the clock controller's source bookkeeping and of the wrapper's message loop.  Import-free.

Rust (ntp-proto/src/algorithm/kalman/mod.rs, KalmanClockController):      Model:
  sources: HashMap<ClockId, (Option<SourceSnapshot>, bool)>                 Ctrl.srcs : List (Id × Entry) (unique keys)
  add_source / add_one_way_source   (`insert(id, (None, false))`)           addSource
  remove_source                     (`remove(&id)`)                         removeSource
  source_update                     (`get_mut(&id)` → `.1 = usable`)        sourceUpdate
  source_message                    (`get_mut(&id)` → `.0 = Some(msg)`;     sourceMessage
                                     then `update_clock`, else nothing)
  update_clock: candidates = usable entries that have a snapshot;           updateClock
     `select`; `combine` (None on empty selection ⇒ no clock call);
     [disable_ntp_algorithm if in_startup]; steering; error_estimate_update;
     status_update(leap) iff `vote_leap` = Some(leap); in_startup = false
Rust (ntp-proto/src/algorithm/mod.rs, TimeSyncControllerWrapper):
  the unbounded mpsc channel of (ClockId, WrapperMessage)                   W.queue (FIFO list)
  `run`'s dispatch of SourceMessage / UsabilityChange / Dropped             recv
  `add_source` (synchronous, under the controller's lock)                   Ev.add

Not modelled here (other clusters / read back from the implementation): the Kalman arithmetic.  The values
of the stored snapshots as `update_clock` sees them (after `progress_time` and earlier steering) are an
input of `sourceMessage` (`vals`), and so are the steering calls the implementation issued (`steer`);
which ids are candidates, whether anything may be issued at all, and the leap handling are the model's own.
The early return of `update_clock` when a stored snapshot is ahead of the message IS modelled (`ahead`), with
`state.time` tracked in whole seconds; the snapshot is stored BEFORE that test, as in the code.
-/
import NtpVerif.Model.Select

namespace NtpVerif.CtrlLoop
open NtpVerif.Select NtpVerif.Leap

abbrev Id := Nat

structure Entry where
  snap : Option Cand
  usable : Bool
  /-- `last_update` of the stored snapshot (identifies WHICH measurement of the source is held) -/
  stamp : Nat := 0
  /-- `state.time` of the stored snapshot, in whole seconds (steps shift it by less than a second in the
      harness's scripts; stamps are distinct integers, so comparisons with stamps are unaffected) -/
  time : Nat := 0
deriving Repr, DecidableEq

/-- calls on `NtpClock` -/
inductive Call where
  | disableNtpAlgorithm
  | steer (what : String)        -- step_clock / set_frequency, as read back (arithmetic is not this model's)
  | errorEstimateUpdate
  | statusUpdate (l : LI)
deriving Repr, DecidableEq

structure Ctrl where
  srcs : List (Id × Entry)
  leap : LI
  inStartup : Bool
deriving Repr

def Ctrl.init : Ctrl := { srcs := [], leap := .unknown, inStartup := true }

def lookup (m : List (Id × Entry)) (id : Id) : Option Entry :=
  match m with
  | [] => none
  | (k, e) :: r => if k = id then some e else lookup r id

/-- `HashMap::remove` -/
def remove (m : List (Id × Entry)) (id : Id) : List (Id × Entry) := m.filter (fun p => p.1 ≠ id)

/-- `HashMap::insert` (replaces an existing entry) -/
def insert (m : List (Id × Entry)) (id : Id) (e : Entry) : List (Id × Entry) := (id, e) :: remove m id

/-- `if let Some(state) = get_mut(&id) { f(state) }` -/
def modify (m : List (Id × Entry)) (id : Id) (f : Entry → Entry) : List (Id × Entry) :=
  m.map (fun p => (p.1, if p.1 = id then f p.2 else p.2))

def addSource (c : Ctrl) (id : Id) : Ctrl := { c with srcs := insert c.srcs id { snap := none, usable := false } }
def removeSource (c : Ctrl) (id : Id) : Ctrl := { c with srcs := remove c.srcs id }
def sourceUpdate (c : Ctrl) (id : Id) (usable : Bool) : Ctrl :=
  { c with srcs := modify c.srcs id (fun e => { e with usable := usable }) }

/-- the ids and snapshots passed to `select`: usable entries that have a snapshot -/
def candidateEntries (c : Ctrl) : List (Id × Cand) :=
  c.srcs.filterMap (fun p => if p.2.usable then p.2.snap.map (fun s => (p.1, s)) else none)

def candidates (c : Ctrl) : List Cand := (candidateEntries c).map (·.2)

/-- the values of the stored snapshots as the implementation has them now (read back); entries without a
    snapshot stay without one, entries the read-back does not mention keep their value -/
def refreshEntry (vals : List (Id × Cand)) (k : Id) (e : Entry) : Entry :=
  match e.snap, vals.lookup k with
  | some _, some v => { e with snap := some v }
  | _, _ => e

def refresh (m : List (Id × Entry)) (vals : List (Id × Cand)) : List (Id × Entry) :=
  m.map (fun p => (p.1, refreshEntry vals p.1 p.2))

inductive Result where
  | panic
  | ok (calls : List Call) (used : Option (List Id))
deriving Repr, DecidableEq

/-- `update_clock` (decision structure) -/
def updateClock (cfg : Cfg) (steer : List String) (c : Ctrl) : Ctrl × Result :=
  match select cfg (candidates c) with
  | .panic => (c, .panic)
  | .sel [] => (c, .ok [] none)                       -- "No consensus on current time"
  | .sel (s :: sel) =>
    match voteLeap ((s :: sel).map (·.leap)) with
    | .panic => (c, .panic)
    | v =>
      let pre := if c.inStartup then [Call.disableNtpAlgorithm] else []
      let st := steer.map Call.steer
      let (post, leap) := match v with
        | .some l => ([Call.statusUpdate l], l)
        | _ => ([], c.leap)
      ({ c with leap := leap, inStartup := false },
       .ok (pre ++ st ++ [Call.errorEstimateUpdate] ++ post) (some ((s :: sel).map (·.idx))))

/-- `source.0 = Some(message.inner)`: the message's snapshot replaces the stored one FIRST -/
def storeMsg (m : List (Id × Entry)) (id : Id) (snap : Cand) (t : Nat) : List (Id × Entry) :=
  modify m id (fun e => { e with snap := some snap, stamp := t, time := t })

/-- `update_clock`'s first test: some stored snapshot (usable or not) is ahead of the message's time
    (`time - sourcetime < 0`) -/
def ahead (m : List (Id × Entry)) (t : Nat) : Bool :=
  m.any (fun p => p.2.snap.isSome && decide (p.2.time > t))

def progressEntry (t : Nat) (_k : Id) (e : Entry) : Entry :=
  if e.snap.isSome then { e with time := t } else e

/-- `progress_time(time, …)` on every stored snapshot, as far as `state.time` is concerned -/
def progress (m : List (Id × Entry)) (t : Nat) : List (Id × Entry) :=
  m.map (fun p => (p.1, progressEntry t p.1 p.2))

/-- `source_message`: store the snapshot, then `update_clock(time)`, which returns early (no clock call, no
    `used_sources`) when another stored snapshot is ahead of `time` -/
def sourceMessage (cfg : Cfg) (c : Ctrl) (id : Id) (snap : Cand) (t : Nat) (vals : List (Id × Cand))
    (steer : List String) : Ctrl × Result :=
  match lookup c.srcs id with
  | none => (c, .ok [] none)                          -- "Update from non-existing source"
  | some _ =>
    let m := storeMsg c.srcs id snap t
    if ahead m t then ({ c with srcs := m }, .ok [] none)
    else updateClock cfg steer { c with srcs := refresh (progress m t) vals }

/-! ### the wrapper's channel and loop -/

inductive WMsg where
  | source (snap : Cand) (t : Nat) (vals : List (Id × Cand)) (steer : List String)
  | usability (b : Bool)
  | dropped
deriving Repr

structure W where
  queue : List (Id × WMsg)
  ctrl : Ctrl
deriving Repr

def W.init : W := { queue := [], ctrl := Ctrl.init }

/-- what the controller does with one dequeued message -/
def dispatch (cfg : Cfg) (c : Ctrl) (id : Id) : WMsg → Ctrl × Result
  | .source snap t vals steer => sourceMessage cfg c id snap t vals steer
  | .usability b => (sourceUpdate c id b, .ok [] none)
  | .dropped => (removeSource c id, .ok [] none)

inductive Ev where
  | add (id : Id)                 -- `TimeSyncControllerWrapper::add_source` (synchronous)
  | send (id : Id) (m : WMsg)     -- a source task puts a message on the channel
  | recv                          -- the loop takes the next message off the channel and handles it
deriving Repr

/-- one event; the result is what the controller did (`none` when nothing was handled) -/
def step (cfg : Cfg) (w : W) : Ev → W × Option Result
  | .add id => ({ w with ctrl := addSource w.ctrl id }, none)
  | .send id m => ({ w with queue := w.queue ++ [(id, m)] }, none)
  | .recv =>
    match w.queue with
    | [] => (w, none)
    | (id, m) :: q =>
      let (c, r) := dispatch cfg w.ctrl id m
      ({ queue := q, ctrl := c }, some r)

def run (cfg : Cfg) (w : W) : List Ev → W × List (Option Result)
  | [] => (w, [])
  | e :: es =>
    let (w1, r) := step cfg w e
    let (w2, rs) := run cfg w1 es
    (w2, r :: rs)

end NtpVerif.CtrlLoop
