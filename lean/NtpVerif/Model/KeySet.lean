/-
Model of `ntp-proto/src/keyset.rs` (`KeySet`, `KeySetProvider`) and of the load-or-fresh start of
`ntpd/src/daemon/nts_key_provider.rs::spawn`.  Import-free.

The AEAD (`AesSivCmac512`, ntp-proto/src/packet/crypto.rs) is NOT modelled: it is an *ideal AEAD with an
oracle table* (DESIGN §2.6).  An encryption appends an entry `(key, nonce, ct) ↦ pt` to the table (the
nonce and the ciphertext bytes are whatever the real cipher produced; the harness reads them back); a
decryption is a lookup, `none` when the triple was never produced.  Cookies use an empty AAD.

Rust:                                              Model:
  KeySet { keys, id_offset: u32, primary: u32 }      KeySet κ  (κ = type of keys: opaque ids in the
                                                       theorems about rotation, 64-byte strings for
                                                       load/store and in the driver)
  KeySetProvider { current, history }                Provider κ
  KeySetProvider::new(history)                       Provider.new history k      (k = the random key)
  KeySetProvider::rotate(&mut self)                  Provider.rotate p k         (k = the random key)
                                                     Provider.rotateChecked      (`len as u32 - 1` underflow)
  KeySet::encode_cookie(&self, cookie)               encode ks c nonce ct : Option (Bytes × Enc κ)
                                                       (`none` = panic: index out of bounds, debug_assert)
  KeySet::decode_cookie(&self, bytes)                decode t ks bytes : Option Cookie (`none` = DecryptError)
  KeySetProvider::load(reader, history)              load bytes history : LoadOut  (ok / err kind / panic)
  KeySetProvider::store(&self, writer)               store p now : Option Bytes  (`none` = `.expect` on a
                                                       clock before 1970)
  spawn(): load, `unwrap_or_else` fresh keys         startup file history fresh;  startupAt (path kinds)
  spawn(): store attempt at key-storage-path          storeOutcome, modeAfter (missing parent directory or a
                                                       directory at the path: warn only, nothing is created)

`load` models the code WITH the two proposed fixes (fixes/C27-*.patch); `loadUnfixed` is the code as found
(`primary > len`, `SystemTime + Duration` overflow panic) and is only used for the counterexample theorems.
-/
namespace NtpVerif.KeySet

abbrev Bytes := List UInt8

/-- 2^32 -/
def M32 : Nat := 4294967296

/-- big-endian value of a byte string (`u16/u32/u64::from_be_bytes`) -/
def beNat (l : Bytes) : Nat := l.foldl (fun acc b => acc * 256 + b.toNat) 0

/-- `(n as u16).to_be_bytes()` -/
def be16 (n : Nat) : Bytes := [UInt8.ofNat (n / 256 % 256), UInt8.ofNat (n % 256)]

/-- `(n as u32).to_be_bytes()` -/
def be32 (n : Nat) : Bytes :=
  [UInt8.ofNat (n / 16777216 % 256), UInt8.ofNat (n / 65536 % 256), UInt8.ofNat (n / 256 % 256),
   UInt8.ofNat (n % 256)]

/-- `(n as u64).to_be_bytes()` -/
def be64 (n : Nat) : Bytes := be32 (n / 4294967296 % 4294967296) ++ be32 (n % 4294967296)

structure KeySet (κ : Type) where
  keys : List κ
  idOffset : Nat     -- u32
  primary : Nat      -- u32
deriving Repr, DecidableEq

structure Provider (κ : Type) where
  current : KeySet κ
  history : Nat      -- usize
deriving Repr, DecidableEq

/-- `KeySetProvider::new(history)`; `k` is the key `AesSivCmac512::new_random()` returned -/
def Provider.new {κ : Type} (history : Nat) (k : κ) : Provider κ :=
  { current := { keys := [k], idOffset := 0, primary := 0 }, history := history }

/-- `KeySetProvider::rotate`; `next` is the key `new_random()` returned.
    `keys[len.saturating_sub(history)..len]` then push; `id_offset.wrapping_add(dropped as u32)`;
    `primary = keys.len() as u32 - 1`. -/
def Provider.rotate {κ : Type} (p : Provider κ) (next : κ) : Provider κ :=
  let d := p.current.keys.length - p.history
  let keys := p.current.keys.drop d ++ [next]
  { current := { keys := keys
                 idOffset := (p.current.idOffset + d % M32) % M32
                 primary := keys.length % M32 - 1 }
    history := p.history }

/-- `rotate` with its panic site explicit: `keys.len() as u32 - 1` underflows (overflow checks are on
    in the test profile) when the new key count is a multiple of 2^32. -/
def Provider.rotateChecked {κ : Type} (p : Provider κ) (next : κ) : Option (Provider κ) :=
  if (p.rotate next).current.keys.length % M32 = 0 then none else some (p.rotate next)

/-- what a server cookie protects: `DecodedServerCookie { algorithm, s2c, c2s }` -/
structure Cookie where
  alg : Nat          -- `u16::from(algorithm)`: 15 = AES-SIV-CMAC-256, 17 = AES-SIV-CMAC-512
  s2c : Bytes
  c2s : Bytes
deriving Repr, DecidableEq

/-- `DecodedServerCookie::plaintext` -/
def Cookie.plaintext (c : Cookie) : Bytes := be16 c.alg ++ c.s2c ++ c.c2s

/-- a cookie `decode_cookie` can return: the key widths match the algorithm -/
def Cookie.WF (c : Cookie) : Prop :=
  (c.alg = 15 ∧ c.s2c.length = 32 ∧ c.c2s.length = 32) ∨
  (c.alg = 17 ∧ c.s2c.length = 64 ∧ c.c2s.length = 64)

instance (c : Cookie) : Decidable c.WF := by unfold Cookie.WF; infer_instance

/-! ### ideal AEAD -/

/-- one encryption that happened: under `key`, with the (random) `nonce`, producing `ct` from `pt`
    (associated data is empty for cookies) -/
structure Enc (κ : Type) where
  key : κ
  nonce : Bytes
  ct : Bytes
  pt : Bytes
deriving Repr, DecidableEq

/-- the oracle table: every encryption of the history, newest first -/
abbrev Table (κ : Type) := List (Enc κ)

/-- ideal decryption: succeeds exactly on triples some encryption produced -/
def decrypt {κ : Type} [DecidableEq κ] (t : Table κ) (k : κ) (nonce ct : Bytes) : Option Bytes :=
  (t.find? fun e => decide (e.key = k ∧ e.nonce = nonce ∧ e.ct = ct)).map (·.pt)

/-- Idealisation of "random 16-byte nonce, fresh ciphertext token": an entry of the table is determined by
    its nonce, and by its ciphertext. -/
def Fresh {κ : Type} (t : Table κ) : Prop :=
  ∀ e₁ ∈ t, ∀ e₂ ∈ t, (e₁.nonce = e₂.nonce ∨ e₁.ct = e₂.ct) → e₁ = e₂

/-! ### cookies: `id(4) len(2) nonce(16) ciphertext(len)` -/

/-- `KeySet::encode_cookie`.  `nonce`, `ct`: what `keys[primary].encrypt(plaintext, aad = [])` produced.
    `none` = panic: `self.keys[self.primary as usize]` out of bounds, or one of the `debug_assert_eq!`s
    (`nonce_length == 16`, `plaintext_length + 16 == ciphertext_length`).
    Returns the cookie bytes and the table entry the encryption adds. -/
def encode {κ : Type} (ks : KeySet κ) (c : Cookie) (nonce ct : Bytes) : Option (Bytes × Enc κ) :=
  match ks.keys[ks.primary]? with
  | none => none
  | some k =>
    let pt := c.plaintext
    if nonce.length ≠ 16 ∨ ct.length ≠ pt.length + 16 then none
    else some (be32 ((ks.primary + ks.idOffset) % M32) ++ be16 ct.length ++ nonce ++ ct,
               { key := k, nonce := nonce, ct := ct, pt := pt })

/-- the plaintext → `DecodedServerCookie` part of `decode_cookie` -/
def parsePlain (pt : Bytes) : Option Cookie :=
  match pt with
  | b0 :: b1 :: kb =>
    let alg := b0.toNat * 256 + b1.toNat
    if alg = 15 then
      if kb.length ≠ 64 then none else some { alg := 15, s2c := kb.take 32, c2s := kb.drop 32 }
    else if alg = 17 then
      if kb.length ≠ 128 then none else some { alg := 17, s2c := kb.take 64, c2s := kb.drop 64 }
    else none
  | _ => none

/-- fields of a cookie byte string -/
def cookieId (b : Bytes) : Nat := beNat (b.take 4)
def cookieLen (b : Bytes) : Nat := beNat ((b.drop 4).take 2)
def cookieNonce (b : Bytes) : Bytes := (b.drop 6).take 16
def cookieCt (b : Bytes) : Bytes := (b.drop 22).take (cookieLen b)

/-- index into `keys` a cookie id refers to: `id.wrapping_sub(id_offset) as usize` -/
def keyIndex {κ : Type} (ks : KeySet κ) (b : Bytes) : Nat := (cookieId b + M32 - ks.idOffset % M32) % M32

/-- `KeySet::decode_cookie` (`none` = `Err(DecryptError)`).  Every slice/`unwrap` in the Rust function is
    guarded by the length tests reproduced here, so there is no panic outcome. -/
def decode {κ : Type} [DecidableEq κ] (t : Table κ) (ks : KeySet κ) (b : Bytes) : Option Cookie :=
  if b.length < 22 then none
  else
    match ks.keys[keyIndex ks b]? with
    | none => none
    | some key =>
      if (b.drop 22).length < cookieLen b then none
      else
        match decrypt t key (cookieNonce b) (cookieCt b) with
        | none => none
        | some pt => parsePlain pt

/-! ### persistence (keys are 64-byte strings) -/

inductive IoErr where
  | eof      -- `read_exact`: `UnexpectedEof`
  | other    -- `ErrorKind::Other`
deriving Repr, DecidableEq

inductive LoadOut where
  | ok (p : Provider Bytes) (time : Nat)
  | err (e : IoErr)
  | panic
deriving Repr, DecidableEq

/-- `for _ in 0..len { reader.read_exact(&mut buf[0..64])?; keys.push(..) }` -/
def readKeys : Nat → Bytes → Option (List Bytes)
  | 0, _ => some []
  | n + 1, b =>
    if b.length < 64 then none
    else (readKeys n (b.drop 64)).map (b.take 64 :: ·)

/-- `KeySetProvider::load` — with the proposed fixes: a time field that does not fit a `SystemTime`
    (`≥ 2^63` seconds) and `primary ≥ len` are rejected with `ErrorKind::Other`. -/
def load (b : Bytes) (history : Nat) : LoadOut :=
  if b.length < 20 then .err .eof
  else
    let time := beNat (b.take 8)
    let idOffset := beNat ((b.drop 8).take 4)
    let primary := beNat ((b.drop 12).take 4)
    let len := beNat ((b.drop 16).take 4)
    if time ≥ 9223372036854775808 then .err .other
    else if primary ≥ len then .err .other
    else
      match readKeys len (b.drop 20) with
      | none => .err .eof
      | some keys =>
        .ok { current := { keys := keys, idOffset := idOffset, primary := primary }, history := history } time

/-- `KeySetProvider::load` as found: `UNIX_EPOCH + Duration::from_secs(t)` panics for `t ≥ 2^63`
    ("overflow when adding duration to instant"), and only `primary > len` is rejected. -/
def loadUnfixed (b : Bytes) (history : Nat) : LoadOut :=
  if b.length < 20 then .err .eof
  else
    let time := beNat (b.take 8)
    let idOffset := beNat ((b.drop 8).take 4)
    let primary := beNat ((b.drop 12).take 4)
    let len := beNat ((b.drop 16).take 4)
    if time ≥ 9223372036854775808 then .panic
    else if primary > len then .err .other
    else
      match readKeys len (b.drop 20) with
      | none => .err .eof
      | some keys =>
        .ok { current := { keys := keys, idOffset := idOffset, primary := primary }, history := history } time

/-- `KeySetProvider::store`: the bytes handed to the writer, in order.  `now` = seconds since 1970 of the
    system clock; `none` = the `.expect("Could not get current time")` panic. -/
def store (p : Provider Bytes) (now : Int) : Option Bytes :=
  if now < 0 then none
  else some (be64 now.toNat ++ be32 p.current.idOffset ++ be32 p.current.primary ++
             be32 p.current.keys.length ++ p.current.keys.flatten)

/-- what a provider must satisfy for `store` to describe it faithfully (every `KeySetProvider` does:
    keys are `AesSivCmac512` = 64 bytes, the two `u32`s are `u32`s) -/
def Provider.Storable (p : Provider Bytes) : Prop :=
  (∀ k ∈ p.current.keys, k.length = 64) ∧ p.current.keys.length < M32 ∧
  p.current.idOffset < M32 ∧ p.current.primary < M32

/-- start of `nts_key_provider::spawn` with a storage path: the provider it continues with.
    `file = none`: the file cannot be opened.  `abort`: the loading closure panicked (the workspace builds
    with `panic = "abort"`). -/
inductive Start where
  | loaded (p : Provider Bytes) (time : Nat)
  | fresh (p : Provider Bytes)
  | abort
deriving Repr, DecidableEq

def startup (file : Option Bytes) (history : Nat) (freshKey : Bytes) : Start :=
  match file with
  | none => .fresh (Provider.new history freshKey)
  | some b =>
    match load b history with
    | .ok p t => .loaded p t
    | .err _ => .fresh (Provider.new history freshKey)
    | .panic => .abort

/-! ### where the key file lives (`key-storage-path`) -/

/-- what is at the configured path when the daemon starts -/
inductive PathKind where
  | missingParent   -- the parent directory does not exist (any number of levels)
  | directory       -- the path names an existing directory
  | absent          -- the parent directory exists, there is no file
  | file            -- an existing regular file (any mode; the daemon only warns about o+rwx)
deriving Repr, DecidableEq

/-- outcome of one store attempt of `spawn`'s loop:
    `OpenOptions::new().create(true).truncate(true).write(true).mode(0o600).open(path)` then `store`. -/
inductive StoreFs where
  | failed        -- `open` fails (`NotFound` for a missing parent, `IsADirectory`): the error is only logged
                  -- (`warn!`), NO file and NO directory is created, the daemon keeps running with its keys in
                  -- memory and tries again after the next rotation
  | created       -- a new file, created with mode 0600 (the umask can only clear bits)
  | overwritten   -- an existing file, truncated and rewritten; its mode is left as it was
deriving Repr, DecidableEq

def storeOutcome : PathKind → StoreFs
  | .missingParent => .failed
  | .directory => .failed
  | .absent => .created
  | .file => .overwritten

/-- start of `spawn` for a path of the given kind: only an existing regular file gives `load` any bytes
    (`File::open` fails for a missing file/parent; a directory opens but `read_exact` fails) -/
def startupAt (k : PathKind) (content : Bytes) (history : Nat) (freshKey : Bytes) : Start :=
  startup (if k = .file then some content else none) history freshKey

/-- mode bits (octal digits as a number, e.g. 600) of the key file after the first store attempt, given
    the mode an existing file had: a created file is rw-------, an existing one keeps its mode -/
def modeAfter (k : PathKind) (existingMode : Nat) : Option Nat :=
  match storeOutcome k with
  | .failed => none
  | .created => some 600
  | .overwritten => some existingMode

end NtpVerif.KeySet
