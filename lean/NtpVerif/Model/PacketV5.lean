/-
Model of the NTPv5 header codec, `ntp-proto/src/packet/v5/mod.rs` (`NtpHeaderV5::{deserialize, serialize,
fix_leap_indicator}`, `NtpMode`, `NtpTimescale`, `NtpFlags`), and of the header-level helpers shared with
v3/v4 (`NtpLeapIndicator`, `NtpDuration::{from,to}_bits_{short,time32}`).  Import-free.
-/
import NtpVerif.Model.ExtField

namespace NtpVerif.Wire

inductive Leap where
  | noWarning
  | leap61
  | leap59
  | unknown
  | unsynchronized
deriving Repr, DecidableEq

/-- `NtpLeapIndicator::from_bits` (`_ => unreachable!()` explicit) -/
def Leap.fromBits (b : Nat) : R Leap :=
  match b with
  | 0 => .ok .noWarning
  | 1 => .ok .leap61
  | 2 => .ok .leap59
  | 3 => .ok .unsynchronized
  | _ => rpanic

def Leap.toBits : Leap → Nat
  | .noWarning => 0
  | .leap61 => 1
  | .leap59 => 2
  | .unknown => 3
  | .unsynchronized => 3

def Leap.index : Leap → Nat
  | .noWarning => 0
  | .leap61 => 1
  | .leap59 => 2
  | .unknown => 3
  | .unsynchronized => 4

/-- `NtpDuration::from_bits_short` : `(u32 as i64) << 16` -/
def durFromShort (bs : Bytes) : Int := (beNat bs : Int) * 65536

/-- `NtpDuration::to_bits_short`: `assert!(d >= 0)`, `debug_assert!(d <= 0x0000FFFFFFFFFFFF)` -/
def durToShort (d : Int) : S Bytes :=
  if d < 0 then .error .panic
  else if d > 0x0000FFFFFFFFFFFF then .error .panic
  else .ok (toBE 4 ((d.toNat / 65536) % 4294967296))

/-- `NtpDuration::from_bits_time32` : `(u32 as i64) << 4` -/
def durFromTime32 (bs : Bytes) : Int := (beNat bs : Int) * 16

/-- `NtpDuration::to_bits_time32`: `assert!(d >= 0)`; saturates at `u32::MAX` -/
def durToTime32 (d : Int) : S Bytes :=
  if d < 0 then .error .panic
  else .ok (toBE 4 (if d.toNat / 16 > 4294967295 then 4294967295 else d.toNat / 16))

structure Flags where
  synchronized : Bool
  interleaved : Bool
  authnak : Bool
deriving Repr, DecidableEq

structure HeaderV5 where
  leap : Leap
  mode : Nat            -- 3 = Request, 4 = Response
  stratum : Nat
  poll : Nat            -- the byte (`PollInterval::as_byte`)
  precision : Nat       -- the byte
  timescale : Nat       -- 0..3
  era : Nat
  flags : Flags
  rootDelay : Int
  rootDispersion : Int
  serverCookie : Bytes
  clientCookie : Bytes
  receiveTs : Nat
  transmitTs : Nat
deriving Repr, DecidableEq

def HeaderV5.fixLeap (h : HeaderV5) : HeaderV5 :=
  if h.flags.synchronized ∧ h.leap = .unsynchronized then { h with leap := .unknown }
  else if ¬ h.flags.synchronized then { h with leap := .unsynchronized }
  else h

/-- `NtpHeaderV5::deserialize` -/
def HeaderV5.deserialize (data : Bytes) : R (HeaderV5 × Nat) :=
  if data.length < Gen.HEADER_V5_WIRE_LENGTH then perr .incorrectLength
  else do
    let b0 ← idxP data 0
    let version := (b0.toNat / 8) % 8
    if version ≠ 5 then perr (.invalidVersion version)
    else
      let leap ← Leap.fromBits (b0.toNat / 64)
      let mode := b0.toNat % 8
      if mode ≠ 3 ∧ mode ≠ 4 then perr .v5MalformedMode
      else
        let stratum ← idxP data 1
        let poll ← idxP data 2
        let precision ← idxP data 3
        let rd ← sliceP data 4 8
        let rdisp ← sliceP data 8 12
        let ts ← idxP data 12
        if ts.toNat > 3 then perr .v5MalformedTimescale
        else
          let era ← idxP data 13
          let fl ← sliceP data 14 16
          let f0 ← idxP fl 0
          let f1 ← idxP fl 1
          if f0.toNat ≠ 0 ∨ f1.toNat / 8 ≠ 0 then perr .v5InvalidFlags
          else
            let sc ← sliceP data 16 24
            let cc ← sliceP data 24 32
            let rts ← sliceP data 32 40
            let tts ← sliceP data 40 48
            let h : HeaderV5 :=
              { leap := leap, mode := mode, stratum := stratum.toNat, poll := poll.toNat,
                precision := precision.toNat, timescale := ts.toNat, era := era.toNat,
                flags := { synchronized := f1.toNat % 2 = 1, interleaved := (f1.toNat / 2) % 2 = 1,
                           authnak := (f1.toNat / 4) % 2 = 1 },
                rootDelay := durFromTime32 rd, rootDispersion := durFromTime32 rdisp,
                serverCookie := sc, clientCookie := cc, receiveTs := beNat rts, transmitTs := beNat tts }
            pure (h.fixLeap, Gen.HEADER_V5_WIRE_LENGTH)

def Flags.bits (f : Flags) : Nat :=
  (if f.synchronized then 1 else 0) + (if f.interleaved then 2 else 0) + (if f.authnak then 4 else 0)

/-- `NtpHeaderV5::serialize` -/
def HeaderV5.serialize (h : HeaderV5) : S Bytes := do
  let rd ← durToTime32 h.rootDelay
  let rdisp ← durToTime32 h.rootDispersion
  pure ([UInt8.ofNat (h.leap.toBits * 64 + 5 * 8 + h.mode)] ++
        [UInt8.ofNat h.stratum, UInt8.ofNat h.poll, UInt8.ofNat h.precision] ++ rd ++ rdisp ++
        [UInt8.ofNat h.timescale] ++ [UInt8.ofNat h.era] ++ [0, UInt8.ofNat h.flags.bits] ++
        h.serverCookie ++ h.clientCookie ++ toBE 8 h.receiveTs ++ toBE 8 h.transmitTs)

end NtpVerif.Wire
