/-
Model of `vote_leap` (`ntp-proto/src/algorithm/kalman/combiner.rs`).  Import-free.

Rust:                                               Model:
  NtpLeapIndicator                                    LI
  fn vote_leap(selection: &[SourceSnapshot])          voteLeap (sel : List LI) : Vote
     -> Option<NtpLeapIndicator>                        (the list of the snapshots' `leap_indicator`s, in order)
  four `usize` counters, `panic!` on Unsynchronized   tally : List LI → Tally → Option Tally  (`none` = the panic!)
  `selection.len() - votes_unknown`                   checked subtraction (`Vote.panic` on underflow)
-/
namespace NtpVerif.Leap

/-- `NtpLeapIndicator` -/
inductive LI where
  | noWarning | leap61 | leap59 | unknown | unsync
deriving DecidableEq, Repr, Inhabited

/-- `NtpLeapIndicator::is_synchronized` : `!matches!(self, Unsynchronized)` -/
def LI.isSynchronized : LI → Bool
  | .unsync => false
  | _ => true

structure Tally where
  v59 : Nat
  v61 : Nat
  vnone : Nat
  vunk : Nat
deriving DecidableEq, Repr

/-- the `for snapshot in selection { match snapshot.leap_indicator { … } }` loop; `none` is the
    `panic!("Unsynchronized source selected for synchronization!")` arm -/
def tally : List LI → Tally → Option Tally
  | [], t => some t
  | .noWarning :: r, t => tally r { t with vnone := t.vnone + 1 }
  | .leap61 :: r, t => tally r { t with v61 := t.v61 + 1 }
  | .leap59 :: r, t => tally r { t with v59 := t.v59 + 1 }
  | .unknown :: r, t => tally r { t with vunk := t.vunk + 1 }
  | .unsync :: _, _ => none

inductive Vote where
  | panic
  | none
  | some (l : LI)
deriving DecidableEq, Repr

/-- `vote_leap` -/
def voteLeap (sel : List LI) : Vote :=
  match tally sel ⟨0, 0, 0, 0⟩ with
  | Option.none => .panic
  | Option.some t =>
    -- `selection.len() - votes_unknown` is a `usize` subtraction: overflow check in test builds
    if t.vunk > sel.length then .panic else
    let d := sel.length - t.vunk
    if t.vnone * 2 > d then .some .noWarning
    else if t.v59 * 2 > d then .some .leap59
    else if t.v61 * 2 > d then .some .leap61
    else .none

/-- the `leap_indicator` field of `combine`'s result: `selection.first().map(|_| … vote_leap(selection))`;
    `none` = `combine` returned `None` (empty selection) -/
def combineLeap (sel : List LI) : Option Vote :=
  match sel with
  | [] => none
  | _ :: _ => some (voteLeap sel)

end NtpVerif.Leap
