/-
Model of the observation-socket framing (ntpd/src/daemon/sockets.rs `write_json` / `read_json`), C38.
Import-free.  A message is an 8-byte big-endian length followed by the JSON payload.  JSON (serde_json) is
external: the payload is an opaque byte string and its validity an uninterpreted predicate.
-/
import NtpVerif.Gen.Consts

namespace NtpVerif.Framing

/-- `MAX_JSON_MESSAGE_SIZE` = `1 << 20` (exponent regenerated from the source) -/
def MAX_SIZE : Nat := 2 ^ Gen.MAX_JSON_MESSAGE_SIZE_LOG2

/-- `u64::to_be_bytes` (`write_u64`) -/
def be64 (n : Nat) : List UInt8 :=
  [UInt8.ofNat (n / 2^56 % 256), UInt8.ofNat (n / 2^48 % 256), UInt8.ofNat (n / 2^40 % 256),
   UInt8.ofNat (n / 2^32 % 256), UInt8.ofNat (n / 2^24 % 256), UInt8.ofNat (n / 2^16 % 256),
   UInt8.ofNat (n / 2^8 % 256), UInt8.ofNat (n % 256)]

/-- big-endian value of a byte list (`read_u64` on 8 bytes) -/
def ofBe (bs : List UInt8) : Nat := bs.foldl (fun acc b => acc * 256 + b.toNat) 0

/-- `write_json`: the bytes put on the stream for a serialised payload -/
def writeFrame (payload : List UInt8) : List UInt8 := be64 payload.length ++ payload

inductive ReadErr where
  | eof         -- stream ended inside the length or the payload (`UnexpectedEof`)
  | tooLarge    -- "message too large"
  | json        -- serde_json rejected the payload
deriving Repr, DecidableEq

structure ReadOut where
  result : Except ReadErr (List UInt8)   -- the payload handed to (and accepted by) the JSON parser
  consumed : Nat                          -- bytes taken from the stream
  bufLen : Nat                            -- length of the caller's buffer afterwards
deriving Repr

/-- `read_json` on the bytes available on a stream (`validJson`: does serde_json accept the payload as a `T`) -/
def readFrame (validJson : List UInt8 → Bool) (stream : List UInt8) : ReadOut :=
  if stream.length < 8 then ⟨.error .eof, stream.length, 0⟩ else
  let size := ofBe (stream.take 8)
  if size > MAX_SIZE then ⟨.error .tooLarge, 8, 0⟩ else
  -- `usize::try_from(u64)` cannot fail on the 64-bit targets modelled; `buffer.resize(size, 0)`
  let rest := stream.drop 8
  if rest.length < size then ⟨.error .eof, stream.length, size⟩ else
  let payload := rest.take size
  if validJson payload then ⟨.ok payload, 8 + size, size⟩ else ⟨.error .json, 8 + size, size⟩

end NtpVerif.Framing
