/-
Model of `TimestampedCache` (`ntp-proto/src/server.rs`) and of the position of the rate limiter in
`Server::intended_action`.  Import-free.

Rust:                                              Model:
  elements : Vec<Option<(T, Instant)>>               slots : List (Option (α × Nat))   (Instant = ns)
  randomstate.hash_one(item) as usize                `h : Nat`, an ARBITRARY number supplied per call
  index = hash % elements.len()                      `h % slots.length`
  is_allowed(&mut self, item, timestamp, cutoff)     isAllowed c h a t cutoff : Cache × Out
  timestamp.duration_since(old)  (saturating)        `t - t0` on `Nat` (truncated subtraction)
  elements[index]  (index panic)                     `Out.panic` (shown unreachable: `never_panics`)
  intended_action: deny list, allow list, cache      intended c inDeny inAllow h a t cutoff
-/
namespace NtpVerif.RateCache

structure Cache (α : Type) where
  slots : List (Option (α × Nat))
deriving Repr

/-- `TimestampedCache::new(length)` -/
def Cache.new {α : Type} (n : Nat) : Cache α := ⟨List.replicate n none⟩

inductive Out where
  | allowed
  | limited
  | panic          -- `self.elements[index]` out of bounds
deriving Repr, DecidableEq

/-- `TimestampedCache::is_allowed`; `h` is the value of `randomstate.hash_one(&item) as usize`. -/
def isAllowed {α : Type} [DecidableEq α] (c : Cache α) (h : Nat) (a : α) (t cutoff : Nat) :
    Cache α × Out :=
  if c.slots.isEmpty then (c, .allowed)           -- cache disabled, always OK
  else
    let idx := h % c.slots.length
    match c.slots[idx]? with
    | none => (c, .panic)
    | some old =>
      -- timestamp of the current occupant if it is the same item
      let same : Option Nat :=
        match old with
        | some (v, t0) => if a = v then some t0 else none
        | none => none
      let c' : Cache α := ⟨c.slots.set idx (some (a, t))⟩
      match same with
      | some t0 => (c', if t - t0 ≥ cutoff then .allowed else .limited)
      | none => (c', .allowed)

/-- what `intended_action` decides (the `(ServerResponse, ServerReason)` pair, by arm) -/
inductive Verdict where
  | denyList       -- `(config.denylist.action, Policy)`
  | allowList      -- `(config.allowlist.action, Policy)`
  | rateLimit      -- `(Ignore, RateLimit)`
  | provideTime    -- `(ProvideTime, Policy)`
  | panic
deriving Repr, DecidableEq

/-- `Server::intended_action`: `inDeny`/`inAllow` are the results of the two `IpFilter::is_in` calls
    (C31), `t` is the value of `Instant::now()`.  The cache is consulted — and written — only by
    requests that passed both lists. -/
def intended {α : Type} [DecidableEq α] (c : Cache α) (inDeny inAllow : Bool) (h : Nat) (a : α)
    (t cutoff : Nat) : Cache α × Verdict :=
  if inDeny then (c, .denyList)
  else if !inAllow then (c, .allowList)
  else
    match isAllowed c h a t cutoff with
    | (c', .allowed) => (c', .provideTime)
    | (c', .limited) => (c', .rateLimit)
    | (c', .panic) => (c', .panic)

end NtpVerif.RateCache
