/-
Model of the PTP multi-clock estimator (`statime-algo/src/estimator.rs`, `matrix.rs`), import-free.

Generic in the element type `α` (class `Num α`: the arithmetic the estimator uses, *uninterpreted* in
proofs).  The executable instance is `F64` (bit patterns; `+ - * / sqrt` on the hardware), so the
driver reproduces the Rust results bit for bit; the theorems hold for every `α`.

Rust → model:
  * `Matrix<S>`            → `Mat α` (rows, cols, row-major `List α`); `Index`/`IndexMut` with their two
                             `assert!`s → `Mat.get` / `Mat.set` returning `Option` (`none` = panic);
                             `Matrix::new(rows, cols, f)` → `Mat.newM` (closures may index, so they are
                             partial: one failing cell = panic);
  * `splice_vec`, `splice_square`, `extend_vec`, `extend` with their `NotAVector` / `NotSquare` /
    `OutOfBounds` results;
  * `ClockInfoList` / `LinkInfoList` (`add`, `remove` = first match, `update_indices` with the `usize`
    subtraction as a checked subtraction) and `ExternalClockList`;
  * `EstimatorState::{empty, progress_time, absorb_*, measurement, add/remove_external_clock, add_clock,
    remove_clock, add_link, remove_link, clock_offset, clock_frequency, link_delay}`; `self`-consuming
    methods returning `Result` → `Est α → … → Except Err (Est α)`.
  * `Timestamp` = `u128` (2⁻⁶⁴ s, wrapping), `Duration` = `i128`.
-/
import NtpVerif.Basic.F64

namespace NtpVerif.Estimator

/-- the arithmetic used by the estimator -/
class Num (α : Type) where
  zero : α
  one : α
  negOne : α
  two : α
  three : α
  /-- start value of Rust's `Iterator::sum::<f64>()` -/
  sumInit : α
  add : α → α → α
  sub : α → α → α
  mul : α → α → α
  div : α → α → α
  sqrt : α → α
  /-- `f64::midpoint` -/
  midpoint : α → α → α
  /-- `Duration::as_seconds` of a raw `i128` (2⁻⁶⁴ s units) -/
  ofDur : Int → α

/-- `x.powi(2)`, `x.powi(3)` (compiler-rt `__powidf2`: `x*x`, `x*(x*x)`) -/
def sq [Num α] (x : α) : α := Num.mul x x
def cube [Num α] (x : α) : α := Num.mul x (Num.mul x x)

inductive Err where
  | UnknownClock | ClockAlreadyExists | UnknownLink | LinkAlreadyExists | BothClocksExternal
  | NonMonotonic | NotAVector | NotSquare | OutOfBounds
  | panic
deriving DecidableEq, Repr

abbrev R := Except Err

/-- a Rust panic site (`assert!`, slice index, `usize` underflow) -/
def orPanic : Option β → R β
  | some x => .ok x
  | none => .error .panic

/-! ### matrices -/

structure Mat (α : Type) where
  rows : Nat
  cols : Nat
  data : List α
deriving Repr, DecidableEq

namespace Mat

/-- `m[(r, c)]`: asserts `r < rows`, `c < cols`, then indexes the storage -/
def get (m : Mat α) (r c : Nat) : Option α :=
  if r < m.rows ∧ c < m.cols then m.data[r * m.cols + c]? else none

/-- `m[(r, c)] = v` -/
def set (m : Mat α) (r c : Nat) (v : α) : Option (Mat α) :=
  if r < m.rows ∧ c < m.cols ∧ r * m.cols + c < m.data.length then
    some { m with data := m.data.set (r * m.cols + c) v }
  else none

/-- `Matrix::new(rows, cols, f)` for a total `f` -/
def new (rows cols : Nat) (f : Nat → Nat → α) : Mat α :=
  ⟨rows, cols, (List.range (rows * cols)).map fun k => f (k / cols) (k % cols)⟩

/-- `Matrix::new(rows, cols, f)` where `f` may panic -/
def newM (rows cols : Nat) (f : Nat → Nat → Option α) : Option (Mat α) :=
  ((List.range (rows * cols)).mapM fun k => f (k / cols) (k % cols)).map fun d => ⟨rows, cols, d⟩

def zero [Num α] (rows cols : Nat) : Mat α := new rows cols fun _ _ => Num.zero
def identity [Num α] (n : Nat) : Mat α := new n n fun r c => if r = c then Num.one else Num.zero
def ofScalar (v : α) : Mat α := ⟨1, 1, [v]⟩

def transpose (m : Mat α) : Option (Mat α) := newM m.cols m.rows fun r c => m.get c r

def spliceVec (m : Mat α) (start len : Nat) : R (Mat α) :=
  if m.cols ≠ 1 then .error .NotAVector
  else if start + len > m.rows then .error .OutOfBounds
  else orPanic <| newM (m.rows - len) 1 fun row _ =>
    if row < start then m.get row 0 else m.get (row + len) 0

def spliceSquare (m : Mat α) (start len : Nat) : R (Mat α) :=
  if m.rows ≠ m.cols then .error .NotSquare
  else if start + len > m.rows then .error .OutOfBounds
  else orPanic <| newM (m.rows - len) (m.cols - len) fun row col =>
    m.get (if row < start then row else row + len) (if col < start then col else col + len)

/-- `extend_vec(values)` -/
def extendVec (m : Mat α) (values : List α) : R (Mat α) :=
  if m.cols ≠ 1 then .error .NotAVector
  else orPanic <| newM (m.rows + values.length) 1 fun row _ =>
    if row < m.rows then m.get row 0 else values[row - m.rows]?

/-- `extend(data)` with a `k × k` block `data` (the estimator only uses diagonal 2×2 and 1×1 blocks) -/
def extend [Num α] (m : Mat α) (k : Nat) (block : Nat → Nat → Option α) : Option (Mat α) :=
  newM (m.rows + k) (m.cols + k) fun row col =>
    if row < m.rows ∧ col < m.cols then m.get row col
    else if row ≥ m.rows ∧ col ≥ m.cols then block (row - m.rows) (col - m.cols)
    else some Num.zero

/-- raw storage access `storage[i]` -/
def raw (m : Mat α) (i : Nat) : Option α := m.data[i]?

def sumFrom [Num α] (acc : α) : List α → α
  | [] => acc
  | x :: xs => sumFrom (Num.add acc x) xs

/-- `&a * &b` (`assert_eq!(a.cols, b.rows)`; cells are `Σ_k a[r,k]·b[k,c]`, folded from `sumInit`) -/
def mul [Num α] (a b : Mat α) : Option (Mat α) :=
  if a.cols ≠ b.rows then none
  else newM a.rows b.cols fun r c => do
    let terms ← (List.range a.cols).mapM fun k => do
      let x ← a.raw (r * a.cols + k)
      let y ← b.raw (k * b.cols + c)
      pure (Num.mul x y)
    pure (sumFrom Num.sumInit terms)

def zipCells (f : α → α → α) (a b : Mat α) : Option (Mat α) :=
  if a.cols ≠ b.cols ∨ a.rows ≠ b.rows then none
  else newM a.rows a.cols fun r c => do
    let x ← a.raw (r * a.cols + c)
    let y ← b.raw (r * a.cols + c)
    pure (f x y)

def add [Num α] (a b : Mat α) : Option (Mat α) := zipCells Num.add a b
def sub [Num α] (a b : Mat α) : Option (Mat α) := zipCells Num.sub a b

def mapCells (f : α → α) (m : Mat α) : Option (Mat α) :=
  newM m.rows m.cols fun r c => (m.raw (r * m.cols + c)).map f

/-- `&m * x` and `&m / x` -/
def scale [Num α] (m : Mat α) (x : α) : Option (Mat α) := mapCells (fun v => Num.mul v x) m
def divScalar [Num α] (m : Mat α) (x : α) : Option (Mat α) := mapCells (fun v => Num.div v x) m

def symmetrize [Num α] (m : Mat α) : R (Mat α) :=
  if m.rows ≠ m.cols then .error .NotSquare
  else orPanic <| newM m.rows m.cols fun r c => do
    let x ← m.get r c
    let y ← m.get c r
    pure (Num.midpoint x y)

end Mat

/-! ### the estimator state -/

structure LinkId where
  a : Nat
  b : Nat
  uid : Nat
deriving DecidableEq, Repr

structure ClockInfo (α : Type) where
  id : Nat
  base : Nat
  wander : α
deriving Repr

structure LinkInfo (α : Type) where
  id : LinkId
  index : Nat
  decay : α
deriving Repr

def ClockInfo.offsetIndex (c : ClockInfo α) : Nat := c.base
def ClockInfo.frequencyIndex (c : ClockInfo α) : Nat := c.base + 1

structure Est (α : Type) where
  /-- `Timestamp<TAI>`: raw `u128` -/
  time : Nat
  state : Mat α
  unc : Mat α
  clocks : List (ClockInfo α)
  ext : List Nat
  links : List (LinkInfo α)
deriving Repr

def TWO128 : Nat := 340282366920938463463374607431768211456
def TWO127 : Nat := 170141183460469231731687303715884105728

/-- `Timestamp - Timestamp`: `wrapping_sub` then `cast_signed` -/
def tsDiff (a b : Nat) : Int :=
  let d := (a + TWO128 - b % TWO128) % TWO128
  if d ≥ TWO127 then (d : Int) - TWO128 else d

/-- `Timestamp + Duration`: `wrapping_add(cast_unsigned)` -/
def tsAdd (t : Nat) (d : Int) : Nat := ((t : Int) + d).emod TWO128 |>.toNat

variable {α : Type}

def empty [Num α] (time : Nat) : Est α :=
  { time, state := Mat.zero 0 1, unc := Mat.zero 0 0, clocks := [], ext := [], links := [] }

/-- `update_indices(from, delta)`: `if idx > from { idx -= delta }` (checked subtraction) -/
def shiftIndex (frm delta idx : Nat) : Option Nat :=
  if idx > frm then (if idx < delta then none else some (idx - delta)) else some idx

def updateClockIndices (cs : List (ClockInfo α)) (frm delta : Nat) : Option (List (ClockInfo α)) :=
  cs.mapM fun c => (shiftIndex frm delta c.base).map fun b => { c with base := b }

def updateLinkIndices (ls : List (LinkInfo α)) (frm delta : Nat) : Option (List (LinkInfo α)) :=
  ls.mapM fun l => (shiftIndex frm delta l.index).map fun i => { l with index := i }

def getClock (s : Est α) (id : Nat) : R (ClockInfo α) :=
  match s.clocks.find? (fun c => c.id == id) with
  | some c => .ok c
  | none => .error .UnknownClock

def getLink (s : Est α) (id : LinkId) : R (LinkInfo α) :=
  match s.links.find? (fun l => l.id == id) with
  | some l => .ok l
  | none => .error .UnknownLink

def isInternal (s : Est α) (id : Nat) : Bool := s.clocks.any fun c => c.id == id
def isExternal (s : Est α) (id : Nat) : Bool := s.ext.contains id
def isKnown (s : Est α) (id : Nat) : Bool := isInternal s id || isExternal s id

/-! #### add / remove -/

def addExternalClock (s : Est α) (id : Nat) : R (Est α) :=
  if isInternal s id then .error .ClockAlreadyExists
  else if s.ext.contains id then .error .ClockAlreadyExists
  else .ok { s with ext := s.ext ++ [id] }

def removeExternalClock (s : Est α) (id : Nat) : R (Est α) :=
  if s.ext.contains id then .ok { s with ext := s.ext.erase id }
  else .error .UnknownClock

/-- `[[offU², 0], [0, freqU²]]` (array indexing: anything else is out of bounds) -/
def clockBlock [Num α] (offU freqU : α) : Nat → Nat → Option α := fun r c =>
  match r, c with
  | 0, 0 => some (sq offU)
  | 0, 1 => some Num.zero
  | 1, 0 => some Num.zero
  | 1, 1 => some (sq freqU)
  | _, _ => none

/-- `[[delayU²]]` -/
def linkBlock [Num α] (delayU : α) : Nat → Nat → Option α := fun r c =>
  match r, c with
  | 0, 0 => some (sq delayU)
  | _, _ => none

def addClock [Num α] (s : Est α) (id : Nat) (off offU freq freqU wander : α) : R (Est α) :=
  if isExternal s id then .error .ClockAlreadyExists
  else if isInternal s id then .error .ClockAlreadyExists
  else do
    let info : ClockInfo α := { id, base := s.state.rows, wander }
    let state ← s.state.extendVec [off, freq]
    let unc ← orPanic <| s.unc.extend 2 (clockBlock offU freqU)
    pure { s with clocks := s.clocks ++ [info], state, unc }

def removeClock (s : Est α) (id : Nat) : R (Est α) :=
  match s.clocks.find? (fun c => c.id == id) with
  | none => .error .UnknownClock
  | some removed => do
    let clocks ← orPanic <| updateClockIndices (s.clocks.eraseP fun c => c.id == id) removed.base 2
    let links ← orPanic <| updateLinkIndices s.links removed.base 2
    let state ← s.state.spliceVec removed.base 2
    let unc ← s.unc.spliceSquare removed.base 2
    pure { s with clocks, links, state, unc }

def addLink [Num α] (s : Est α) (id : LinkId) (delay delayU decay : α) : R (Est α) :=
  if !isKnown s id.a then .error .UnknownClock
  else if !isKnown s id.b then .error .UnknownClock
  else if s.links.any (fun l => l.id == id) then .error .LinkAlreadyExists
  else do
    let info : LinkInfo α := { id, index := s.state.rows, decay }
    let state ← s.state.extendVec [delay]
    let unc ← orPanic <| s.unc.extend 1 (linkBlock delayU)
    pure { s with links := s.links ++ [info], state, unc }

def removeLink (s : Est α) (id : LinkId) : R (Est α) :=
  match s.links.find? (fun l => l.id == id) with
  | none => .error .UnknownLink
  | some removed => do
    let links ← orPanic <| updateLinkIndices (s.links.eraseP fun l => l.id == id) removed.index 1
    let clocks ← orPanic <| updateClockIndices s.clocks removed.index 1
    let state ← s.state.spliceVec removed.index 1
    let unc ← s.unc.spliceSquare removed.index 1
    pure { s with clocks, links, state, unc }

/-! #### queries: (value, variance); the reported uncertainty is `sqrt variance` -/

def clockOffsetRaw (s : Est α) (id : Nat) : R (α × α) := do
  let c ← getClock s id
  let v ← orPanic <| s.state.get c.offsetIndex 0
  let u ← orPanic <| s.unc.get c.offsetIndex c.offsetIndex
  pure (v, u)

def clockFrequencyRaw (s : Est α) (id : Nat) : R (α × α) := do
  let c ← getClock s id
  let v ← orPanic <| s.state.get c.frequencyIndex 0
  let u ← orPanic <| s.unc.get c.frequencyIndex c.frequencyIndex
  pure (v, u)

def linkDelayRaw (s : Est α) (id : LinkId) : R (α × α) := do
  let l ← getLink s id
  let v ← orPanic <| s.state.get l.index 0
  let u ← orPanic <| s.unc.get l.index l.index
  pure (v, u)

def report [Num α] (r : R (α × α)) : R (α × α) := r.map fun p => (p.1, Num.sqrt p.2)

/-- `EstimatorState::clock_offset` etc.: `UncertainValue { value, uncertainty }` -/
def clockOffset [Num α] (s : Est α) (id : Nat) : R (α × α) := report (clockOffsetRaw s id)
def clockFrequency [Num α] (s : Est α) (id : Nat) : R (α × α) := report (clockFrequencyRaw s id)
def linkDelay [Num α] (s : Est α) (id : LinkId) : R (α × α) := report (linkDelayRaw s id)

/-! #### time and steering -/

def setCells (m : Mat α) : List (Nat × Nat × α) → Option (Mat α)
  | [] => some m
  | (r, c, v) :: rest => do
    let m' ← m.set r c v
    setCells m' rest

/-- the numeric part of `progress_time`: new state vector and covariance for a step of `dt` seconds
    (`update`, `noise` built cell by cell with `IndexMut`, then `update·x`, `update·P·updateᵀ + noise`) -/
def progressCells [Num α] (s : Est α) (dt : α) : Option (Mat α × Mat α) := do
  let n := s.state.rows
  let clockCells (c : ClockInfo α) : List (Nat × Nat × α) :=
    let w2 := sq c.wander
    [ (c.offsetIndex, c.offsetIndex, Num.div (Num.mul (cube dt) w2) Num.three),
      (c.offsetIndex, c.frequencyIndex, Num.div (Num.mul (sq dt) w2) Num.two),
      (c.frequencyIndex, c.offsetIndex, Num.div (Num.mul (sq dt) w2) Num.two),
      (c.frequencyIndex, c.frequencyIndex, Num.mul dt w2) ]
  let update ← setCells (Mat.identity n)
    (s.clocks.map fun c => (c.offsetIndex, c.frequencyIndex, dt))
  let noise ← setCells (Mat.zero n n) (s.clocks.flatMap clockCells)
  let linkCells ← s.links.mapM fun l => do
    let d ← s.state.get l.index 0
    pure (l.index, l.index, Num.mul dt (sq (Num.mul l.decay d)))
  let noise ← setCells noise linkCells
  let state ← update.mul s.state
  let a ← update.mul s.unc
  let ut ← update.transpose
  let b ← a.mul ut
  let unc ← b.add noise
  pure (state, unc)

/-- `progress_time` -/
def progressTime [Num α] (s : Est α) (newTime : Nat) : R (Est α) :=
  let delta := tsDiff newTime s.time
  if delta < 0 then .error .NonMonotonic
  else if newTime = s.time then .ok s
  else match progressCells s (Num.ofDur delta) with
    | some (state, unc) => .ok { s with time := newTime, state, unc }
    | none => .error .panic

def bumpCell [Num α] (m : Mat α) (r : Nat) (d : α) : Option (Mat α) := do
  let v ← m.get r 0
  m.set r 0 (Num.add v d)

def absorbFrequencySteer [Num α] (s : Est α) (id : Nat) (change : α) : R (Est α) := do
  let c ← getClock s id
  let state ← orPanic <| bumpCell s.state c.frequencyIndex change
  pure { s with state }

def absorbOffsetChange [Num α] (s : Est α) (id : Nat) (change : α) : R (Est α) := do
  let c ← getClock s id
  let state ← orPanic <| bumpCell s.state c.offsetIndex change
  pure { s with state }

/-- `offset_change : Duration` (raw `i128`) -/
def absorbSystemClockOffsetChange [Num α] (s : Est α) (id : Nat) (change : Int) : R (Est α) := do
  let c ← getClock s id
  let state ← orPanic <| bumpCell s.state c.offsetIndex (Num.ofDur change)
  pure { s with state, time := tsAdd s.time change }

/-- the numeric part of `measurement` (Kalman update with the 1×n projection `proj`) -/
def measureCells [Num α] (s : Est α) (proj : Mat α) (value r2 : α) : Option (Mat α × Mat α) := do
  let n := s.state.rows
  let projT ← proj.transpose
  let expected ← proj.mul s.state
  let difference ← (Mat.ofScalar value).sub expected
  let dcov ← (← (← proj.mul s.unc).mul projT).add (Mat.ofScalar r2)
  let d00 ← dcov.get 0 0
  let strength ← (← s.unc.mul projT).divScalar d00
  let state ← s.state.add (← strength.mul difference)
  let prev ← (Mat.identity n).sub (← strength.mul proj)
  let prevT ← prev.transpose
  let strengthT ← strength.transpose
  let p1 ← (← prev.mul s.unc).mul prevT
  let p2 ← (← strength.scale r2).mul strengthT
  let pre ← p1.add p2
  pure (state, pre)

/-- `if !ext { proj[(0, offset_index(id))] = v }` -/
def projWrite [Num α] (s : Est α) (proj : Mat α) (ext : Bool) (id : Nat) (v : α) : R (Mat α) :=
  if !ext then do
    let c ← getClock s id
    orPanic <| proj.set 0 c.offsetIndex v
  else pure proj

/-- `if delay_link { proj[(0, link_index)] = 1.0 }` -/
def projLink [Num α] (s : Est α) (proj : Mat α) (delayLink : Bool) (link : LinkId) : R (Mat α) :=
  if delayLink then do
    let l ← getLink s link
    orPanic <| proj.set 0 l.index Num.one
  else pure proj

/-- the measurement projection row (`IndexMut` writes of -1 / 1 / 1) -/
def measureProj [Num α] (s : Est α) (link : LinkId) (forward delayLink : Bool) : R (Mat α) :=
  let n := s.state.rows
  let frm := if forward then link.a else link.b
  let to := if forward then link.b else link.a
  let fromExt := isExternal s frm
  let toExt := isExternal s to
  if fromExt && toExt then .error .BothClocksExternal
  else do
    let proj ← projWrite s (Mat.zero 1 n) fromExt frm Num.negOne
    let proj ← projWrite s proj toExt to Num.one
    projLink s proj delayLink link

/-- `measurement(direction, offset, delay_link)`; `link`/`forward` give the directed link's clocks -/
def measurement [Num α] (s : Est α) (link : LinkId) (forward : Bool) (value uncert : α)
    (delayLink : Bool) : R (Est α) :=
  match measureProj s link forward delayLink with
  | .error e => .error e
  | .ok proj =>
    match measureCells s proj value (sq uncert) with
    | none => .error .panic
    | some (state, pre) =>
      match pre.symmetrize with
      | .error e => .error e
      | .ok unc => .ok { s with state, unc }

/-! ### executable instance: IEEE binary64 bit patterns -/

/-- `i as f64` for an `i128`/`u128` magnitude: round to nearest, ties to even -/
def f64OfNatRN (n : Nat) : F64 :=
  if n < 2 ^ 64 then F64.ofU64 n
  else
    let e := n.log2
    let shift := e - 52
    let q := n >>> shift
    let rem := n % 2 ^ shift
    let half := 2 ^ (shift - 1)
    let q' := if rem > half ∨ (rem = half ∧ q % 2 = 1) then q + 1 else q
    F64.ofFloat ((F64.ofU64 q').toFloat.scaleB shift)

def f64OfIntRN (i : Int) : F64 :=
  if i < 0 then F64.neg (f64OfNatRN i.natAbs) else f64OfNatRN i.natAbs

/-- 2⁶⁴ as f64 -/
def F64_TWO64 : F64 := ⟨0x43f0000000000000⟩

/-- `Duration::as_seconds` -/
def durAsSeconds (raw : Int) : F64 := F64.div (f64OfIntRN raw) F64_TWO64

/-- `x as i128` (truncate toward zero, saturate, NaN ↦ 0), on the bits -/
def f64ToI128 (x : F64) : Int :=
  if x.isNaN then 0 else
  let e := (x.mag / 2 ^ 52)
  let frac := x.mag % 2 ^ 52
  let magn : Nat :=
    if e = 0 then 0
    else if e ≥ 1075 then (2 ^ 52 + frac) <<< (e - 1075)
    else (2 ^ 52 + frac) >>> (1075 - e)
  if x.signBit then (if magn ≥ TWO127 then -(TWO127 : Int) else -(magn : Int))
  else (if magn ≥ TWO127 then (TWO127 : Int) - 1 else (magn : Int))

/-- `Duration::from_f64_seconds` -/
def durOfF64 (x : F64) : Int := f64ToI128 (F64.mul x F64_TWO64)

def F64_MAX_HALF : F64 := ⟨0x7fdfffffffffffff⟩

/-- `f64::midpoint` (core 1.95: `(a+b)/2` unless a magnitude exceeds `MAX/2`, then `a/2 + b/2`) -/
def f64Midpoint (a b : F64) : F64 :=
  let two : F64 := ⟨0x4000000000000000⟩
  if F64.le a.abs F64_MAX_HALF && F64.le b.abs F64_MAX_HALF then F64.div (F64.add a b) two
  else F64.add (F64.div a two) (F64.div b two)

instance : Num F64 where
  zero := F64.zero
  one := F64.one
  negOne := ⟨0xbff0000000000000⟩
  two := ⟨0x4000000000000000⟩
  three := ⟨0x4008000000000000⟩
  sumInit := ⟨0x8000000000000000⟩
  add := F64.add
  sub := F64.sub
  mul := F64.mul
  div := F64.div
  sqrt := F64.sqrt
  midpoint := f64Midpoint
  ofDur := durAsSeconds

end NtpVerif.Estimator
