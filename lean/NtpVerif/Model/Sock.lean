/-
Model of the GPSd socket source (ntpd/src/daemon/sock_source.rs): `deserialize_sample`, the part of
`SockSourceTask::run` that turns an accepted sample into a `Measurement`, and the datagram reception
(`recv` into a zero-initialised buffer that is one byte larger than a sample).  Import-free.

Explicit panic sites: slice index out of range (`indexPanic`), `from_seconds`' `debug_assert!` and
`unreachable!()`.  `TryFromSliceError` is the error `slice`.
-/
import NtpVerif.Basic.F64
import NtpVerif.Basic.Wrap
import NtpVerif.Gen.Consts
import NtpVerif.Model.GlueTime

namespace NtpVerif.Sock
open NtpVerif NtpVerif.Wrap NtpVerif.GlueTime

/-- little-endian unsigned value of a byte list -/
def leNat : List UInt8 → Nat
  | [] => 0
  | b :: bs => b.toNat + 256 * leNat bs

/-- `i32::from_le_bytes` -/
def i32OfLe (bs : List UInt8) : Int :=
  let n := leNat bs
  if n ≥ 2147483648 then (n : Int) - 4294967296 else (n : Int)

/-- `f64::from_le_bytes` -/
def f64OfLe (bs : List UInt8) : F64 := ⟨UInt64.ofNat (leNat bs)⟩

structure Sample where
  offset : F64
  pulse : Int
  leap : Int
  magic : Int
deriving Repr, DecidableEq

inductive Err where
  | io                       -- `SampleError::IOError`
  | slice                    -- `SampleError::SliceError` (`try_into` length mismatch)
  | wrongSize (n : Nat)
  | wrongMagic (m : Int)
  | wrongPulse (p : Int)
  | nonFinite                -- `SampleError::NonFiniteOffset`
  | indexPanic               -- slice index out of range: a PANIC, not an error value
deriving Repr, DecidableEq

/-- `buf[a..a+n].try_into()` into `[u8; n]` -/
def arr (buf : List UInt8) (a n : Nat) : Except Err (List UInt8) :=
  if a + n ≤ buf.length then
    let s := (buf.drop a).take n
    if s.length = n then .ok s else .error .slice
  else .error .indexPanic

/-- the fields as read from a buffer (used in statements) -/
def offsetOf (buf : List UInt8) : F64 := f64OfLe ((buf.drop 16).take 8)
def pulseOf (buf : List UInt8) : Int := i32OfLe ((buf.drop 24).take 4)
def leapOf (buf : List UInt8) : Int := i32OfLe ((buf.drop 28).take 4)
def magicOf (buf : List UInt8) : Int := i32OfLe ((buf.drop 36).take 4)

/-- `deserialize_sample(result, buf)`; `res = none` is an I/O error of `recv` -/
def deserializeSample (res : Option Nat) (buf : List UInt8) : Except Err Sample := do
  let size ← match res with
    | none => .error .io
    | some n => pure n
  if size ≠ Gen.SOCK_SAMPLE_SIZE then .error (.wrongSize size) else
  let o ← arr buf 16 8
  let p ← arr buf 24 4
  let l ← arr buf 28 4
  let m ← arr buf 36 4
  let sample : Sample := ⟨f64OfLe o, i32OfLe p, i32OfLe l, i32OfLe m⟩
  if sample.magic ≠ (Gen.SOCK_MAGIC : Int) then .error (.wrongMagic sample.magic) else
  if sample.pulse ≠ 0 then .error (.wrongPulse sample.pulse) else
  if !sample.offset.isFinite then .error .nonFinite else
  pure sample

/-- the code before the fix of F-C40: no finiteness test (kept for the counterexample) -/
def deserializeSampleUnfixed (res : Option Nat) (buf : List UInt8) : Except Err Sample := do
  let size ← match res with
    | none => .error .io
    | some n => pure n
  if size ≠ Gen.SOCK_SAMPLE_SIZE then .error (.wrongSize size) else
  let o ← arr buf 16 8
  let p ← arr buf 24 4
  let l ← arr buf 28 4
  let m ← arr buf 36 4
  let sample : Sample := ⟨f64OfLe o, i32OfLe p, i32OfLe l, i32OfLe m⟩
  if sample.magic ≠ (Gen.SOCK_MAGIC : Int) then .error (.wrongMagic sample.magic) else
  if sample.pulse ≠ 0 then .error (.wrongPulse sample.pulse) else
  pure sample

/-- the measurement handed to the controller (fields that depend on the sample or the clock; the others
    are constants: root delay/dispersion 0, precision 0, ids) -/
structure Meas where
  senderTs : Nat     -- `time - NtpDuration::from_seconds(sample.offset)` (u64, wrapping)
  recvTs : Nat
  leap : Nat         -- 0 NoWarning, 1 Leap61, 2 Leap59, 3 Unknown
deriving Repr, DecidableEq

def leapIndicator (l : Int) : Nat :=
  if l = 0 then 0 else if l = 1 then 1 else if l = 2 then 2 else 3

inductive Outcome where
  | measurement (m : Meas)
  | rejected (e : Err)       -- logged, loop continues
  | panic
deriving Repr, DecidableEq

/-- the `Ok(sample)` arm of the run loop (`time` = `clock.now()`, a raw u64 timestamp) -/
def measure (time : Nat) (s : Sample) : Outcome :=
  match fromSeconds s.offset with
  | .ok d => .measurement ⟨(wrapU64 ((time : Int) - d)).toNat, time, leapIndicator s.leap⟩
  | .assertFail => .panic
  | .unreachable => .panic

/-- one iteration of the run loop on the result of `recv` -/
def processRecv (deser : Option Nat → List UInt8 → Except Err Sample)
    (time : Nat) (res : Option Nat) (buf : List UInt8) : Outcome :=
  match deser res buf with
  | .ok s => measure time s
  | .error .indexPanic => .panic
  | .error e => .rejected e

/-- size of the receive buffer: one byte more than a sample -/
def RECV_BUF : Nat := Gen.SOCK_SAMPLE_SIZE + Gen.SOCK_RECV_EXTRA

/-- datagram reception (kernel behaviour, trusted): a datagram longer than the buffer is truncated and the
    buffer length is reported; a shorter one leaves the zero-initialised tail untouched -/
def recv (bufLen : Nat) (dgram : List UInt8) : Nat × List UInt8 :=
  (min dgram.length bufLen, dgram.take bufLen ++ List.replicate (bufLen - dgram.length) 0)

/-- `std::array::from_fn(|i| recv_buf[i])` into `[u8; SOCK_SAMPLE_SIZE]`: `none` = index panic -/
def sampleBuf (recvBuf : List UInt8) : Option (List UInt8) :=
  if Gen.SOCK_SAMPLE_SIZE ≤ recvBuf.length then some (recvBuf.take Gen.SOCK_SAMPLE_SIZE) else none

/-- one datagram through the (fixed) run loop -/
def processDatagram (time : Nat) (dgram : List UInt8) : Outcome :=
  let (size, rb) := recv RECV_BUF dgram
  match sampleBuf rb with
  | none => .panic
  | some buf => processRecv deserializeSample time (some size) buf

/-- the run loop before the fixes: receive buffer of exactly the sample size, no finiteness test -/
def processDatagramUnfixed (time : Nat) (dgram : List UInt8) : Outcome :=
  let (size, buf) := recv Gen.SOCK_SAMPLE_SIZE dgram
  processRecv deserializeSampleUnfixed time (some size) buf

end NtpVerif.Sock
