/-
Model of the clock-steering decisions of `KalmanClockController`
(`ntp-proto/src/algorithm/kalman/mod.rs`) and of `StepThreshold::is_within` (`ntp-proto/src/config.rs`).
Import-free (Basic only).

Rust:                                              Model:
  StepThreshold { forward, backward }                Threshold (Option Int per direction; `none` = "inf")
  StepThreshold::is_within                           isWithin   (`none` = overflow panic of `-v`, pre-fix)
  NtpDuration::{from_seconds, abs, neg}              fromSeconds / durAbs / durNeg   (same definitions as Model/Time)
  controller fields in_startup, timedata.accumulated_steps,
    freq_offset, desired_freq                        St
  check_offset_steer                                 checkOffsetSteer  (exit and panic outcomes explicit)
  steer_offset                                       steerOffset
  change_desired_frequency / steer_frequency         changeDesiredFrequency / steerFrequency
  update_clock, after `combine` returned             ctrlUpdate   (the Kalman estimate is an INPUT: four F64s)
  time_update                                        ctrlStep .timeUpdate

`#[cfg(not(test))] std::process::exit(SOFTWARE)` / `#[cfg(test)] panic!("Threshold exceeded")` is the
outcome `End.exit`; every other Rust panic site on these paths (`debug_assert!` in `from_seconds`,
`i64::abs`/`-` overflow before the proposed C32 fix, `f64::clamp` with `!(min <= max)`,
`Duration::from_secs_f64`) is `End.panic`.

`Cfg.satOps` selects the semantics of `NtpDuration::abs`/`Neg`: `false` = the code as it stands
(`i64::abs`, `-x`: overflow panic on `i64::MIN` in builds with overflow checks), `true` = the proposed
C32 fix (`saturating_abs`, `saturating_neg`).  The harness reads the variant off the implementation and
every theorem is proved for both.

Not modelled (outside the steering decision): what `update_clock` does with the estimate besides
steering (root dispersion bookkeeping, `error_estimate_update`, `status_update`), the source-filter
updates after a steer, `select`/`combine` themselves (C03/C04/C06).
-/
import NtpVerif.Basic.F64
import NtpVerif.Basic.Wrap

namespace NtpVerif.Steer
open NtpVerif.Wrap

/-! ### NtpDuration helpers (same definitions as `NtpVerif.Model.Time`; private copies) -/

/-- `u32::MAX as f64` = 4294967295.0 -/
def U32MAX_F : F64 := ⟨0x41EFFFFFFFE00000⟩

/-- two's-complement `|` on `i64` -/
def orI64 (a b : Int) : Int :=
  wrapS64 (Int.ofNat ((wrapU64 a).toNat ||| (wrapU64 b).toNat))

/-- `i << 32` on `i64` -/
def shl32 (i : Int) : Int := wrapS64 (i * 4294967296)

def fromSecondsInt (ii frac : Int) : Option Int :=
  if I32_MIN ≤ ii ∧ ii ≤ I32_MAX then some (orI64 (shl32 ii) frac)
  else if ii < I32_MIN then some I64_MIN
  else if ii > I32_MAX then some I64_MAX
  else none

def secInt (x : F64) : Int := F64.toI64Sat (F64.floor x)
def secFrac (x : F64) : Int := F64.toI64Sat ((x - F64.floor x) * U32MAX_F)

/-- `NtpDuration::from_seconds`; `none` = the `debug_assert!` on NaN / infinite input -/
def fromSeconds (x : F64) : Option Int :=
  if x.isNaN || x.isInf then none else fromSecondsInt (secInt x) (secFrac x)

/-- `NtpDuration::as_seconds_nanos` (what `ntpd/src/daemon/clock.rs` hands to `clock-steering`) -/
def asSecondsNanos (d : Int) : Int × Int :=
  (wrapS32 (d / 4294967296), wrapU32 (((d % 4294967296) * 1000000000) / 4294967296))

def absInt (d : Int) : Int := if d < 0 then -d else d

/-- `NtpDuration::abs` (`sat = false`: `i64::abs`, overflow panic = `none`; `sat = true`: `saturating_abs`) -/
def durAbs (sat : Bool) (d : Int) : Option Int :=
  if sat then some (satI64 (absInt d)) else checkedI64 (absInt d)

/-- `-NtpDuration` -/
def durNeg (sat : Bool) (d : Int) : Option Int :=
  if sat then some (satI64 (-d)) else checkedI64 (-d)

/-! ### thresholds -/

structure Threshold where
  forward : Option Int
  backward : Option Int
deriving Repr, DecidableEq

/-- `StepThreshold::is_within`:
    `forward.is_none_or(|v| d < v) && backward.is_none_or(|v| d > -v)` (short-circuit `&&`). -/
def isWithin (sat : Bool) (t : Threshold) (d : Int) : Option Bool :=
  if (match t.forward with | none => true | some v => decide (d < v)) then
    match t.backward with
    | none => some true
    | some v =>
      match durNeg sat v with
      | none => none
      | some nv => some (decide (d > nv))
  else some false

/-! ### configuration and controller state -/

structure Cfg where
  satOps : Bool
  startup : Threshold            -- synchronization_config.startup_step_panic_threshold
  single : Threshold             -- synchronization_config.single_step_panic_threshold
  accumulated : Option Int       -- synchronization_config.accumulated_step_panic_threshold
  stepThreshold : F64            -- algo_config.step_threshold
  steerOffsetThreshold : F64
  steerOffsetLeftover : F64
  steerFreqThreshold : F64
  steerFreqLeftover : F64
  slewMax : F64                  -- algo_config.slew_maximum_frequency_offset
  slewMinDuration : F64          -- algo_config.slew_minimum_duration
  maxSteer : F64                 -- algo_config.maximum_frequency_steer
deriving Repr

structure St where
  inStartup : Bool
  acc : Int                      -- timedata.accumulated_steps
  freqOffset : F64
  desiredFreq : F64
deriving Repr, DecidableEq

/-- what the controller does to the clock (and the slew it starts) -/
inductive Ev where
  | disable                        -- clock.disable_ntp_algorithm()
  | step (d : Int)                 -- clock.step_clock(d)
  | slew (freq desired : F64)      -- a slew is started: `freq` chosen, `desired_freq := desired`
  | setFreq (f : F64)              -- clock.set_frequency(f)
deriving Repr, DecidableEq

inductive End where
  | ok
  | exit                           -- `process::exit(SOFTWARE)` (test builds: `panic!("Threshold exceeded")`)
  | panic
deriving Repr, DecidableEq

structure Res where
  st : St
  evs : List Ev
  fin : End
deriving Repr

def negOne : F64 := ⟨0xbff0000000000000⟩
/-- 2^64 as f64 -/
def two64 : F64 := ⟨0x43f0000000000000⟩

/-- `f64::signum`: NaN for NaN, else ±1.0 with the sign bit of the argument -/
def signum (x : F64) : F64 := if x.isNaN then F64.nan else if x.signBit then negOne else F64.one

/-- `Duration::from_secs_f64(s)` does not panic: not negative, finite, below 2^64 -/
def durationOk (s : F64) : Bool := !(F64.lt s F64.zero) && F64.lt s two64

/-! ### the steering functions -/

/-- `steer_frequency` -/
def steerFrequency (cfg : Cfg) (st : St) (change : F64) : Res :=
  let x := (F64.one + st.freqOffset) * (F64.one + change) - F64.one
  match F64.clamp x (F64.neg cfg.maxSteer) cfg.maxSteer with
  | none => ⟨st, [], .panic⟩
  | some f => ⟨{ st with freqOffset := f }, [.setFreq f], .ok⟩

/-- `change_desired_frequency` -/
def changeDesiredFrequency (cfg : Cfg) (st : St) (newFreq freqDelta : F64) : Res :=
  let change := st.desiredFreq - newFreq + freqDelta
  steerFrequency cfg { st with desiredFreq := newFreq } change

inductive Check where
  | ok (d : Int)
  | exit
  | panic
deriving Repr, DecidableEq

/-- `accumulated_step_panic_threshold.is_some_and(|v| accumulated_steps > v)` -/
def accExceeds (thr : Option Int) (acc : Int) : Bool :=
  match thr with
  | none => false
  | some v => decide (acc > v)

/-- `check_offset_steer` after the conversion `d = NtpDuration::from_seconds(change)` -/
def checkDur (cfg : Cfg) (st : St) (d : Int) : St × Check :=
  if st.inStartup then
    match isWithin cfg.satOps cfg.startup d with
    | none => (st, .panic)
    | some true => (st, .ok d)
    | some false => (st, .exit)
  else
    match durAbs cfg.satOps d with
    | none => (st, .panic)
    | some a =>
      let st' := { st with acc := satI64 (st.acc + a) }
      match isWithin cfg.satOps cfg.single d with
      | none => (st', .panic)
      | some false => (st', .exit)
      | some true =>
        if accExceeds cfg.accumulated st'.acc then (st', .exit)
        else (st', .ok d)

/-- `check_offset_steer` (the returned `d` is `NtpDuration::from_seconds(change)`, which `steer_offset`
    recomputes for `step_clock`) -/
def checkOffsetSteer (cfg : Cfg) (st : St) (change : F64) : St × Check :=
  match fromSeconds change with
  | none => (st, .panic)
  | some d => checkDur cfg st d

/-- a sequence of step amounts, each passed through the threshold check (no startup, no slews in
    between): the state after all of them were allowed, `none` if one was refused -/
def acceptSteps (cfg : Cfg) (st : St) : List Int → Option St
  | [] => some st
  | d :: ds =>
    match checkDur cfg st d with
    | (st', .ok _) => acceptSteps cfg st' ds
    | _ => none

/-- `steer_offset` -/
def steerOffset (cfg : Cfg) (st : St) (change freqDelta : F64) : Res :=
  if F64.gt (F64.abs change) cfg.stepThreshold then
    match checkOffsetSteer cfg st change with
    | (st', .ok d) => ⟨st', [.step d], .ok⟩
    | (st', .exit) => ⟨st', [], .exit⟩
    | (st', .panic) => ⟨st', [], .panic⟩
  else
    let freq := F64.min cfg.slewMax (F64.abs change / cfg.slewMinDuration)
    let dur := F64.abs change / freq
    if !(durationOk dur) then ⟨st, [], .panic⟩
    else
      let desired := F64.neg freq * signum change
      let r := changeDesiredFrequency cfg st desired freqDelta
      ⟨r.st, .slew freq desired :: r.evs, r.fin⟩

/-- the `if … steer_offset … else if … steer_frequency … else nothing` of `update_clock` -/
def steerDecision (cfg : Cfg) (st : St) (off freq ovar fvar : F64) : Res :=
  let freqDelta := freq - st.desiredFreq
  let freqUnc := F64.sqrt fvar
  let offUnc := F64.sqrt ovar
  if F64.eq st.desiredFreq F64.zero && F64.gt (F64.abs off) (offUnc * cfg.steerOffsetThreshold) then
    steerOffset cfg st (off - offUnc * cfg.steerOffsetLeftover * signum off) freqDelta
  else if F64.gt (F64.abs freqDelta) (freqUnc * cfg.steerFreqThreshold) then
    steerFrequency cfg st (freqDelta - freqUnc * cfg.steerFreqLeftover * signum freqDelta)
  else ⟨st, [], .ok⟩

/-- the steering part of `update_clock` once `combine` returned an estimate with
    offset `off`, frequency `freq`, offset variance `ovar`, frequency variance `fvar` -/
def ctrlUpdate (cfg : Cfg) (st : St) (off freq ovar fvar : F64) : Res :=
  let pre : List Ev := if st.inStartup then [.disable] else []
  let r := steerDecision cfg st off freq ovar fvar
  match r.fin with
  | .ok => ⟨{ r.st with inStartup := false }, pre ++ r.evs, .ok⟩
  | e => ⟨r.st, pre ++ r.evs, e⟩

/-- one controller input -/
inductive Input where
  | noConsensus                               -- `combine` returned `None` (or the update was skipped)
  | estimate (off freq ovar fvar : F64)       -- `combine` returned an estimate
  | timeUpdate                                -- `time_update`: end of slew
deriving Repr

def ctrlStep (cfg : Cfg) (st : St) : Input → Res
  | .noConsensus => ⟨st, [], .ok⟩
  | .estimate off freq ovar fvar => ctrlUpdate cfg st off freq ovar fvar
  | .timeUpdate => changeDesiredFrequency cfg st F64.zero F64.zero

/-- A whole run: every event is tagged with `in_startup` as it was when the input was handled.
    `exit` / `panic` end the run (the process is gone). -/
def run (cfg : Cfg) (st : St) : List Input → List (Bool × Ev) × End × St
  | [] => ([], .ok, st)
  | i :: is =>
    let r := ctrlStep cfg st i
    match r.fin with
    | .ok =>
      let (t, e, s) := run cfg r.st is
      (r.evs.map (fun ev => (st.inStartup, ev)) ++ t, e, s)
    | e => (r.evs.map (fun ev => (st.inStartup, ev)), e, r.st)

/-- `KalmanClockController::new`: `freq_offset` is whatever the kernel reports -/
def initSt (kernelFreq : F64) : St :=
  { inStartup := true, acc := 0, freqOffset := kernelFreq, desiredFreq := F64.zero }

end NtpVerif.Steer
