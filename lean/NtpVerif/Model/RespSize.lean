/-
Size arithmetic of the extension-field encoder (`ntp-proto/src/packet/extension_fields.rs`) and of the
response serialiser (`NtpPacket::serialize`, `ExtensionFieldData::serialize`, `encode_encrypted`).

Everything here is about LENGTHS: how many octets each encoder writes, which length it puts into the field
header, and when it fails.  Byte contents are covered by the packet-codec properties (C23–C25).
-/
import NtpVerif.Gen.Consts

namespace NtpVerif.RespSize

/-- `next_multiple_of_usize(x, 4)` -/
def next4 (x : Nat) : Nat := if x % 4 = 0 then x else x + (4 - x % 4)

/-- `next_multiple_of_u16(x, 4)`: wrapping in 16 bits -/
def next4u16 (x : Nat) : Nat := if x % 4 = 0 then x else (x + (4 - x % 4)) % 65536

/-- extension header version of the encoder -/
inductive EV where
  | v4 | v5
deriving DecidableEq, Repr

/-- `encode_framing` refuses payloads longer than `u16::MAX - 4` -/
def frameOk (dataLen : Nat) : Bool := dataLen ≤ 65531

/-- value of the length field written by `encode_framing` -/
def headerLen (ev : EV) (minSize dataLen : Nat) : Nat :=
  let a := max (dataLen + 4) minSize
  match ev with
  | .v4 => next4u16 a
  | .v5 => a

/-- octets written for one framed field (header + payload + `encode_padding`) -/
def fieldWire (minSize dataLen : Nat) : Nat := next4 (max (dataLen + 4) minSize)

/-- payload length a parser sees in that field (`data[4..field_length]`) -/
def bodyLenOut (ev : EV) (minSize dataLen : Nat) : Nat := headerLen ev minSize dataLen - 4

/-- minimum size of the unencrypted (untrusted) fields: RFC 7822 §7.5.1.4 -/
def untrustedMin (ev : EV) (isLast : Bool) : Nat :=
  match ev with
  | .v4 => if isLast then Gen.EF_MIN_V4_LAST else Gen.EF_MIN_V4
  | .v5 => Gen.EF_MIN_V5

/-- minimum size of the authenticated fields (they are always followed by the encrypted field) -/
def authMin : Nat := Gen.EF_MIN_AUTHENTICATED

/-- fixed part of the NtsEncryptedField written by `encode_encrypted` with the SIV ciphers:
    type+length (4), nonce length + ciphertext length (4), 16-octet nonce, 16-octet SIV tag -/
def encOverhead : Nat := 4 + 4 + 16 + 16

/-- total of the untrusted fields: all but the last with the non-last minimum -/
def untrustedWire (ev : EV) : List Nat → Nat
  | [] => 0
  | [d] => fieldWire (untrustedMin ev true) d
  | d :: rest => fieldWire (untrustedMin ev false) d + untrustedWire ev rest

theorem next4_ge (x : Nat) : x ≤ next4 x := by unfold next4; split <;> omega
theorem next4_mod (x : Nat) : next4 x % 4 = 0 := by unfold next4; split <;> omega
theorem next4_lt (x : Nat) : next4 x < x + 4 := by unfold next4; split <;> omega
theorem next4_id (x : Nat) (h : x % 4 = 0) : next4 x = x := by unfold next4; simp [h]
theorem next4_mono {x y : Nat} (h : x ≤ y) : next4 x ≤ next4 y := by unfold next4; split <;> split <;> omega

theorem fieldWire_mod (m d : Nat) : fieldWire m d % 4 = 0 := next4_mod _
theorem fieldWire_ge (m d : Nat) : d + 4 ≤ fieldWire m d := by
  unfold fieldWire; have := next4_ge (max (d + 4) m); omega
theorem fieldWire_min_mono {m m' : Nat} (d : Nat) (h : m ≤ m') : fieldWire m d ≤ fieldWire m' d := by
  unfold fieldWire; apply next4_mono; omega
/-- a field that is already at least `m` long is re-encoded at its own (padded) length -/
theorem fieldWire_of_ge (m d : Nat) (h : m ≤ d + 4) : fieldWire m d = next4 (d + 4) := by
  unfold fieldWire; congr 1; omega

theorem untrustedWire_mod (ev : EV) (ds : List Nat) : untrustedWire ev ds % 4 = 0 := by
  induction ds with
  | nil => rfl
  | cons d rest ih =>
    cases rest with
    | nil => exact fieldWire_mod _ _
    | cons e r =>
      have := fieldWire_mod (untrustedMin ev false) d
      simp only [untrustedWire] at ih ⊢
      omega

end NtpVerif.RespSize
