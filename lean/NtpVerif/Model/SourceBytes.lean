/-
Composition of the byte-level packet parser model (`NtpVerif.Model.Packet` — `NtpPacket::deserialize` with the
ideal-AEAD oracle of `NtpVerif.Model.Cipher`) with the NtpSource state machine (`NtpVerif.Model.SourceSM`):

  `recordOfPacket` / `recordOfParse`   the abstraction from a parsed packet to the abstract packet record `Pkt`
                                       that `handle_incoming` looks at.  It is the Lean counterpart of the dump the
                                       harness computes in Rust (`harness/ntp_proto/packet_dump.rs`,
                                       `From<&NtpPacket> for BTreeMap`): version/mode/stratum/poll/precision through
                                       the packet's accessors, kiss class of `kiss_code()`, `reference_id()` (NONE for
                                       v5), reference timestamp (v3/v4) / 0, origin timestamp (v3/v4) / client cookie
                                       (v5), the unique-identifier and cookie bodies per extension-field list, the
                                       presence of a reference-id response per list, and the root delay/dispersion
                                       named by the f64 bits of `to_seconds()` (`durKey`).
  `incomingBytes`                      `NtpSource::handle_incoming` on the received BYTES: parse under the source's
                                       s2c key (no cipher for a plain source), then the state machine.

`Err(_)` of `deserialize` — parse errors and `DecryptError` alike — is `none` (source.rs: `Err(_) => ignore`).
-/
import NtpVerif.Model.Packet
import NtpVerif.Model.SourceSM

namespace NtpVerif.SourceBytes
open NtpVerif.Wire NtpVerif.SourceSM

/-- `ReferenceId::is_deny / is_rate / is_rstr / is_ntsn` on the 4 bytes as a big-endian number
    ("DENY", "RATE", "RSTR", "NTSN") -/
def kissOf (rid : Nat) : Kiss :=
  if rid = 0x44454E59 then .deny else if rid = 0x52415445 then .rate
  else if rid = 0x52535452 then .rstr else if rid = 0x4E54534E then .ntsn else .other

/-- a byte read as `i8` -/
def i8 (b : Nat) : Int := if b ≥ 128 then (b : Int) - 256 else (b : Int)

/-- bits of the IEEE-754 double nearest (ties to even) to the rational `a / b`, for `0 < a`, `0 < b` and a quotient
    in the normal range with `2^-1000 < a/b < 2^52·…` — correctly rounded division of two exactly representable
    integers, as `a as f64 / b as f64` computes it (both `< 2^53`) -/
def f64DivBits (a b : Nat) : Nat :=
  -- exponent e with 2^e ≤ a/b < 2^(e+1), as an offset: work with k = 1100 - e ≥ 0 so that everything stays in Nat
  let la := Nat.log2 a
  let lb := Nat.log2 b
  -- candidate e0 = la - lb (may be one too large)
  let kk := 1100 + lb - la            -- 1100 - e0
  let k := if a * 2 ^ kk < b * 2 ^ 1100 then kk + 1 else kk     -- 1100 - e
  -- mantissa: a / b * 2^(52 - e) = a * 2^(k - 1048) / b   (k ≥ 1048 in the range used)
  let num := a * 2 ^ (k - 1048)
  let m := num / b
  let r := num % b
  let m := if 2 * r > b ∨ (2 * r = b ∧ m % 2 = 1) then m + 1 else m
  let (m, k) := if m = 2 ^ 53 then (2 ^ 52, k - 1) else (m, k)
  -- biased exponent e + 1023 = 2123 - k
  (2123 - k) * 2 ^ 52 + (m - 2 ^ 52)

/-- f64 bits of `NtpDuration::to_seconds()` = `units as f64 / u32::MAX as f64` for a non-negative duration of
    `units` (2^-32 s; wire values are below 2^48, so `units as f64` is exact).  Only used as an opaque, injective
    name of the duration: it is what the harness' record dump prints (`durkey`). -/
def durKey (units : Int) : Int :=
  let u := units.toNat
  if u = 0 then 0 else (f64DivBits u 4294967295 : Nat)

def uidsOf (l : List EF) : List (List UInt8) :=
  l.filterMap fun f => match f with | .uniqueId b => some b | _ => none

def cookiesOf (l : List EF) : List (List UInt8) :=
  l.filterMap fun f => match f with | .cookie b => some b | _ => none

def hasRefIdResp (l : List EF) : Bool :=
  l.any fun f => match f with | .refIdResp _ => true | _ => false

def record34 (version : Nat) (h : HeaderV34) (ef : EFData) : Pkt :=
  { version := version, mode := h.mode, stratum := h.stratum, poll := i8 h.poll, kiss := kissOf h.referenceId,
    refid := h.referenceId, refTs := h.referenceTs, origin := h.originTs,
    uidAuth := uidsOf ef.authenticated, uidEnc := uidsOf ef.encrypted, uidUntr := uidsOf ef.untrusted,
    authnak := false,
    cookiesAuth := cookiesOf ef.authenticated, cookiesEnc := cookiesOf ef.encrypted,
    cookiesUntr := cookiesOf ef.untrusted,
    rrAuth := hasRefIdResp ef.authenticated, rrUntr := hasRefIdResp ef.untrusted,
    leap := h.leap.index, precision := i8 h.precision,
    rootDelay := durKey h.rootDelay, rootDisp := durKey h.rootDispersion,
    recvTs := h.receiveTs, xmitTs := h.transmitTs }

def record5 (h : HeaderV5) (ef : EFData) : Pkt :=
  { version := 5, mode := h.mode, stratum := h.stratum, poll := i8 h.poll,
    kiss := kissOf (beNat (h.serverCookie.take 4)),
    refid := REFID_NONE, refTs := 0, origin := beNat h.clientCookie,
    uidAuth := uidsOf ef.authenticated, uidEnc := uidsOf ef.encrypted, uidUntr := uidsOf ef.untrusted,
    authnak := h.flags.authnak,
    cookiesAuth := cookiesOf ef.authenticated, cookiesEnc := cookiesOf ef.encrypted,
    cookiesUntr := cookiesOf ef.untrusted,
    rrAuth := hasRefIdResp ef.authenticated, rrUntr := hasRefIdResp ef.untrusted,
    leap := h.leap.index, precision := i8 h.precision,
    rootDelay := durKey h.rootDelay, rootDisp := durKey h.rootDispersion,
    recvTs := h.receiveTs, xmitTs := h.transmitTs }

/-- the abstract packet record of a parsed packet -/
def recordOfPacket (p : Packet) : Pkt :=
  match p.header with
  | .v3 h => record34 3 h p.ef
  | .v4 h => record34 4 h p.ef
  | .v5 h => record5 h p.ef

/-- `match NtpPacket::deserialize(..) { Ok((packet, _)) => packet, Err(_) => ignore }` -/
def recordOfParse : ParseOut → Option Pkt
  | .ok p _ => some (recordOfPacket p)
  | _ => none

/-- the cipher context of a source: its s2c key if it is an NTS source -/
def ctxOf (s2c : Option Bytes) : Ctx :=
  match s2c with
  | some k => .key k
  | none => .noCipher

/-- `NtpSource::handle_incoming` on bytes (code with the F-C07 fix) -/
def incomingBytes (dec : Dec) (s2c : Option Bytes) (s : State) (now : Nat) (data : Bytes) (sendTs recvTs : Nat)
    (bloomAfter : Option Bool) : State × InOut :=
  handleIncoming s now (recordOfParse (parse dec (ctxOf s2c) data)) sendTs recvTs bloomAfter

end NtpVerif.SourceBytes
