/-
Executable model of the WHOLE clock controller `KalmanClockController`
(`ntp-proto/src/algorithm/kalman/mod.rs`): `source_message` → `update_clock` → `select` → `combine` →
steering decision → post-steer bookkeeping, and `time_update`, `source_update`, `add_source`,
`remove_source`.  It COMPOSES the cluster models instead of re-modelling them:

  Model/Select      `select`                                    (select cluster)
  Model/Leap        `vote_leap`                                 (select cluster)
  Model/Kalman2     `KalmanState::merge`, `add_server_dispersion`, determinant   (kfilter cluster, at F64)
  Model/SourceFilter `KalmanState::{progress_time, process_offset_steering, process_frequency_steering}`,
                    `NtpDuration::to_seconds`, timestamp arithmetic                (kfilter cluster)
  Model/Steer       `check_offset_steer`, `steer_offset`, `change_desired_frequency`, `steer_frequency`, the
                    `if … steer_offset … else if … steer_frequency` decision (`ctrlUpdate`)   (this cluster)

Rust (mod.rs / combiner.rs / system.rs)                        Model
  SourceSnapshot (period = None)                                 Snap
  sources: HashMap<ClockId, (Option<SourceSnapshot>, bool)>      Ctrl.srcs : List (Nat × Entry), IN ITERATION ORDER
  combiner.rs `combine`                                          combine  (estimate, used sources sorted by determinant
                                                                 with `total_cmp`, minimum delay, leap vote)
  update_clock                                                   updateClock
  the loops `for (state, _) in self.sources.values_mut()`        steerSources (after a step / a frequency change)
  TimeSnapshot (the fields the controller writes)                TimeData (+ `Steer.St.acc` = accumulated_steps)
  TimeSnapshot::root_dispersion (with the F-C22b clamp)          rootDispersion
  NtpClock calls                                                 Call (every argument)
  InternalStateUpdate                                            Pub (source_message, used_sources, time_snapshot,
                                                                 presence of next_update)
  source_message / time_update / source_update / add_source /
  add_one_way_source / remove_source                             step (Msg)

ENVIRONMENT INPUTS (not computed by the model, because Rust does not specify them):
  * the iteration order of the `HashMap` (std's `RandomState`): `Ctrl.srcs` is kept in the order the
    implementation iterates; `Msg.add` carries the new order, read off the implementation (the order only
    changes on insert/remove).  All theorems quantify over every order.
  * the `NtpTimestamp` the clock returns from `set_frequency` (`Msg.*.ft`).

Periodic sources (`period = Some(p)`: PPS / sock one-way sources) ARE modelled: they do not vote in `select`
(`Cand.periodic`) but can be in its output, `combine` merges them like any other snapshot, and
`KalmanState::correct_periodicity` (`correctPeriodicity`) is applied after `progress_time` and
`process_offset_steering`, as in source.rs.  Its two `while` loops are run with a fuel of 2^20 iterations; an
offset more than 2^20 periods away (or a non-terminating loop: period 0, or offset ≥ 2^53 periods) is outside the
model — the stream keeps |offset| / period below 10^4.
`next_update` is modelled by value: `Duration::from_secs_f64` = round-half-even to nanoseconds (`durationNanos`).
Not modelled: log output.  The store of the message happens BEFORE the "another filter is ahead" test of
`update_clock` (as in the code; cf. Model/CtrlLoop and C37.message_always_stored).
Every Rust panic site on the path is an explicit `End.panic`; `process::exit` is `End.exit`.
-/
import NtpVerif.Model.Steer
import NtpVerif.Model.Select
import NtpVerif.Model.SourceFilter

namespace NtpVerif.Controller
open NtpVerif.Kalman2 NtpVerif.Leap NtpVerif.Wrap
open NtpVerif.SourceFilter (KT progressTime kOffsetSteer kFreqSteer durToSeconds tsSub)
open NtpVerif.Steer (End)

/-- `SourceSnapshot` -/
structure Snap where
  idx : Nat
  k : KT
  wander : F64
  delay : F64
  period : Option F64
  srcUnc : Int        -- source_uncertainty
  srcDelay : Int      -- source_delay
  leap : LI
  lastUpdate : Nat
deriving Repr

structure Entry where
  snap : Option Snap
  usable : Bool
deriving Repr

structure Cfg where
  steer : Steer.Cfg
  sel : Select.Cfg
  ignoreDispersion : Bool     -- algo_config.ignore_server_dispersion
  initialWander : F64         -- algo_config.initial_wander
deriving Repr

/-- the `TimeSnapshot` fields `update_clock` writes (`accumulated_steps` lives in `Steer.St.acc`;
    `precision` and `accumulated_steps_threshold` never change) -/
structure TimeData where
  rootDelay : Int
  baseTime : Nat
  base : F64
  linear : F64
  quadratic : F64
  cubic : F64
  leap : LI
deriving Repr

def TimeData.init : TimeData :=
  { rootDelay := 0, baseTime := 0, base := F64.zero, linear := F64.zero, quadratic := F64.zero,
    cubic := F64.zero, leap := .unknown }

structure Ctrl where
  srcs : List (Nat × Entry)
  st : Steer.St
  td : TimeData
deriving Repr

def Ctrl.init (kernelFreq : F64) : Ctrl :=
  { srcs := [], st := Steer.initSt kernelFreq, td := TimeData.init }

/-- every call on `NtpClock`, with every argument -/
inductive Call where
  | disable
  | step (d : Int)
  | setFreq (f : F64)
  | errorEstimate (dispersion delay : Int)
  | status (l : LI)
deriving Repr, DecidableEq

/-- `KalmanControllerMessageInner` -/
inductive SrcMsg where
  | step (steer : F64)
  | freqChange (steer : F64) (time : Nat)
deriving Repr, DecidableEq

/-- `InternalStateUpdate` -/
structure Pub where
  srcMsg : Option SrcMsg
  used : Option (List Nat)
  snapshot : Option (TimeData × Int)     -- time_snapshot (with accumulated_steps)
  nextUpdate : Option Nat                -- `next_update`, in nanoseconds
deriving Repr

def Pub.none : Pub := { srcMsg := Option.none, used := Option.none, snapshot := Option.none, nextUpdate := Option.none }

/-! ### periodicity and durations -/

def two : F64 := ⟨0x4000000000000000⟩

/-- `while state[0] > period / 2.0 { state = state - [period, 0.0] }` with fuel -/
def wrapDown (p : F64) : Nat → KState F64 → KState F64
  | 0, k => k
  | n + 1, k =>
    if F64.gt k.x.x0 (p / two) then wrapDown p n { k with x := { x0 := k.x.x0 - p, x1 := k.x.x1 - F64.zero } }
    else k

/-- `while state[0] < -period / 2.0 { state = state + [period, 0.0] }` with fuel -/
def wrapUp (p : F64) : Nat → KState F64 → KState F64
  | 0, k => k
  | n + 1, k =>
    if F64.lt k.x.x0 (F64.neg p / two) then wrapUp p n { k with x := { x0 := k.x.x0 + p, x1 := k.x.x1 + F64.zero } }
    else k

def periodFuel : Nat := 1048576

/-- `KalmanState::correct_periodicity` -/
def correctPeriodicity (k : KState F64) : Option F64 → KState F64
  | none => k
  | some p => wrapUp p periodFuel (wrapDown p periodFuel k)

/-- `KalmanState::progress_time(time, wander, period)` -/
def progressTimeP (k : KT) (time : Nat) (wander : F64) (period : Option F64) : KT :=
  if SourceFilter.isBefore time k.time then k
  else
    let k' := progressTime k time wander
    { k' with s := correctPeriodicity k'.s period }

/-- `KalmanState::process_offset_steering(steer, period)`; `none` = `from_seconds` `debug_assert!` -/
def offsetSteerP (k : KT) (steer : F64) (period : Option F64) : Option KT :=
  (kOffsetSteer k steer).map fun k' => { k' with s := correctPeriodicity k'.s period }

/-- `KalmanState::process_frequency_steering(time, steer, wander, period)` -/
def freqSteerP (k : KT) (time : Nat) (steer wander : F64) (period : Option F64) : KT :=
  let k' := progressTimeP k time wander period
  { k' with s := { k'.s with x := { x0 := k'.s.x.x0 - F64.zero, x1 := k'.s.x.x1 - steer } } }

/-- `Duration::from_secs_f64(x)` in nanoseconds: round half to even; `none` = panic (negative, NaN, ≥ 2^64 s) -/
def durationNanos (x : F64) : Option Nat :=
  if F64.lt x F64.zero then none else
  let bits := x.bits.toNat
  let mant := bits % 4503599627370496 + 4503599627370496
  let e := (bits / 4503599627370496) % 2048
  if e ≥ 1087 then none
  else if e < 992 then some 0
  else if e ≥ 1075 then some (mant * 2 ^ (e - 1075) * 1000000000)
  else
    let num := mant * 1000000000
    let sh := 1075 - e
    let q := num / 2 ^ sh
    let rem := num % 2 ^ sh
    let half := 2 ^ (sh - 1)
    some (if rem > half ∨ (rem = half ∧ q % 2 = 1) then q + 1 else q)

/-! ### combine -/

def toCand (s : Snap) : Select.Cand :=
  { idx := s.idx, offset := s.k.s.x.x0, var := s.k.s.P.a00, delay := s.delay, periodic := s.period.isSome, leap := s.leap }

/-- the state a snapshot contributes to the merge -/
def sourceEstimate (cfg : Cfg) (s : Snap) : KState F64 :=
  if cfg.ignoreDispersion then s.k.s else addServerDispersion s.k.s (durToSeconds s.srcUnc)

/-- `estimate = first; for snapshot in rest { estimate = estimate.merge(&source_estimate) }` -/
def mergeAll (cfg : Cfg) (first : KState F64) (rest : List Snap) : KState F64 :=
  rest.foldl (fun e s => merge e (sourceEstimate cfg s)) first

/-- `used_sources.sort_by(|a, b| a.1.total_cmp(&b.1))` (stable) then the ids -/
def usedSources (cfg : Cfg) (sel : List Snap) : List Nat :=
  ((sel.map fun s => (s.idx, (sourceEstimate cfg s).P.det)).mergeSort
    (fun a b => F64.totalLe a.2 b.2)).map (·.1)

/-- `NtpDuration::from_seconds(v.delay) + v.source_delay` (saturating add); `none` = `debug_assert!` -/
def snapDelay (s : Snap) : Option Int :=
  (Steer.fromSeconds s.delay).map fun d => satI64 (d + s.srcDelay)

/-- `.min()` over the selection (`Iterator::min` on `Ord`) -/
def minDelay : List Snap → Option (Option Int)
  | [] => some none
  | s :: r =>
    match snapDelay s, minDelay r with
    | some d, some none => some (some d)
    | some d, some (some m) => some (some (if m < d then m else d))
    | _, _ => none

structure Combined where
  est : KState F64
  used : List Nat
  delay : Int
  leap : Vote
deriving Repr

inductive CombineOut where
  | none                      -- empty selection
  | panic
  | some (c : Combined)
deriving Repr

/-- `combine` -/
def combine (cfg : Cfg) (sel : List Snap) : CombineOut :=
  match sel with
  | [] => .none
  | first :: rest =>
    let est := mergeAll cfg (sourceEstimate cfg first) rest
    match minDelay sel with
    | some (some d) =>
      match voteLeap (sel.map (·.leap)) with
      | .panic => .panic
      | v => .some { est := est, used := usedSources cfg sel, delay := d, leap := v }
    | _ => .panic

/-! ### the source map -/

def remove (m : List (Nat × Entry)) (id : Nat) : List (Nat × Entry) := m.filter (fun p => p.1 ≠ id)

def hasKey (m : List (Nat × Entry)) (id : Nat) : Bool := m.any (fun p => p.1 == id)

def modify (m : List (Nat × Entry)) (id : Nat) (f : Entry → Entry) : List (Nat × Entry) :=
  m.map (fun p => (p.1, if p.1 = id then f p.2 else p.2))

def mapSnaps (m : List (Nat × Entry)) (f : Snap → Snap) : List (Nat × Entry) :=
  m.map (fun p => (p.1, { p.2 with snap := p.2.snap.map f }))

/-- reorder the map to the iteration order `order` reported by the implementation (keys not in `order`
    are dropped — does not happen: the harness reports all keys) -/
def reorder (m : List (Nat × Entry)) (order : List Nat) : List (Nat × Entry) :=
  order.filterMap (fun k => (m.find? (fun p => p.1 == k)))

/-- snapshots of all entries that have one -/
def snaps (m : List (Nat × Entry)) : List Snap := m.filterMap (fun p => p.2.snap)

/-- `candidates`: usable entries that have a snapshot, in iteration order -/
def candidates (m : List (Nat × Entry)) : List Snap :=
  m.filterMap (fun p => if p.2.usable then p.2.snap else none)

/-- after `step_clock`: `state.process_offset_steering(change, None)` for every stored snapshot;
    `none` = the `from_seconds` `debug_assert!` inside it -/
def offsetSteerAll (m : List (Nat × Entry)) (change : F64) : Option (List (Nat × Entry)) :=
  match SourceFilter.durFromSeconds change with
  | none => if (snaps m).isEmpty then some m else none
  | some _ =>
    some (mapSnaps m fun s => match offsetSteerP s.k change s.period with
      | some k => { s with k := k }
      | none => s)

/-- after `set_frequency`: `process_frequency_steering(freq_update, actual_change, wander, None)` -/
def freqSteerAll (m : List (Nat × Entry)) (time : Nat) (actual : F64) : List (Nat × Entry) :=
  mapSnaps m fun s => { s with k := freqSteerP s.k time actual s.wander s.period }

/-! ### steering with bookkeeping -/

/-- the `change` handed to `steer_offset` by `update_clock` -/
def offsetChange (cfg : Steer.Cfg) (off ovar : F64) : F64 :=
  off - F64.sqrt ovar * cfg.steerOffsetLeftover * Steer.signum off

/-- `actual_change` of `steer_frequency` -/
def actualChange (oldFo newFo : F64) : F64 := (F64.one + newFo) / (F64.one + oldFo) - F64.one

def evCall : Steer.Ev → Option Call
  | .disable => some .disable
  | .step d => some (.step d)
  | .setFreq f => some (.setFreq f)
  | .slew _ _ => none

/-- the clock calls of a list of steering events (a started slew is not a clock call by itself) -/
def evCalls (evs : List Steer.Ev) : List Call := evs.filterMap evCall

/-- the source adjustments and the `source_message` that belong to the steering events of ONE call:
    `change` is the offset change of a step, `oldFo` the frequency offset before the call, `ft` the time the
    clock returned from `set_frequency` -/
def bookkeep (m : List (Nat × Entry)) (change oldFo : F64) (ft : Nat) :
    List Steer.Ev → Option (List (Nat × Entry) × Option SrcMsg × Option Nat)
  | [] => some (m, none, none)
  | .step _ :: r =>
    match offsetSteerAll m change with
    | none => none
    | some m' =>
      match bookkeep m' change oldFo ft r with
      | none => none
      | some (m'', _, nu) => some (m'', some (.step change), nu)
  | .setFreq f :: r =>
    let a := actualChange oldFo f
    match bookkeep (freqSteerAll m ft a) change oldFo ft r with
    | none => none
    | some (m'', _, nu) => some (m'', some (.freqChange a ft), nu)
  | .slew fr _ :: r =>
    match bookkeep m change oldFo ft r with
    | none => none
    | some (m'', sm, _) => some (m'', sm, durationNanos (F64.abs change / fr))
  | .disable :: r => bookkeep m change oldFo ft r

/-- `TimeSnapshot::root_dispersion(now)`; `none` = `from_seconds` `debug_assert!` (NaN / infinite) -/
def rootDispersion (td : TimeData) (now : Nat) : Option Int :=
  let t := durToSeconds (tsSub now td.baseTime)
  Steer.fromSeconds
    (F64.sqrt (F64.max (td.base + t * td.linear + t * t * td.quadratic + t * t * t * td.cubic) F64.zero))

/-- `selection.iter().map(|v| v.wander).fold(None, |v, a| Some(v.map_or(a, |b| b.max(a))))
      .unwrap_or(initial_wander)` -/
def maxWander (cfg : Cfg) (sel : List Snap) : F64 :=
  match sel with
  | [] => cfg.initialWander
  | s :: r => r.foldl (fun b x => F64.max b x.wander) s.wander

structure Out where
  ctrl : Ctrl
  /-- the steering events (`Model/Steer`) of this call; `calls` starts with their clock calls -/
  evs : List Steer.Ev
  calls : List Call
  fin : End
  pub : Pub
  /-- the input of the steering model (`Model/Steer`) this call amounts to; `none` when the call ended
      before the steering decision (panic in `select` / `combine`) -/
  inp : Option Steer.Input
deriving Repr

def snapshotOf (c : Ctrl) : TimeData × Int := (c.td, c.st.acc)

/-- `update_clock(time)`; `ft` = what the clock returns from `set_frequency` -/
def updateClock (cfg : Cfg) (c : Ctrl) (time ft : Nat) : Out :=
  -- "ensure all filters represent the same (current) time"
  if (snaps c.srcs).any (fun s => tsSub time s.k.time < 0) then
    ⟨c, [], [], .ok, { Pub.none with snapshot := some (snapshotOf c) }, some .noConsensus⟩
  else
    let srcs := mapSnaps c.srcs fun s => { s with k := progressTimeP s.k time s.wander s.period }
    let c := { c with srcs := srcs }
    let cands := candidates srcs
    match Select.select cfg.sel (cands.map toCand) with
    | .panic => ⟨c, [], [], .panic, Pub.none, none⟩
    | .sel chosen =>
      let sel := cands.filter (fun s => chosen.any (fun x => x.idx == s.idx))
      match combine cfg sel with
      | .panic => ⟨c, [], [], .panic, Pub.none, none⟩
      | .none => ⟨c, [], [], .ok, { Pub.none with snapshot := some (snapshotOf c) }, some .noConsensus⟩
      | .some comb =>
        let off := comb.est.x.x0
        let freq := comb.est.x.x1
        let ovar := comb.est.P.a00
        let fvar := comb.est.P.a11
        let inp := Steer.Input.estimate off freq ovar fvar
        let r := Steer.ctrlUpdate cfg.steer c.st off freq ovar fvar
        let calls := evCalls r.evs
        match r.fin with
        | .ok =>
          match bookkeep srcs (offsetChange cfg.steer off ovar) c.st.freqOffset ft r.evs with
          | none => ⟨{ c with st := r.st }, r.evs, calls, .panic, Pub.none, some inp⟩
          | some (srcs', srcMsg, nu) =>
            let td : TimeData :=
              { c.td with rootDelay := comb.delay, baseTime := time, base := comb.est.P.a00,
                          linear := comb.est.P.a01, quadratic := comb.est.P.a11, cubic := maxWander cfg sel }
            match rootDispersion td time with
            | none => ⟨{ srcs := srcs', st := r.st, td := td }, r.evs, calls, .panic, Pub.none, some inp⟩
            | some disp =>
              let (post, leap) := match comb.leap with
                | .some l => ([Call.status l], l)
                | _ => ([], td.leap)
              let c' : Ctrl := { srcs := srcs', st := r.st, td := { td with leap := leap } }
              ⟨c', r.evs, calls ++ [Call.errorEstimate disp td.rootDelay] ++ post, .ok,
               { srcMsg := srcMsg, used := some comb.used, snapshot := some (snapshotOf c'), nextUpdate := nu },
               some inp⟩
        | e => ⟨{ c with st := r.st }, r.evs, calls, e, Pub.none, some inp⟩

/-- the controller's entry points -/
inductive Msg where
  /-- `add_source` / `add_one_way_source(period = None)`; `order` = the map's iteration order afterwards -/
  | add (id : Nat) (order : List Nat)
  | remove (id : Nat) (order : List Nat)
  | usable (id : Nat) (b : Bool)
  | source (id : Nat) (snap : Snap) (ft : Nat)
  | timeUpdate (ft : Nat)
deriving Repr

def step (cfg : Cfg) (c : Ctrl) : Msg → Out
  | .add id order =>
    ⟨{ c with srcs := reorder ((id, ⟨none, false⟩) :: remove c.srcs id) order }, [], [], .ok, Pub.none,
     some .noConsensus⟩
  | .remove id order =>
    ⟨{ c with srcs := reorder (remove c.srcs id) order }, [], [], .ok, Pub.none, some .noConsensus⟩
  | .usable id b =>
    ⟨{ c with srcs := modify c.srcs id (fun e => { e with usable := b }) }, [], [], .ok, Pub.none,
     some .noConsensus⟩
  | .source id snap ft =>
    if hasKey c.srcs id then
      updateClock cfg { c with srcs := modify c.srcs id (fun e => { e with snap := some snap }) } snap.lastUpdate ft
    else ⟨c, [], [], .ok, Pub.none, some .noConsensus⟩        -- "Update from non-existing source"
  | .timeUpdate ft =>
    let r := Steer.ctrlStep cfg.steer c.st .timeUpdate
    match r.fin with
    | .ok =>
      match bookkeep c.srcs F64.zero c.st.freqOffset ft r.evs with
      | none => ⟨{ c with st := r.st }, r.evs, evCalls r.evs, .panic, Pub.none, some .timeUpdate⟩
      | some (srcs', srcMsg, nu) =>
        ⟨{ c with srcs := srcs', st := r.st }, r.evs, evCalls r.evs, .ok,
         { Pub.none with srcMsg := srcMsg, nextUpdate := nu }, some .timeUpdate⟩
    | e => ⟨{ c with st := r.st }, r.evs, evCalls r.evs, e, Pub.none, some .timeUpdate⟩

/-- a run: the outputs of every call up to and including the first that does not end `ok`, each with
    the `in_startup` flag the call started with -/
def run (cfg : Cfg) (c : Ctrl) : List Msg → List (Bool × Out)
  | [] => []
  | m :: ms =>
    let o := step cfg c m
    match o.fin with
    | .ok => (c.st.inStartup, o) :: run cfg o.ctrl ms
    | _ => [(c.st.inStartup, o)]

end NtpVerif.Controller
