/-
Model of `ntp-proto/src/cookiestash.rs` (`CookieStash`) and of the cookie-count computation in
`NtpSource::handle_timer` (`ntp-proto/src/source.rs`).  Import-free.

Rust:                                    Model:
  cookies: [Vec<u8>; MAX_COOKIES]          cookies : List Cookie   (length = MAX_COOKIES by `WF`)
  read, valid : usize                      read, valid : Nat
  store(&mut self, c)                      store s c : Stash
  get(&mut self) -> Option<Vec<u8>>        get s : Stash × Out     (`Out.panic` = index out of bounds)
  gap(&self) -> u8                         gap s : Nat  (the `as u8` truncation is explicit)
-/
import NtpVerif.Gen.Consts

namespace NtpVerif.CookieStash

abbrev Cookie := List UInt8

structure Stash where
  cookies : List Cookie
  read : Nat
  valid : Nat
deriving Repr, DecidableEq

/-- `CookieStash::default()` -/
def init : Stash := { cookies := List.replicate Gen.MAX_COOKIES [], read := 0, valid := 0 }

inductive Out where
  | none
  | some (c : Cookie)
  | panic            -- array index out of bounds / `% 0`
deriving Repr, DecidableEq

/-- `CookieStash::store`.  (`self.cookies[wpos] = cookie` panics when `wpos` is out of range; with
    `List.set` an out-of-range write is a no-op, so `storeChecked` reports that case separately.) -/
def store (s : Stash) (c : Cookie) : Stash :=
  let n := s.cookies.length
  let wpos := (s.read + s.valid) % n
  let cookies := s.cookies.set wpos c
  if s.valid < n then
    { cookies := cookies, read := s.read, valid := s.valid + 1 }
  else
    { cookies := cookies, read := (s.read + 1) % n, valid := s.valid }

/-- `store` with its panic sites explicit: `% 0`, index out of bounds, and the `debug_assert!`. -/
def storeChecked (s : Stash) (c : Cookie) : Option Stash :=
  let n := s.cookies.length
  if n = 0 then none
  else if ¬ ((s.read + s.valid) % n < n) then none
  else if ¬ (s.valid < n) ∧ s.valid ≠ n then none
  else some (store s c)

/-- `CookieStash::get` -/
def get (s : Stash) : Stash × Out :=
  if s.valid = 0 then (s, .none)
  else
    match s.cookies[s.read]? with
    | Option.none => (s, .panic)
    | Option.some c =>
      let n := s.cookies.length
      ({ cookies := s.cookies.set s.read [], read := (s.read + 1) % n, valid := s.valid - 1 }, .some c)

/-- `CookieStash::gap`: `(self.cookies.len() - self.valid) as u8` (usize subtraction panics on
    underflow in test builds: `none`). -/
def gap (s : Stash) : Option Nat :=
  if s.valid ≤ s.cookies.length then some ((s.cookies.length - s.valid) % 256) else none

def len (s : Stash) : Nat := s.valid

/-- The number of cookie-or-placeholder fields `handle_timer` asks for, given the gap *after* taking
    the cookie for this request and that cookie's length:
    `gap.min(((buffer.len() - 300) / cookie.len().max(1)).min(u8::MAX as usize) as u8)`. -/
def newCookies (gapAfter cookieLen : Nat) : Nat :=
  min gapAfter (min ((Gen.SOURCE_BUFFER_LEN - Gen.COOKIE_MARGIN) / (max cookieLen 1)) 255)

/-- Outcome of the NTS branch of `handle_timer` as far as cookies are concerned. -/
inductive TimerOut where
  | reset                               -- no cookie, or `new_cookies == 0`
  | send (cookie : Cookie) (n : Nat)    -- request carrying `cookie` and `n - 1` placeholders
  | panic
deriving Repr, DecidableEq

def timerCookies (s : Stash) : Stash × TimerOut :=
  match get s with
  | (s', .none) => (s', .reset)
  | (s', .panic) => (s', .panic)
  | (s', .some c) =>
    match gap s' with
    | Option.none => (s', .panic)
    | Option.some g =>
      let n := newCookies g c.length
      if n = 0 then (s', .reset) else (s', .send c n)

/-! ### Abstract specification: a bounded FIFO queue -/

namespace Spec

abbrev Queue := List Cookie

def cap : Nat := 8

def store (q : Queue) (c : Cookie) : Queue :=
  let q' := q ++ [c]
  if q'.length > cap then q'.tail else q'

def get (q : Queue) : Queue × Option Cookie := (q.tail, q.head?)

def gap (q : Queue) : Nat := cap - q.length

end Spec

/-- abstraction function: the `valid` cookies starting at `read`, oldest first -/
def abs (s : Stash) : Spec.Queue :=
  (List.range s.valid).map fun i => (s.cookies[(s.read + i) % s.cookies.length]?).getD []

/-- representation invariant -/
def WF (s : Stash) : Prop :=
  s.cookies.length = 8 ∧ s.read < 8 ∧ s.valid ≤ 8

instance (s : Stash) : Decidable (WF s) := by unfold WF; infer_instance

end NtpVerif.CookieStash
