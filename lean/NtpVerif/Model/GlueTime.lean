/-
`NtpDuration::from_seconds` / `to_seconds` (ntp-proto/src/time_types.rs) as used by the daemon glue
(C38 duration serde, C39 step thresholds, C40 sample offsets).  Import-free (core + Basic/*).

A duration is its raw `i64` (units of 2^-32 s) as an `Int`.  The `debug_assert!` at the head of
`from_seconds` and the `unreachable!()` arm of its `match` are explicit outcomes, so "never panics" is a
theorem about the callers.  Float arithmetic (`floor`, `-`, `*`, `as i64`) is the hardware's (uninterpreted in
proofs): the theorems hold for whatever bits it returns.
-/
import NtpVerif.Basic.F64
import NtpVerif.Basic.Wrap

namespace NtpVerif.GlueTime
open NtpVerif NtpVerif.Wrap

/-- `u32::MAX as f64` = 4294967295.0 -/
def U32_MAX_F : F64 := ⟨0x41efffffffe00000⟩

inductive FromSec where
  | ok (d : Int)
  | assertFail      -- `debug_assert!(!(seconds.is_nan() || seconds.is_infinite()))`
  | unreachable     -- the `_ => unreachable!()` arm
deriving Repr, DecidableEq

/-- bitwise or of two `i64` -/
def or64 (a b : Int) : Int := (Int64.ofInt a ||| Int64.ofInt b).toInt

/-- `NtpDuration::from_seconds` (test / debug profile: the `debug_assert!` is live) -/
def fromSeconds (s : F64) : FromSec :=
  if s.isNaN || s.isInf then .assertFail else
  let i := s.floor
  let f := s - i
  let ii := i.toI64Sat                              -- `i as i64`
  if I32_MIN ≤ ii ∧ ii ≤ I32_MAX then               -- `i32::try_from(i).is_ok()`
    -- `i << 32` cannot lose bits for an `i32`-sized `i`; `(f * u32::MAX as f64) as i64`
    .ok (or64 (ii * 4294967296) (f * U32_MAX_F).toI64Sat)
  else if ii < I32_MIN then .ok I64_MIN
  else if ii > I32_MAX then .ok I64_MAX
  else .unreachable

/-- `NtpDuration::to_seconds`: `self.duration as f64 / u32::MAX as f64` -/
def toSeconds (d : Int) : F64 := F64.ofI64 d / U32_MAX_F

end NtpVerif.GlueTime
