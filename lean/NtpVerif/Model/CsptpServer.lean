/-
Model of `statime-csptp/src/server.rs::handle_packet` (import-free).

The environment's answers are inputs: `rx` = receive timestamp handed over by `ServerSocket::recv`,
`evRes` = what `send_event` returned (`none` = error, `some t` = the send timestamp).  The result of
`send_general` is ignored by the code (`.ok()`).  Output: the datagrams handed to `send_event` /
`send_general`, in that order.
-/
import NtpVerif.Model.CsptpMsg

namespace NtpVerif.CsptpServer
open NtpVerif.PtpWire NtpVerif.Csptp

structure Out where
  event : Option Bytes      -- datagram given to `send_event`
  general : Option Bytes    -- datagram given to `send_general`
deriving DecidableEq, Repr

def Out.nothing : Out := ⟨none, none⟩

def zeroBuf (n : Nat) : Bytes := List.replicate n 0

/-- turn a non-panic error into `dflt` (the code's `let Ok(..) = .. else { return }`), keep panics -/
def orReturn {α β : Type} (r : Except Fail α) (dflt : β) (k : α → Except Fail β) : Except Fail β :=
  match r with
  | .ok a => k a
  | .error .panic => .error .panic
  | .error _ => .ok dflt

/-- `handle_packet` -/
def handlePacket (st : ServerState) (pkt : Bytes) (rx : Timestamp) (evRes : Option Timestamp) :
    Except Fail Out :=
  orReturn (Csptp.deserialize pkt) Out.nothing fun (req, reqTlvs) =>
  if ¬ isRequest req reqTlvs then .ok Out.nothing
  else
  orReturn (newResponse Gen.CSPTP_RESPONSE_BUF req reqTlvs rx st) Out.nothing fun resp =>
  orReturn (resp.serialize (zeroBuf Gen.CSPTP_MAX_MESSAGE_SIZE)) Out.nothing fun respBytes =>
  match evRes with
  | none => .ok ⟨some respBytes, none⟩
  | some sendTs =>
    -- `new_follow_up` calls `response.is_response()`, which iterates the builder-made suffix
    match TlvSet.iter resp.suffix with
    | .error _ => .error .panic
    | .ok respTlvs =>
    orReturn (newFollowUp resp respTlvs sendTs) ⟨some respBytes, none⟩ fun fu =>
    orReturn (fu.serialize (zeroBuf Gen.CSPTP_MAX_MESSAGE_SIZE)) ⟨some respBytes, none⟩ fun fuBytes =>
    .ok ⟨some respBytes, some fuBytes⟩

end NtpVerif.CsptpServer
