/-
The abstraction from the packet parser's result (`NtpVerif.Model.Packet`, wire cluster) to the request record of
the server model (`NtpVerif.Model.Server.Req`): what `handle_inner` looks at in the `NtpPacket` it obtained.
The harness computes the same abstraction from the real parser's result (`abstract_request`).
-/
import NtpVerif.Model.Packet
import NtpVerif.Model.Server

namespace NtpVerif.Server

def fieldOf : Wire.EF → Field
  | .uniqueId b => .uid b
  | .cookie b => .cookie b.length
  | .placeholder n => .placeholder n
  | .invalidEnc => .invalid
  | .draftId s => .draft s.length
  | .padding n => .padding n
  | .refIdReq pl off => .refReq off pl
  | .refIdResp b => .refResp b.length
  | .unknown ty b => .unknown ty b.length

def versionOf : Wire.Header → Nat
  | .v3 _ => 3
  | .v4 _ => 4
  | .v5 _ => 5

/-- `packet.mode() == NtpAssociationMode::Client` (NTPv5: `NtpMode::Request`) -/
def clientOf : Wire.Header → Bool
  | .v3 h => h.mode == 3
  | .v4 h => h.mode == 3
  | .v5 h => h.mode == 3

def pollOf : Wire.Header → Nat
  | .v3 h => h.poll
  | .v4 h => h.poll
  | .v5 h => h.poll

/-- transmit timestamp (NTPv5: client cookie) -/
def xmitOf : Wire.Header → Bytes
  | .v3 h => Wire.toBE 8 h.transmitTs
  | .v4 h => Wire.toBE 8 h.transmitTs
  | .v5 h => h.clientCookie

def reftOf : Wire.Header → Bytes
  | .v3 h => Wire.toBE 8 h.referenceTs
  | .v4 h => Wire.toBE 8 h.referenceTs
  | .v5 _ => []

def reqOfPacket (len fv encw : Nat) (parse : Parse) (p : Wire.Packet) (cookie : Option Wire.Cookie) : Req :=
  { len := len, fv := fv, parse := parse, version := versionOf p.header, client := clientOf p.header,
    poll := pollOf p.header, xmit := xmitOf p.header, reft := reftOf p.header,
    untrusted := p.ef.untrusted.map fieldOf, auth := p.ef.authenticated.map fieldOf,
    enc := p.ef.encrypted.map fieldOf, cookie := cookie.map (·.alg), encw := encw,
    mac := (match p.mac with
      | some m => 4 + m.mac.length
      | none => 0),
    draftOk := (match p.header with
      | .v5 _ => decide (Wire.draftIdOf p.ef = some Wire.draftVersion)
      | _ => true) }

def reqNone (len fv : Nat) (parse : Parse) : Req :=
  { len := len, fv := fv, parse := parse, version := 0, client := false, poll := 0, xmit := [], reft := [],
    untrusted := [], auth := [], enc := [], cookie := none, encw := 0, mac := 0 }

/-- the request record for a datagram, through the parser model with the server's key set as cipher provider.
    `fv` (`fallback_message_version`) and `encw` only feed the statistics entry / the size accounting. -/
def reqOf (dec : Wire.Dec) (ks : Wire.KeySet) (data : Bytes) (fv encw : Nat) : Req :=
  match Wire.parse dec (.keyset ks) data with
  | .ok p cookie => reqOfPacket data.length fv encw .ok p cookie
  | .decryptErr p => reqOfPacket data.length fv encw .dec p none
  | .err _ => reqNone data.length fv .err
  | .panic => reqNone data.length fv .panic
  | .fuel => reqNone data.length fv .panic

/-- octets of the framed NTS authenticator fields (type 0x0404) in an item stream -/
def encItems : List Wire.Item → Nat
  | [] => 0
  | .field _ ty _ wl :: r => (if ty = Wire.tyEncrypted then wl else 0) + encItems r
  | _ :: r => encItems r

/-- `Req.encw` computed from the datagram itself: the wire lengths of the NTS authenticator fields the parser's
    field streamer frames (NTPv4 / NTPv5; NTPv3 packets have no extension fields) -/
def encwOf (data : Bytes) : Nat :=
  match data with
  | [] => 0
  | b0 :: _ =>
    let v := (b0.toNat / 8) % 8
    if v = 4 then encItems (Wire.stream (data.drop 48) (Wire.macCutoff .v4) Gen.EF_V4_UNENCRYPTED_MINIMUM_SIZE .v4)
    else if v = 5 then encItems (Wire.stream (data.drop 48) (Wire.macCutoff .v5) Gen.EF_V4_UNENCRYPTED_MINIMUM_SIZE .v5)
    else 0

/-- the request record for a datagram, every component computed from the bytes -/
def reqOfB (dec : Wire.Dec) (ks : Wire.KeySet) (data : Bytes) (fv : Nat) : Req :=
  reqOf dec ks data fv (encwOf data)

end NtpVerif.Server
