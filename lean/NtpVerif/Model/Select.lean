/-
Model of `select` (`ntp-proto/src/algorithm/kalman/select.rs`).  Import-free (core + Basic.F64 + Model.Leap).

Rust:                                              Model:
  SourceSnapshot (the fields `select` reads)         Cand  (idx = `index`, offset = `state.offset()`,
                                                           var = `state.offset_variance()`, delay, periodic =
                                                           `period.is_some()`, leap = `leap_indicator`)
  SynchronizationConfig.minimum_agreeing_sources     Cfg.minAgree
  AlgorithmConfig.{range_statistical_weight,         Cfg.{wStat, wDelay, maxUnc}
     range_delay_weight, maximum_source_uncertainty}
  Vec<(f64, BoundType)>                              List Bound
  bounds.sort_by(|a, b| a.0.total_cmp(&b.0))         List.mergeSort by `F64.totalLe` (both are stable sorts by the
                                                     same total preorder, hence produce the same list)
  the sweep loop with `cur += 1` / `cur -= 1`        sweep (the `usize` subtraction is checked: `none`)
  assert_eq!(maxlow, maxhigh)                        Out.panic
  the final `filter`                                 inFinal
Arithmetic (`* + - sqrt`) is delegated to the hardware (uninterpreted in proofs); every comparison is the
bit-level IEEE comparison of `Basic.F64`.
-/
import NtpVerif.Basic.F64
import NtpVerif.Model.Leap

namespace NtpVerif.Select
open NtpVerif.Leap

structure Cand where
  idx : Nat
  offset : F64
  var : F64
  delay : F64
  periodic : Bool
  leap : LI
deriving Repr, DecidableEq

structure Cfg where
  minAgree : Nat
  wStat : F64
  wDelay : F64
  maxUnc : F64
deriving Repr

inductive BT where
  | start | stop
deriving Repr, DecidableEq

abbrev Bound := F64 × BT

/-- `snapshot.offset_uncertainty() * range_statistical_weight + snapshot.delay * range_delay_weight` -/
def radius (cfg : Cfg) (c : Cand) : F64 := F64.sqrt c.var * cfg.wStat + c.delay * cfg.wDelay

def lo (cfg : Cfg) (c : Cand) : F64 := c.offset - radius cfg c
def hi (cfg : Cfg) (c : Cand) : F64 := c.offset + radius cfg c

/-- the candidates that take part in the vote (first loop): not periodic, NOT (radius > maximum), synchronised -/
def eligible (cfg : Cfg) (c : Cand) : Bool :=
  !c.periodic && !(F64.gt (radius cfg c) cfg.maxUnc || !c.leap.isSynchronized)

/-- the `bounds` vector before sorting -/
def bounds (cfg : Cfg) : List Cand → List Bound
  | [] => []
  | c :: cs =>
    if eligible cfg c then (lo cfg c, .start) :: (hi cfg c, .stop) :: bounds cfg cs
    else bounds cfg cs

def boundLe (a b : Bound) : Bool := F64.totalLe a.1 b.1

def sortedBounds (cfg : Cfg) (cs : List Cand) : List Bound := (bounds cfg cs).mergeSort boundLe

structure Sweep where
  cur : Nat
  maxlow : Nat
  maxhigh : Nat
  maxtlow : F64
  maxthigh : F64
deriving Repr, DecidableEq

def Sweep.init : Sweep := ⟨0, 0, 0, F64.zero, F64.zero⟩

/-- one iteration of the sweep loop; `none` = `cur -= 1` underflows (overflow checks are on in test builds) -/
def sweepStep (s : Sweep) (b : Bound) : Option Sweep :=
  match b.2 with
  | .start =>
    let cur := s.cur + 1
    if cur > s.maxlow then some { s with cur := cur, maxlow := cur, maxtlow := b.1 }
    else some { s with cur := cur }
  | .stop =>
    let s1 := if s.cur > s.maxhigh then { s with maxhigh := s.cur, maxthigh := b.1 } else s
    if s.cur = 0 then none else some { s1 with cur := s.cur - 1 }

def sweep : List Bound → Sweep → Option Sweep
  | [], s => some s
  | b :: bs, s =>
    match sweepStep s b with
    | none => none
    | some s' => sweep bs s'

/-- the predicate of the final `filter` -/
def inFinal (cfg : Cfg) (s : Sweep) (c : Cand) : Bool :=
  F64.le (radius cfg c) cfg.maxUnc && F64.le (lo cfg c) s.maxthigh && F64.ge (hi cfg c) s.maxtlow
    && c.leap.isSynchronized

inductive Out where
  | panic
  | sel (l : List Cand)
deriving Repr, DecidableEq

/-- `select` -/
def select (cfg : Cfg) (cs : List Cand) : Out :=
  let bs := sortedBounds cfg cs
  match sweep bs Sweep.init with
  | none => .panic
  | some s =>
    if s.maxlow ≠ s.maxhigh then .panic       -- assert_eq!(maxlow, maxhigh)
    else if s.maxlow ≥ cfg.minAgree ∧ s.maxlow * 4 > bs.length then .sel (cs.filter (inFinal cfg s))
    else .sel []

end NtpVerif.Select
