/-
Model of `statime-csptp/src/messages.rs` and `messages/tlvs.rs` (import-free): the CSPTP restrictions on
top of the PTP wire codec, the three CSPTP TLVs and the three message constructors.

  CsptpMessage::deserialize       `Csptp.deserialize`
  is_request / is_response        `Csptp.isRequest` / `Csptp.isResponse`
  CsptpRequestTlv / ResponseTlv / StatusTlv  `RequestTlv` / `ResponseTlv` / `StatusTlv` (`tryFrom`, `toTlv`)
  new_request / new_response / new_follow_up  `Csptp.newRequest` / `newResponse` / `newFollowUp`
-/
import NtpVerif.Model.PtpWire
import NtpVerif.Gen.Consts

namespace NtpVerif.Csptp
open NtpVerif.PtpWire

def TLV_STATUS : Nat := Gen.CSPTP_TLV_STATUS
def TLV_REQUEST : Nat := Gen.CSPTP_TLV_REQUEST
def TLV_RESPONSE : Nat := Gen.CSPTP_TLV_RESPONSE
def SDO_ID : Nat := Gen.CSPTP_SDO_ID

structure RequestTlv where
  status : Bool
  altTimescale : Bool
deriving DecidableEq, Repr

/-- `CsptpRequestTlv::try_from` -/
def RequestTlv.tryFrom (t : Tlv) : Option RequestTlv :=
  if t.type = TLV_REQUEST then
    match t.value with
    | f :: _ => some ⟨bit f.toNat 0, bit f.toNat 1⟩
    | [] => none
  else none

/-- the TLV `CsptpRequestTlv::add_to` hands to the builder -/
def RequestTlv.toTlv (r : RequestTlv) : Tlv :=
  ⟨TLV_REQUEST, [UInt8.ofNat (b2n r.status + 2 * b2n r.altTimescale), 0, 0, 0]⟩

structure ResponseTlv where
  ingress : Timestamp
  correction : Int
deriving DecidableEq, Repr

/-- `CsptpResponseTlv::try_from` (`value.get(0..18)`, then the two field parsers, `.ok()?`) -/
def ResponseTlv.tryFrom (t : Tlv) : Option ResponseTlv :=
  if t.type = TLV_RESPONSE then
    if t.value.length < 18 then none
    else
      match Timestamp.deserialize t.value, t.value.drop 10 with
      | .ok ts, c0 :: c1 :: c2 :: c3 :: c4 :: c5 :: c6 :: c7 :: _ =>
        some ⟨ts, toI64 (beNat [c0, c1, c2, c3, c4, c5, c6, c7])⟩
      | _, _ => none
  else none

def ResponseTlv.toTlv (r : ResponseTlv) : Tlv :=
  ⟨TLV_RESPONSE, r.ingress.bytes ++ beBytes 8 (ofI64 r.correction)⟩

structure StatusTlv where
  priority1 : Nat
  quality : ClockQuality
  priority2 : Nat
  stepsRemoved : Nat
  utcOffset : Nat        -- raw u16 of the i16
  identity : Nat
deriving DecidableEq, Repr

/-- `CsptpStatusTlv::try_from` -/
def StatusTlv.tryFrom (t : Tlv) : Option StatusTlv :=
  if t.type = TLV_STATUS then
    if t.value.length < 18 then none
    else
      match t.value with
      | p1 :: rest =>
        match ClockQuality.deserialize rest, rest.drop 4 with
        | .ok q, p2 :: s0 :: s1 :: u0 :: u1 :: i0 :: i1 :: i2 :: i3 :: i4 :: i5 :: i6 :: i7 :: _ =>
          some { priority1 := p1.toNat, quality := q, priority2 := p2.toNat,
                 stepsRemoved := beNat [s0, s1], utcOffset := beNat [u0, u1],
                 identity := beNat [i0, i1, i2, i3, i4, i5, i6, i7] }
        | _, _ => none
      | [] => none
  else none

/-- `CsptpStatusTlv::add_to`'s TLV (`ClockQuality::serialize` can overflow in `to_primitive`) -/
def StatusTlv.toTlv (s : StatusTlv) : Except Fail Tlv := do
  let q ← s.quality.bytes
  pure ⟨TLV_STATUS, [UInt8.ofNat s.priority1] ++ q ++ [UInt8.ofNat s.priority2] ++
        beBytes 2 s.stepsRemoved ++ beBytes 2 s.utcOffset ++ beBytes 8 s.identity⟩

/-- `csptp_header` -/
def csptpHeader (domain seqId : Nat) : Header :=
  { sdoId := SDO_ID, major := 2, minor := 1, domain := domain,
    alternateMaster := false, twoStep := false, unicast := true, profile1 := false, profile2 := false,
    leap61 := false, leap59 := false, utcOffsetValid := false, ptpTimescale := false,
    timeTraceable := false, freqTraceable := false, syncUncertain := false,
    correction := 0, source := ⟨0, 0⟩, seqId := seqId, logInterval := 0x7f }

def countP (p : Tlv → Bool) (ts : List Tlv) : Nat := (ts.filter p).length

/-- `CsptpMessage::deserialize`; the returned list is `suffix.tlvs()` (empty for follow-ups, whose
    suffix the code never iterates) -/
def deserialize (buf : Bytes) : Except Fail (Message × List Tlv) := do
  let m ← Message.deserialize buf
  if m.header.sdoId ≠ SDO_ID ∨ m.header.major ≠ 2 then .error .invalid
  else
    match m.body with
    | .sync _ => do
      let tlvs ← TlvSet.iter m.suffix
      let nReq := countP (fun t => t.type = TLV_REQUEST) tlvs
      let nValidReq := countP (fun t => (RequestTlv.tryFrom t).isSome) tlvs
      let nResp := countP (fun t => t.type = TLV_RESPONSE) tlvs
      let nValidResp := countP (fun t => (ResponseTlv.tryFrom t).isSome) tlvs
      if nReq + nResp ≠ 1 ∨ nReq ≠ nValidReq ∨ nResp ≠ nValidResp then .error .invalid
      else pure (m, tlvs)
    | .followUp _ => pure (m, [])
    | _ => .error .invalid

def isSync (m : Message) : Bool := match m.body with | .sync _ => true | _ => false

/-- `is_request` (on an already validated message with its TLV list) -/
def isRequest (m : Message) (tlvs : List Tlv) : Bool :=
  isSync m && tlvs.any (fun t => t.type = TLV_REQUEST)

def isResponse (m : Message) (tlvs : List Tlv) : Bool :=
  isSync m && tlvs.any (fun t => t.type = TLV_RESPONSE)

/-- `CsptpMessage::new_request` with the caller's 8-byte buffer -/
def newRequest (domain seqId : Nat) : Except Fail Message := do
  let b ← (TlvBuilder.new 8).add (RequestTlv.toTlv ⟨true, false⟩)
  pure { header := csptpHeader domain seqId, body := .sync ⟨0, 0⟩, suffix := b.build }

/-- the parts of `CsptpState` / `TimeSnapshot` the server reads -/
structure ServerState where
  leap : Nat            -- NtpLeapIndicator: 0 NoWarning, 1 Leap61, 2 Leap59, 3 Unknown
  priority1 : Nat
  quality : ClockQuality
  priority2 : Nat
  stepsRemoved : Nat
  identity : Nat
  ptpTimescale : Bool
  timeTraceable : Bool
  freqTraceable : Bool
deriving DecidableEq, Repr

/-- `CsptpMessage::new_response(buffer[cap], request, recv_timestamp, None, …)` -/
def newResponse (cap : Nat) (req : Message) (reqTlvs : List Tlv) (rx : Timestamp) (st : ServerState) :
    Except Fail Message :=
  if ¬ isSync req then .error .invalid
  else
    match reqTlvs.findSome? RequestTlv.tryFrom with
    | none => .error .invalid
    | some rt => do
      let b ← (TlvBuilder.new cap).add (ResponseTlv.toTlv ⟨rx, req.header.correction⟩)
      let b ← if rt.status then do
                let t ← StatusTlv.toTlv { priority1 := st.priority1, quality := st.quality,
                                           priority2 := st.priority2, stepsRemoved := st.stepsRemoved,
                                           utcOffset := 0, identity := st.identity }
                b.add t
              else pure b
      pure { header := { csptpHeader req.header.domain req.header.seqId with
                           leap61 := st.leap = 1, leap59 := st.leap = 2, utcOffsetValid := false,
                           ptpTimescale := st.ptpTimescale, timeTraceable := st.timeTraceable,
                           freqTraceable := st.freqTraceable, twoStep := true },
             body := .sync ⟨0, 0⟩,
             suffix := b.build }

/-- `CsptpMessage::new_follow_up(response, send_timestamp)` -/
def newFollowUp (resp : Message) (respTlvs : List Tlv) (sendTs : Timestamp) : Except Fail Message :=
  if ¬ isResponse resp respTlvs ∨ ¬ resp.header.twoStep then .error .invalid
  else pure { header := { csptpHeader resp.header.domain resp.header.seqId with twoStep := true },
              body := .followUp sendTs, suffix := [] }

end NtpVerif.Csptp
