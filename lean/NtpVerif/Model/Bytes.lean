/-
Byte-level helpers of the packet codec model (M-WIRE, DESIGN §3).  Import-free.

Rust:                                   Model:
  &[u8]                                   Bytes = List UInt8
  u16::from_be_bytes / u32 / u64          be16 / beNat
  x.to_be_bytes()                         toBE width x
  slice.get(a..b)                         slice? bs a b        (`none` exactly when Rust returns `None`)
  &slice[a..b]   (panics out of range)    sliceP bs a b        (`.error .panic` exactly when Rust panics)
  slice[i]                                idxP bs i
  next_multiple_of_usize(x, 4)            nm4 x
  next_multiple_of_u16(x, 4)              nm4u16 x   (wrapping add on u16)
-/
namespace NtpVerif.Wire

abbrev Bytes := List UInt8

/-- the error kinds of `ParsingError` (payload of `DecryptError` is handled separately) and of `V5Error` -/
inductive PErr where
  | invalidVersion (v : Nat)
  | incorrectLength
  | malformedNtsExtensionFields
  | malformedNonce
  | malformedCookiePlaceholder
  | v5InvalidDraftIdentification
  | v5MalformedTimescale
  | v5MalformedMode
  | v5InvalidFlags
deriving Repr, DecidableEq

/-- failure of a model computation: a `ParsingError`, a Rust panic, or the model's recursion fuel running out
    (shown never to happen, `Proofs/Wire`). -/
inductive Err where
  | parse (e : PErr)
  | panic
  | fuel
deriving Repr, DecidableEq

abbrev R := Except Err

def perr {α} (e : PErr) : R α := .error (.parse e)
def rpanic {α} : R α := .error .panic

def be16 (a b : UInt8) : Nat := a.toNat * 256 + b.toNat

/-- big-endian value of a byte string -/
def beNat (bs : Bytes) : Nat := bs.foldl (fun acc b => acc * 256 + b.toNat) 0

/-- `width` big-endian bytes of `n mod 256^width` -/
def toBE : (width : Nat) → Nat → Bytes
  | 0, _ => []
  | w+1, n => UInt8.ofNat ((n / 256 ^ w) % 256) :: toBE w n

def nm4 (n : Nat) : Nat := if n % 4 = 0 then n else n + (4 - n % 4)

/-- `next_multiple_of_u16(n, 4)` with its `wrapping_add` -/
def nm4u16 (n : Nat) : Nat := if n % 4 = 0 then n else (n + (4 - n % 4)) % 65536

def zeros (n : Nat) : Bytes := List.replicate n 0

/-- `slice.get(a..b)` -/
def slice? (bs : Bytes) (a b : Nat) : Option Bytes :=
  if a ≤ b ∧ b ≤ bs.length then some ((bs.drop a).take (b - a)) else none

/-- `&slice[a..b]` -/
def sliceP (bs : Bytes) (a b : Nat) : R Bytes :=
  match slice? bs a b with
  | some s => .ok s
  | none => rpanic

/-- `slice[i]` -/
def idxP (bs : Bytes) (i : Nat) : R UInt8 :=
  match bs[i]? with
  | some b => .ok b
  | none => rpanic

end NtpVerif.Wire
