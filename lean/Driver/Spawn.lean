/- Model driver for the spawner cluster (C35, C36): line protocol on stdin/stdout.
   `drv-spawn pool`  — `PoolSpawner` bookkeeping (C35)
   `drv-spawn std`   — `StandardSpawner` bookkeeping (C36)
   `drv-spawn task`  — `spawner_task` loop with a scripted spawner or the standard spawner (C36) -/
import NtpVerif.Basic.LineIO
import NtpVerif.Model.Pool
import NtpVerif.Model.Spawner

open NtpVerif NtpVerif.LineIO

namespace Drv

/-! ### shared parsing -/

def addr? (w : String) : Option Pool.Addr :=
  match w.splitOn "." with
  | [i, p] => do
    let ip ← i.toNat?
    let port ← p.toNat?
    pure ⟨ip, port⟩
  | _ => none

def addrStr (a : Pool.Addr) : String := s!"{a.ip}.{a.port}"

def natList? (s : String) : Option (List Nat) := (splitComma s).mapM String.toNat?

def addrList? (s : String) : Option (List Pool.Addr) := (splitComma s).mapM addr?

/-- `dns=` value: `fail` → resolver error, `-` → empty answer, else a comma list -/
def dns? (s : String) : Option (Option (List Pool.Addr)) :=
  if s == "fail" then some none else (addrList? s).map some

/-! ### C35: pool -/

structure PoolSt where
  cfg : Pool.Cfg
  pool : Pool.Pool

def poolInit : PoolSt := { cfg := ⟨0, []⟩, pool := Pool.init }

def poolStep (s : PoolSt) (line : String) : PoolSt × String :=
  match words line with
  | "cfg" :: ws =>
    match kvNat? ws "count", (kv? ws "ign").bind natList? with
    | some c, some ign => ({ cfg := ⟨c, ign⟩, pool := Pool.init }, "ok")
    | _, _ => (s, "bad-op")
  | "spawn" :: ws =>
    match (kv? ws "dns").bind dns? with
    | some dns =>
      let (p, sp) := Pool.trySpawn s.cfg s.pool dns
      let shown := commaList (sp.map fun x => s!"{x.id}@{addrStr x.addr}")
      ({ s with pool := p }, s!"spawned={shown} complete={boolStr (Pool.isComplete s.cfg p)}")
    | none => (s, "bad-op")
  | "remove" :: ws =>
    match kvNat? ws "id" with
    | some id =>
      let p := Pool.removed s.pool id
      ({ s with pool := p }, s!"complete={boolStr (Pool.isComplete s.cfg p)}")
    | none => (s, "bad-op")
  | _ => (s, "bad-op")

/-! ### C36: StandardSpawner called directly -/

open NtpVerif.Spawner in
def reason? : String → Option Reason
  | "D" => some .demobilized
  | "N" => some .networkIssue
  | "U" => some .unreachable
  | _ => none

open NtpVerif.Spawner in
def reasonStr : Reason → String
  | .demobilized => "D"
  | .networkIssue => "N"
  | .unreachable => "U"

/-- `ip.port+` / `ip.port-` -/
def flagged? (w : String) : Option (Pool.Addr × Bool) :=
  if w.endsWith "+" then (addr? (w.dropEnd 1).toString).map (·, true)
  else if w.endsWith "-" then (addr? (w.dropEnd 1).toString).map (·, false)
  else none

def answer? (s : String) : Option Spawner.Answer :=
  if s == "fail" then some none else ((splitComma s).mapM flagged?).map some

/-- is a lookup visible through the rotation of the helper's list? -/
def rotationVisible : Spawner.Answer → Bool
  | none => false
  | some l =>
    let a := l.map (·.1)
    match a with
    | [] => false
    | x :: rest => decide (rest ++ [x] ≠ a)

def stdStep (s : Spawner.Std) (line : String) : Spawner.Std × String :=
  match words line with
  | ["cfg"] => (Spawner.Std.init, "ok")
  | "spawn" :: ws =>
    match (kv? ws "dns").bind answer? with
    | some ans =>
      let (s', ev, looked) := s.trySpawn ans
      let lk := if rotationVisible ans then boolStr looked else "?"
      (s', s!"spawned={optStr addrStr ev |>.replace "none" "-"} complete={boolStr s'.isComplete} lookup={lk}")
    | none => (s, "bad-op")
  | "remove" :: ws =>
    match (kv? ws "reason").bind reason? with
    | some r => let s' := s.removed r; (s', s!"complete={boolStr s'.isComplete}")
    | none => (s, "bad-op")
  | _ => (s, "bad-op")

/-! ### C36: spawner_task -/

open NtpVerif.Spawner

inductive SpCfg where
  | mock (m : Mock)
  | std (s : StdLoop SimEnv)

structure TaskSt where
  cfg : Option SpCfg
  evs : List (Nat × Ev)     -- newest first

def taskInit : TaskSt := { cfg := none, evs := [] }

def ms (n : Nat) : Nat := n * 1000000

def scriptItem? (w : String) : Option (Nat × Nat) :=
  match w.splitOn ":" with
  | [d, o] => do
    let d ← d.toNat?
    let o ← o.toNat?
    pure (ms d, o)
  | _ => none

def renderIter (it : Iter) : List String :=
  let att := match it.attempt with
    | some (s, e) =>
      match it.wake with
      | .error _ => [s!"a{s}-{e}:E"]
      | _ => [s!"a{s}-{e}:{if it.incompleteW then "0" else "1"}"]
    | none => []
  let wk := match it.wake with
    | .event t .registered => [s!"g{t}"]
    | .event t (.removed _ r) => [s!"r{t}{reasonStr r}"]
    | .event _ .idle => []
    | .timeout _ => []
    | .closed t => [s!"end{t}:ok"]
    | .error t => [s!"end{t}:err"]
  att ++ wk

def renderTrace (tr : List Iter) : String :=
  " ".intercalate (tr.flatMap renderIter ++ (if ended tr then [] else ["out-of-fuel"]))

def taskStep (s : TaskSt) (line : String) : TaskSt × String :=
  match words line with
  | "cfg" :: ws =>
    match kv? ws "spawner" with
    | some "mock" =>
      match kvNat? ws "complete", kvNat? ws "keepd", (kv? ws "script").bind (fun x => (splitComma x).mapM scriptItem?) with
      | some c, some k, some sc =>
        ({ cfg := some (.mock { complete := decide (c = 1), script := sc, keepOnDemobilize := decide (k = 1) }), evs := [] }, "ok")
      | _, _, _ => (s, "bad-op")
    | some "std" =>
      match (kv? ws "dns").bind addrList?, (kv? ws "delays").bind natList? with
      | some dns, some ds =>
        ({ cfg := some (.std { std := Std.init, env := { dns := dns, delays := ds.map ms, spawned := [] } }), evs := [] }, "ok")
      | _, _ => (s, "bad-op")
    | _ => (s, "bad-op")
  | "ev" :: ws =>
    match kvNat? ws "t", kv? ws "kind" with
    | some t, some "reg" => ({ s with evs := (ms t, .registered) :: s.evs }, "ok")
    | some t, some "idle" => ({ s with evs := (ms t, .idle) :: s.evs }, "ok")
    | some t, some "rem" =>
      match (kv? ws "reason").bind reason? with
      | some r => ({ s with evs := (ms t, .removed 0 r) :: s.evs }, "ok")
      | none => (s, "bad-op")
    | _, _ => (s, "bad-op")
  | "run" :: ws =>
    match kvNat? ws "close", s.cfg with
    | some c, some cfg =>
      let q := s.evs.reverse
      let tClose := ms c
      let fuel := fuelFor 0 tClose q
      -- the harness resolves ties (item arriving exactly at the deadline) in favour of the item
      match cfg with
      | .mock m =>
        (s, renderTrace (run PERIOD true mock tClose fuel (Loop.start 0 m) q))
      | .std st =>
        let tr := run PERIOD true stdSim tClose fuel (Loop.start 0 st) q
        let fin := finalSp PERIOD true stdSim tClose fuel (Loop.start 0 st) q
        (s, renderTrace tr ++ " spawned=" ++ commaList (fin.env.spawned.reverse.map addrStr))
    | _, _ => (s, "bad-op")
  | _ => (s, "bad-op")

/-! ### C36: SystemTask (message → removal reason → spawner) -/

def spKind? (w : String) : Option SpKind :=
  if w == "s" then some .std
  else if w.startsWith "p" then ((w.drop 1).toString.toNat?).map .pool
  else none

def sysMsg? : String → Option SysMsg
  | "D" => some .mustDemobilize
  | "N" => some .networkIssue
  | "U" => some .unreachable
  | _ => none

def countsStr (cs : List (Nat × Nat)) : String :=
  commaList ((cs.filter (·.2 > 0)).map fun x => s!"{x.1}:{x.2}")

def sysStep (s : Sys) (line : String) : Sys × String :=
  match words line with
  | "cfg" :: ws =>
    match (kv? ws "spawners").bind (fun x => (splitComma x).mapM spKind?) with
    | some kinds =>
      let (s', counts) := Sys.start kinds
      (s', s!"spawns={countsStr ((List.range counts.length).zip counts)}")
    | none => (s, "bad-op")
  | ["noop"] => (s, "ok")
  | "msg" :: ws =>
    match (kv? ws "kind").bind sysMsg?, kvNat? ws "src" with
    | some m, some src =>
      match s.msg m src with
      | some (s', owner, r, n) => (s', s!"to={owner} reason={reasonStr r} spawns={countsStr [(owner, n)]}")
      | none => (s, "no-such-source")
    | _, _ => (s, "bad-op")
  | _ => (s, "bad-op")

end Drv

def main (args : List String) : IO Unit := do
  let stdin ← IO.getStdin
  let stdout ← IO.getStdout
  match args with
  | ["pool"] => runLoop Drv.poolInit Drv.poolStep stdin stdout
  | ["std"] => runLoop Spawner.Std.init Drv.stdStep stdin stdout
  | ["task"] => runLoop Drv.taskInit Drv.taskStep stdin stdout
  | ["sys"] => runLoop (Spawner.Sys.start []).1 Drv.sysStep stdin stdout
  | _ => throw (IO.userError "usage: drv-spawn pool|std|task|sys")
