/- Model driver validating the trusted `F64` base (bit-level order + hardware-delegated arithmetic). -/
import NtpVerif.Basic.LineIO
import NtpVerif.Basic.F64

open NtpVerif NtpVerif.LineIO

def b (x : Bool) : String := if x then "1" else "0"

def stepLine (_ : Unit) (line : String) : Unit × String :=
  match words line with
  | ["cmp", a, c] =>
    match F64.ofHex? a, F64.ofHex? c with
    | some x, some y =>
      ((), s!"{b (F64.lt x y)} {b (F64.le x y)} {b (F64.eq x y)} {b (F64.totalLe x y)} {b x.isNaN} {b x.isFinite} {b x.isInf}")
    | _, _ => ((), "bad-op")
  | ["minmax", a, c] =>
    match F64.ofHex? a, F64.ofHex? c with
    | some x, some y => ((), s!"{(F64.min x y).toHex} {(F64.max x y).toHex}")
    | _, _ => ((), "bad-op")
  | ["clamp", a, l, h] =>
    match F64.ofHex? a, F64.ofHex? l, F64.ofHex? h with
    | some x, some lo, some hi =>
      ((), match F64.clamp x lo hi with | some r => r.toHex | none => "panic")
    | _, _, _ => ((), "bad-op")
  | ["arith", a, c] =>
    match F64.ofHex? a, F64.ofHex? c with
    | some x, some y => ((), s!"{(x + y).toHex} {(x - y).toHex} {(x * y).toHex} {(x / y).toHex}")
    | _, _ => ((), "bad-op")
  | ["un", a] =>
    match F64.ofHex? a with
    | some x => ((), s!"{x.sqrt.toHex} {x.floor.toHex} {x.exp.toHex} {(-x).toHex} {x.abs.toHex} {x.ceil.toHex}")
    | _ => ((), "bad-op")
  | ["conv", a] =>
    match F64.ofHex? a with
    | some x => ((), s!"{x.toI64Sat} {x.toU64Sat} {x.toU32Sat} {x.toU8Sat} {x.toI8Sat} {x.toI32Sat}")
    | _ => ((), "bad-op")
  | ["ofi", i] =>
    match i.toInt? with
    | some v => ((), (F64.ofI64 v).toHex)
    | _ => ((), "bad-op")
  | ["ofu", i] =>
    match i.toNat? with
    | some v => ((), (F64.ofU64 v).toHex)
    | _ => ((), "bad-op")
  | _ => ((), "bad-op")

def main (_args : List String) : IO Unit := do
  runLoop () stepLine (← IO.getStdin) (← IO.getStdout)
