/- Model driver for the daemon-glue cluster (C38 framing, C39 thresholds, C40 GPSd samples).
   Line protocol on stdin/stdout; stateless (every op line is self-contained). -/
import NtpVerif.Basic.LineIO
import NtpVerif.Model.Sock
import NtpVerif.Model.Config
import NtpVerif.Model.Framing

open NtpVerif NtpVerif.LineIO

namespace GlueDrv

def errStr : Sock.Err → String
  | .io => "err:IOError"
  | .slice => "err:SliceError"
  | .wrongSize n => s!"err:WrongSize {n}"
  | .wrongMagic m => s!"err:WrongMagic {m}"
  | .wrongPulse p => s!"err:WrongPulse {p}"
  | .nonFinite => "err:NonFiniteOffset"
  | .indexPanic => "panic"

/-- `deser res=<n|ioerr> buf=<hex>`: `deserialize_sample`, then `from_seconds(offset)` for accepted samples -/
def deser (ws : List String) : String :=
  match kv? ws "res", kvBytes? ws "buf" with
  | some r, some buf =>
    if buf.length ≠ Gen.SOCK_SAMPLE_SIZE then "bad-op" else
    let res? : Option (Option Nat) := if r == "ioerr" then some none else r.toNat?.map some
    match res? with
    | none => "bad-op"
    | some res =>
      match Sock.deserializeSample res buf with
      | .error e => errStr e
      | .ok s =>
        match GlueTime.fromSeconds s.offset with
        | .ok d => s!"ok off={s.offset.toHex} pulse={s.pulse} leap={s.leap} magic={s.magic} dur={d}"
        | _ => "panic"
  | _, _ => "bad-op"

/-- `dgram time=<u64> bytes=<hex>`: one datagram through the run loop -/
def dgram (ws : List String) : String :=
  match kvNat? ws "time", kvBytes? ws "bytes" with
  | some t, some bytes =>
    match Sock.processDatagram t bytes with
    | .measurement m => s!"meas sender={m.senderTs} recv={m.recvTs} leap={m.leap} rootdelay=0 rootdisp=0 prec=0 ids=1"
    | .rejected _ => "none"
    | .panic => "panic"
  | _, _ => "bad-op"


/-! #### C39 -/

def strOfHex? (h : String) : Option String :=
  (bytesOfHex? h).bind fun bs => String.fromUTF8? (ByteArray.mk bs.toArray)

/-- scalar syntax: `f:<16 hex>` `i:<dec>` `u:<dec>` `s:<hex utf8>` `b` (bool) `m` (table where a scalar is expected) -/
def scalar? (s : String) : Option Config.Scalar :=
  if s == "b" || s == "m" then some .other else
  match s.splitOn ":" with
  | ["f", h] => (F64.ofHex? h).map .float
  | ["i", d] => d.toInt?.map .int
  | ["u", d] => d.toNat?.map .uint
  | ["s", h] => (strOfHex? h).map .str
  | _ => none

def kvScalar? (part : String) : Option (String × Config.Scalar) :=
  match part.splitOn "=" with
  | [k, v] => (scalar? v).map fun sc => (k, sc)
  | _ => none

/-- value syntax: a scalar, or `t:-` / `t:k=v;k=v` -/
def val? (s : String) : Option Config.Val :=
  if s == "m" then some (.table [])          -- an empty inline table `{}` as the whole value
  else if s.startsWith "t:" then
    let r := (s.drop 2).toString
    if r == "-" then some (.table []) else
    ((r.splitOn ";").mapM kvScalar?).map .table
  else (scalar? s).map .scalar

def optInt (o : Option Int) : String := match o with | none => "none" | some d => toString d

def errName : Config.Err → String
  | .invalidValue => "InvalidValue"
  | .invalidType => "InvalidType"
  | .duplicateField => "DuplicateField"
  | .unknownField => "UnknownField"

/-- `thr <val>`: `StepThreshold::deserialize` -/
def thr (ws : List String) : String :=
  match ws with
  | [v] =>
    match val? v with
    | none => "bad-op"
    | some val =>
      match Config.thresholdOf val with
      | .ok t => s!"ok fwd={optInt t.forward} bwd={optInt t.backward}"
      | .err e => "err:" ++ errName e
      | .panic => "panic"
  | _ => "bad-op"

/-- outcome of loading the modelled fields of a configuration -/
inductive Load (α : Type) where
  | ok (a : α) | err | panic | bad

def Load.bind {α β : Type} (l : Load α) (f : α → Load β) : Load β :=
  match l with
  | .ok a => f a | .err => .err | .panic => .panic | .bad => .bad

def ofRes {α : Type} : Config.Res α → Load α
  | .ok a => .ok a | .err _ => .err | .panic => .panic

def thrField (dflt : Config.Threshold) (s : String) : Load Config.Threshold :=
  if s == "-" then .ok dflt else
  match val? s with
  | none => .bad
  | some v => ofRes (Config.thresholdOf v)

def accumField (s : String) : Load (Option Int) :=
  if s == "-" then .ok none else
  match scalar? s with
  | none => .bad
  | some sc => ofRes (Config.accumOf sc)

/-- a TOML integer read as `usize` -/
def usizeField (dflt : Nat) (s : String) : Load Nat :=
  if s == "-" || s == "" then .ok dflt else
  match s.toInt? with
  | none => .bad
  | some i => if i < 0 then .err else .ok i.toNat

def srcField (s : String) : Load Config.Src :=
  if s == "s" || s == "n" || s == "k" then .ok .one
  else if s.startsWith "p" || s.startsWith "q" then
    (usizeField Gen.CFG_DEFAULT_POOL_COUNT (s.drop 1).toString).bind fun c => .ok (.pool c)
  else .bad

def srcList : List String → Load (List Config.Src)
  | [] => .ok []
  | s :: r => (srcField s).bind fun x => (srcList r).bind fun xs => .ok (x :: xs)

def thrStr (t : Config.Threshold) : String := s!"{optInt t.forward}/{optInt t.backward}"

/-- `k=v` lookup where the value may itself contain `=` (split at the first one) -/
def kvFirst? (ws : List String) (k : String) : Option String :=
  ws.findSome? fun w => if w.startsWith (k ++ "=") then some (w.drop (k.length + 1)).toString else none

/-- `cfg single=<v|-> startup=<v|-> accum=<scalar|-> min=<int|-> src=<list|->` -/
def cfg (ws : List String) : String :=
  match kvFirst? ws "single", kvFirst? ws "startup", kvFirst? ws "accum", kvFirst? ws "min", kvFirst? ws "src" with
  | some si, some st, some ac, some mi, some sr =>
    let r : Load String :=
      (thrField Config.defaultSingle si).bind fun single =>
      (thrField Config.defaultStartup st).bind fun startup =>
      (accumField ac).bind fun accum =>
      (usizeField Gen.CFG_DEFAULT_MIN_AGREEING mi).bind fun minAgree =>
      (srcList (if sr == "-" then [] else splitComma sr)).bind fun srcs =>
      .ok s!"ok single={thrStr single} startup={thrStr startup} accum={optInt accum} count={Config.countSources srcs 0} check={boolStr (Config.checkCount srcs minAgree)}"
    match r with
    | .ok s => s | .err => "err" | .panic => "panic" | .bad => "bad-op"
  | _, _, _, _, _ => "bad-op"

/-! #### C38 -/

def readOutStr (o : Framing.ReadOut) : String :=
  match o.result with
  | .ok _ => s!"ok consumed={o.consumed} buflen={o.bufLen}"
  | .error .eof => s!"err:Eof consumed={o.consumed} buflen={o.bufLen}"
  | .error .tooLarge => s!"err:TooLarge consumed={o.consumed} buflen={o.bufLen}"
  | .error .json => s!"err:Json consumed={o.consumed} buflen={o.bufLen}"

def frameOp (op : String) (ws : List String) : String :=
  if op == "write" then
    match kvBytes? ws "payload" with
    | some p => hexOfBytes (Framing.writeFrame p)
    | none => "bad-op"
  else if op == "wstr" then
    match kvNat? ws "n" with
    | some n => s!"hdr={hexOfBytes (Framing.be64 (n + 2))} total={n + 2 + 8} body=1"
    | none => "bad-op"
  else if op == "read" then
    match kvBytes? ws "stream", kvNat? ws "json" with
    | some st, some j => readOutStr (Framing.readFrame (fun _ => j == 1) st)
    | _, _ => "bad-op"
  else if op == "readgen" then
    match kvNat? ws "size", kvNat? ws "have", kv? ws "kind" with
    | some size, some have_, some kind =>
      let valid := kind == "json" && size == have_ && have_ ≥ 2
      readOutStr (Framing.readFrame (fun _ => valid) (Framing.be64 size ++ List.replicate have_ 0xff))
    | _, _, _ => "bad-op"
  else "bad-op"

def valueOp (op : String) (ws : List String) : String :=
  match op, ws with
  | "f64", [h] =>
    match F64.ofHex? h with
    | some x => if x.isFinite then x.toHex else "bad-op"     -- finite numbers are read back equal
    | none => "bad-op"
  | "dur", [d] =>
    match d.toInt? with
    | some raw =>
      match GlueTime.fromSeconds (GlueTime.toSeconds raw) with
      | .ok r => toString r
      | _ => "panic"
    | none => "bad-op"
  | "u64", [n] => match n.toNat? with | some v => toString v | none => "bad-op"
  | _, _ => "bad-op"


/-! #### C39 sweep: one field of a configuration set to one value, the rest valid -/

/-- scalar syntax of the sweep: `a` (array), `t:…` / `m` (table) and `b` are "some other type" where a number
    is expected; `u:<n>` is an integer literal above i64::MAX (a TOML parse error: `none`) -/
def sweepScalar? (s : String) : Option (Option Config.Scalar) :=
  if s.startsWith "u:" then some none
  else if s == "a" || s == "m" || s == "b" || s.startsWith "t:" then some (some .other)
  else if s == "s:" then some (some (.str ""))
  else (scalar? s).map some

def sweepVal? (s : String) : Option (Option Config.Val) :=
  if s.startsWith "u:" then some none
  else if s == "a" then some (some (.scalar .other))
  else if s == "s:" then some (some (.scalar (.str "")))
  else (val? s).map some

def sweepKind (field : String) : String :=
  if field == "csptp.poll_interval" || field == "csptp.response_interval" then "interval"
  else if field == "csptp.domain" then "domain"
  else if field.startsWith "sock." || field.startsWith "pps." then "positive"
  else if field == "synchronization.single-step-panic-threshold" || field == "synchronization.startup-step-panic-threshold" then "thr"
  else if field == "synchronization.single-step-panic-threshold.forward" || field == "synchronization.startup-step-panic-threshold.backward" then "part"
  else if field == "synchronization.accumulated-step-panic-threshold" then "accum"
  else ""

def okErr (b : Bool) : String := if b then "ok" else "err"

def resStr {α : Type} : Config.Res α → String
  | .ok _ => "ok" | .err _ => "err" | .panic => "panic"

/-- `sweep <field>=<value> [<field>=<value>]`: verdict for fields whose validation is repository code -/
def sweep (ws : List String) : String :=
  match ws with
  | [w] =>
    match w.splitOn "=" with
    | field :: rest =>
      let v := "=".intercalate rest
      let kind := sweepKind field
      if kind == "" then "-"
      else if kind == "thr" then
        match sweepVal? v with
        | none => "bad-op"
        | some none => "err"
        | some (some val) => resStr (Config.thresholdOf val)
      else
        match sweepScalar? v with
        | none => "bad-op"
        | some none => "err"
        | some (some sc) =>
          if kind == "interval" then okErr (Config.intervalField sc)
          else if kind == "positive" then okErr (Config.positiveField sc)
          else if kind == "domain" then okErr (Config.domainField sc)
          else if kind == "part" then resStr (Config.partOf sc)
          else resStr (Config.accumOf sc)
    | [] => "bad-op"
  | [] => "bad-op"
  | _ => "-"

def stepLine (_ : Unit) (line : String) : Unit × String :=
  match words line with
  | "deser" :: ws => ((), deser ws)
  | "dgram" :: ws => ((), dgram ws)
  | "thr" :: ws => ((), thr ws)
  | "cfg" :: ws => ((), cfg ws)
  | "sweep" :: ws => ((), sweep ws)
  | "write" :: ws => ((), frameOp "write" ws)
  | "wstr" :: ws => ((), frameOp "wstr" ws)
  | "read" :: ws => ((), frameOp "read" ws)
  | "readgen" :: ws => ((), frameOp "readgen" ws)
  | "f64" :: ws => ((), valueOp "f64" ws)
  | "dur" :: ws => ((), valueOp "dur" ws)
  | "u64" :: ws => ((), valueOp "u64" ws)
  | _ => ((), "bad-op")

end GlueDrv

def main (_args : List String) : IO Unit := do
  runLoop () GlueDrv.stepLine (← IO.getStdin) (← IO.getStdout)
