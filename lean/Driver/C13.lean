/- Model driver for C13 (cookie stash): line protocol on stdin/stdout.  See DESIGN.md §2.10. -/
import NtpVerif.Basic.LineIO
import NtpVerif.Model.CookieStash

open NtpVerif NtpVerif.LineIO NtpVerif.CookieStash

def stepLine (s : Stash) (line : String) : Stash × String :=
  match words line with
  | ["store", h] =>
    match bytesOfHex? h with
    | some c =>
      match storeChecked s c with
      | some s' => (s', "ok")
      | none => (s, "panic")
    | none => (s, "bad-op")
  | "cfg" :: _ => (s, "ok")
  | ["get"] =>
    match get s with
    | (s', .none) => (s', "none")
    | (s', .some c) => (s', "some " ++ hexOfBytes c)
    | (s', .panic) => (s', "panic")
  | ["gap"] => (s, match gap s with | some g => toString g | none => "panic")
  | ["len"] => (s, toString (len s))
  | ["timer"] =>
    match timerCookies s with
    | (s', .reset) => (s', "reset")
    | (s', .send c n) => (s', s!"send {hexOfBytes c} {n}")
    | (s', .panic) => (s', "panic")
  | _ => (s, "bad-op")

def main (_args : List String) : IO Unit := do
  runLoop init stepLine (← IO.getStdin) (← IO.getStdout)
