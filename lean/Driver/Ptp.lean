/- Model driver for the PTP cluster (C41 wire codec, C44 CSPTP source, C45 CSPTP server). -/
import NtpVerif.Basic.LineIO
import NtpVerif.Model.PtpWire
import NtpVerif.Model.CsptpMsg
import NtpVerif.Model.CsptpServer
import NtpVerif.Model.CsptpSource

open NtpVerif NtpVerif.LineIO NtpVerif.PtpWire NtpVerif.Csptp

structure St where
  srv : ServerState
  src : CsptpSource.St

def St.init : St :=
  { srv := { leap := 0, priority1 := 255, quality := ⟨248, .unknown, 0x8000 - 23 * 256⟩, priority2 := 255,
             stepsRemoved := 0, identity := 0, ptpTimescale := true, timeTraceable := false,
             freqTraceable := false }
    src := { domain := 128, active := false, nextId := 0, phase := .idle,
             gm := { identity := 0, priority1 := 255, priority2 := 255,
                     quality := ⟨248, .unknown, 0x8000 - 23 * 256⟩, stepsRemoved := 0, ptp := true,
                     tt := false, ft := false } } }

def parseAcc (s : String) : Option ClockAccuracy :=
  if s == "R" then some .reserved
  else if s == "U" then some .unknown
  else if s.startsWith "N" then (s.drop 1).toString.toNat?.map .named
  else if s.startsWith "P" then (s.drop 1).toString.toNat?.map .profileSpecific
  else none

def accStr : ClockAccuracy → String
  | .reserved => "R" | .unknown => "U" | .named c => s!"N{c}" | .profileSpecific v => s!"P{v}"

def parseTs (s : String) : Option Timestamp :=
  match s.splitOn ":" with
  | [a, b] => do let x ← a.toNat?; let y ← b.toNat?; pure ⟨x, y⟩
  | _ => none

def parseBool (s : String) : Option Bool :=
  if s == "1" then some true else if s == "0" then some false else none

def failStr : Fail → String
  | .tooShort => "err:BufferTooShort" | .invalid => "err:Invalid" | .panic => "panic"

def cfgSrv (ws : List String) : Option ServerState := do
  let leap ← kvNat? ws "leap"
  let p1 ← kvNat? ws "p1"
  let cls ← kvNat? ws "class"
  let acc ← (kv? ws "acc").bind parseAcc
  let var ← kvNat? ws "var"
  let p2 ← kvNat? ws "p2"
  let steps ← kvNat? ws "steps"
  let gm ← kvHex64? ws "gm"
  let ptp ← (kv? ws "ptp").bind parseBool
  let tt ← (kv? ws "tt").bind parseBool
  let ft ← (kv? ws "ft").bind parseBool
  pure { leap, priority1 := p1, quality := ⟨cls, acc, var⟩, priority2 := p2, stepsRemoved := steps,
         identity := gm, ptpTimescale := ptp, timeTraceable := tt, freqTraceable := ft }

def srvOp (st : St) (ws : List String) : Option String := do
  let pkt ← kvBytes? ws "pkt"
  let rx ← (kv? ws "rx").bind parseTs
  let evs ← kv? ws "ev"
  let ev ← if evs == "err" then some none else (parseTs evs).map some
  match CsptpServer.handlePacket st.srv pkt rx ev with
  | .error f => pure (failStr f)
  | .ok ⟨none, _⟩ => pure "none"
  | .ok ⟨some e, none⟩ => pure s!"event {hexOfBytes e}"
  | .ok ⟨some e, some g⟩ => pure s!"event {hexOfBytes e} general {hexOfBytes g}"

def gmStr (g : CsptpSource.GmState) : String :=
  s!"{hex64 g.identity}.{g.priority1}.{g.priority2}.{g.quality.clockClass}.{accStr g.quality.accuracy}.{g.quality.variance}.{g.stepsRemoved}.{boolStr g.ptp}.{boolStr g.tt}.{boolStr g.ft}"

def srcObs : CsptpSource.Obs → String
  | .sent b => s!"sent {hexOfBytes b}"
  | .none => "none"
  | .unread => "unread"
  | .meas m g =>
    s!"meas a={hex64 m.aSender}/{hex64 m.aReceiver} b={hex64 m.bSender}/{hex64 m.bReceiver} leap={m.leap} st={gmStr g}"

def parseSrcOp (w : String) (ws : List String) : Option CsptpSource.Op :=
  if w == "req" then do
    let s ← kv? ws "send"
    if s == "err" then some (.req none) else (parseTs s).map (fun t => .req (some t))
  else if w == "rxerr" then some (.ev .rxErr)
  else if w == "dg" then do
    let pkt ← kvBytes? ws "pkt"
    let r ← kv? ws "rx"
    if r == "none" then some (.ev (.dg pkt none)) else (parseTs r).map (fun t => .ev (.dg pkt (some t)))
  else none

def portStr (p : PortIdentity) : String := s!"{hex64 p.clock}.{p.port}"
def tsStr (t : Timestamp) : String := s!"{t.seconds}:{t.nanos}"
def timeSourceStr : TimeSource → String
  | .named c => s!"N{c}" | .profileSpecific v => s!"P{v}" | .reserved v => s!"R{v}"

def dumpMsg (m : Message) : String :=
  let h := m.header
  let hs := s!"{h.sdoId}.{h.major}.{h.minor}.{h.domain}.{h.flags6}.{h.flags7}.{h.correction}.{portStr h.source}.{h.seqId}.{h.logInterval}"
  let bs := match m.body with
    | .sync t => s!"0:{tsStr t}"
    | .delayReq t => s!"1:{tsStr t}"
    | .pDelayReq t => s!"2:{tsStr t}"
    | .pDelayResp t p => s!"3:{tsStr t},{portStr p}"
    | .followUp t => s!"8:{tsStr t}"
    | .delayResp t p => s!"9:{tsStr t},{portStr p}"
    | .pDelayRespFollowUp t p => s!"10:{tsStr t},{portStr p}"
    | .announce a =>
      s!"11:{tsStr a.origin},{a.utcOffset},{a.priority1},{a.quality.clockClass},{accStr a.quality.accuracy},{a.quality.variance},{a.priority2},{hex64 a.identity},{a.stepsRemoved},{timeSourceStr a.timeSource}"
    | .signaling p => s!"12:{portStr p}"
    | .management g => s!"13:{portStr g.target},{g.startingHops},{g.hops},{g.action}"
  s!"h={hs} b={bs} s={hexOfBytes m.suffix}"

/-- `de fill=<byte> cap=<n> pkt=<hex>`: parse, dump, re-serialise into a `cap`-byte buffer of `fill` -/
def deOp (ws : List String) : Option String := do
  let pkt ← kvBytes? ws "pkt"
  let fill ← kvNat? ws "fill"
  let cap ← kvNat? ws "cap"
  match Message.deserialize pkt with
  | .error f => pure (failStr f)
  | .ok m =>
    let re := match m.serialize (List.replicate cap (UInt8.ofNat fill)) with
      | .ok b => hexOfBytes b
      | .error f => failStr f
    pure s!"ok {dumpMsg m} re={re}"

def szAnnounce : Announce :=
  { origin := ⟨1, 2⟩, utcOffset := 37, priority1 := 128, quality := ⟨248, .unknown, 0x4e5d⟩, priority2 := 127,
    identity := 0x0102030405060708, stepsRemoved := 3, timeSource := .named 0xa0 }

def szManagement : Management :=
  { target := ⟨0x0102030405060708, 9⟩, startingHops := 1, hops := 2, action := 0 }

/-- body with the fixed field values of the harness's `sz_body` -/
def szBody (ty : Nat) : Option Body :=
  let ts : Timestamp := ⟨1, 2⟩
  let port : PortIdentity := ⟨0x0102030405060708, 9⟩
  if ty = 0 then some (.sync ts) else if ty = 2 then some (.pDelayReq ts)
  else if ty = 3 then some (.pDelayResp ts port) else if ty = 8 then some (.followUp ts)
  else if ty = 11 then some (.announce szAnnounce)
  else if ty = 13 then some (.management szManagement)
  else none

def szHeader (seq : Nat) : Header :=
  { sdoId := 0, major := 2, minor := 1, domain := 0, alternateMaster := false, twoStep := false, unicast := false,
    profile1 := false, profile2 := false, leap61 := false, leap59 := false, utcOffsetValid := false,
    ptpTimescale := false, timeTraceable := false, freqTraceable := false, syncUncertain := false,
    correction := 0, source := ⟨0, 0⟩, seqId := seq, logInterval := 0 }

def checksum (b : Bytes) : Nat := b.foldl (fun acc x => (acc * 31 + x.toNat) % 4294967296) 0

/-- `sz ty= seq= cap= tl=`: size classes around the 16-bit messageLength limit -/
def szOp (ws : List String) : Option String := do
  let ty ← kvNat? ws "ty"
  let seq ← kvNat? ws "seq"
  let cap ← kvNat? ws "cap"
  let lens ← (splitComma (← kv? ws "tl")).mapM String.toNat?
  let body ← szBody ty
  let tlvs : List Tlv := (lens.zipIdx).map fun (l, k) => ⟨3, List.replicate l (UInt8.ofNat k)⟩
  let total := (lens.map (4 + ·)).foldl (· + ·) 0
  match (TlvBuilder.new total).addAll tlvs with
  | .error _ => pure "err:tlv"
  | .ok b =>
    let m : Message := { header := szHeader seq, body, suffix := b.build }
    match m.serialize (List.replicate cap 0) with
    | .error f => pure (failStr f)
    | .ok out =>
      let back := match Message.deserialize out with
        | .ok m2 => if m2 = m then "eq" else "neq"
        | .error f => failStr f
      let n := out.length
      let hd := hexOfBytes (out.take 40)
      let cs := checksum out
      pure s!"ok len={n} head={hd} sum={cs} back={back}"

/-- serialise a Sync(1 s, 2 ns) with header `h` and no TLVs into a zeroed 64-octet buffer; bytes and parse-back -/
def hdrRoundTrip (h : Header) : String :=
  let m : Message := { header := h, body := .sync ⟨1, 2⟩, suffix := [] }
  match m.serialize (List.replicate 64 0) with
  | .error f => failStr f
  | .ok out =>
    let back := match Message.deserialize out with
      | .ok m2 => if m2 = m then "eq" else "neq"
      | .error f => failStr f
    let hx := hexOfBytes out
    s!"ser={hx} back={back}"

/-- `hd maj= min= sdo= dom= seq= li=`: header fields through the validating constructors -/
def hdOp (ws : List String) : Option String := do
  let maj ← kvNat? ws "maj"
  let min ← kvNat? ws "min"
  let sdo ← kvNat? ws "sdo"
  let dom ← kvNat? ws "dom"
  let seq ← kvNat? ws "seq"
  let li ← kvNat? ws "li"
  let v := if (PtpVersion.new? maj min).isSome then "ok" else "err"
  let s := if (SdoId.new? sdo).isSome then "ok" else "err"
  match Header.construct? maj min sdo dom seq li with
  | none => pure s!"ver={v} sdo={s}"
  | some h => pure s!"ver={v} sdo={s} {hdrRoundTrip h}"

/-- `hn min=`: `Header::new(min)` (unvalidated minor version) -/
def hnOp (ws : List String) : Option String := do
  let min ← kvNat? ws "min"
  pure (hdrRoundTrip (Header.new min))

/-- `ts via=<new|set> s= n=`: a timestamp through the constructor or through the two setters (from 0 s 0 ns);
    if accepted, a Sync carrying it is serialised and parsed back -/
def tsOp (ws : List String) : Option String := do
  let via ← kv? ws "via"
  let s ← kvNat? ws "s"
  let n ← kvNat? ws "n"
  let (verdict, t?) : String × Option Timestamp :=
    if via = "new" then
      match Timestamp.new s n with
      | .ok t => ("new=ok", some t)
      | .error _ => ("new=err", none)
    else
      let t0 : Timestamp := ⟨0, 0⟩
      match t0.trySetSeconds s with
      | .error _ =>
        (match t0.trySetNanos n with
          | .ok _ => ("sec=err nan=ok", none)
          | .error _ => ("sec=err nan=err", none))
      | .ok t1 =>
        match t1.trySetNanos n with
        | .ok t2 => ("sec=ok nan=ok", some t2)
        | .error _ => ("sec=ok nan=err", none)
  match t? with
  | none => pure s!"{verdict} rejected"
  | some t =>
    let m : Message := { header := Header.new 1, body := .sync t, suffix := [] }
    match m.serialize (List.replicate 64 0) with
    | .error f => pure s!"{verdict} {failStr f}"
    | .ok out =>
      let back := match Message.deserialize out with
        | .ok m2 => if m2 = m then "eq" else "neq"
        | .error f => failStr f
      let hx := hexOfBytes out
      pure s!"{verdict} ser={hx} back={back}"

def stepLine (st : St) (line : String) : St × String :=
  match words line with
  | "cfg" :: ws =>
    match cfgSrv ws with
    | some s => ({ st with srv := s }, "ok")
    | none => (st, "bad-op")
  | "srv" :: ws => (st, (srvOp st ws).getD "bad-op")
  | "de" :: ws => (st, (deOp ws).getD "bad-op")
  | "sz" :: ws => (st, (szOp ws).getD "bad-op")
  | "hd" :: ws => (st, (hdOp ws).getD "bad-op")
  | "hn" :: ws => (st, (hnOp ws).getD "bad-op")
  | "ts" :: ws => (st, (tsOp ws).getD "bad-op")
  | "scfg" :: ws =>
    match kvNat? ws "domain", (kv? ws "active").bind parseBool with
    | some d, some a => ({ st with src := { st.src with domain := d, active := a } }, "ok")
    | _, _ => (st, "bad-op")
  | w :: ws =>
    match parseSrcOp w ws with
    | none => (st, "bad-op")
    | some op =>
      match CsptpSource.step st.src op with
      | .error f => (st, failStr f)
      | .ok (s', o) => ({ st with src := s' }, srcObs o)
  | _ => (st, "bad-op")

def main (_args : List String) : IO Unit := do
  runLoop St.init stepLine (← IO.getStdin) (← IO.getStdout)
