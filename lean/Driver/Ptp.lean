/- Model driver for the PTP cluster (C41 wire codec, C44 CSPTP source, C45 CSPTP server). -/
import NtpVerif.Basic.LineIO
import NtpVerif.Model.PtpWire
import NtpVerif.Model.CsptpMsg
import NtpVerif.Model.CsptpServer

open NtpVerif NtpVerif.LineIO NtpVerif.PtpWire NtpVerif.Csptp

structure St where
  srv : ServerState

def St.init : St :=
  { srv := { leap := 0, priority1 := 255, quality := ⟨248, .unknown, 0x8000 - 23 * 256⟩, priority2 := 255,
             stepsRemoved := 0, identity := 0, ptpTimescale := true, timeTraceable := false,
             freqTraceable := false } }

def parseAcc (s : String) : Option ClockAccuracy :=
  if s == "R" then some .reserved
  else if s == "U" then some .unknown
  else if s.startsWith "N" then (s.drop 1).toString.toNat?.map .named
  else if s.startsWith "P" then (s.drop 1).toString.toNat?.map .profileSpecific
  else none

def accStr : ClockAccuracy → String
  | .reserved => "R" | .unknown => "U" | .named c => s!"N{c}" | .profileSpecific v => s!"P{v}"

def parseTs (s : String) : Option Timestamp :=
  match s.splitOn ":" with
  | [a, b] => do let x ← a.toNat?; let y ← b.toNat?; pure ⟨x, y⟩
  | _ => none

def parseBool (s : String) : Option Bool :=
  if s == "1" then some true else if s == "0" then some false else none

def failStr : Fail → String
  | .tooShort => "err:BufferTooShort" | .invalid => "err:Invalid" | .panic => "panic"

def cfgSrv (ws : List String) : Option ServerState := do
  let leap ← kvNat? ws "leap"
  let p1 ← kvNat? ws "p1"
  let cls ← kvNat? ws "class"
  let acc ← (kv? ws "acc").bind parseAcc
  let var ← kvNat? ws "var"
  let p2 ← kvNat? ws "p2"
  let steps ← kvNat? ws "steps"
  let gm ← kvHex64? ws "gm"
  let ptp ← (kv? ws "ptp").bind parseBool
  let tt ← (kv? ws "tt").bind parseBool
  let ft ← (kv? ws "ft").bind parseBool
  pure { leap, priority1 := p1, quality := ⟨cls, acc, var⟩, priority2 := p2, stepsRemoved := steps,
         identity := gm, ptpTimescale := ptp, timeTraceable := tt, freqTraceable := ft }

def srvOp (st : St) (ws : List String) : Option String := do
  let pkt ← kvBytes? ws "pkt"
  let rx ← (kv? ws "rx").bind parseTs
  let evs ← kv? ws "ev"
  let ev ← if evs == "err" then some none else (parseTs evs).map some
  match CsptpServer.handlePacket st.srv pkt rx ev with
  | .error f => pure (failStr f)
  | .ok ⟨none, _⟩ => pure "none"
  | .ok ⟨some e, none⟩ => pure s!"event {hexOfBytes e}"
  | .ok ⟨some e, some g⟩ => pure s!"event {hexOfBytes e} general {hexOfBytes g}"

def stepLine (st : St) (line : String) : St × String :=
  match words line with
  | "cfg" :: ws =>
    match cfgSrv ws with
    | some s => ({ st with srv := s }, "ok")
    | none => (st, "bad-op")
  | "srv" :: ws => (st, (srvOp st ws).getD "bad-op")
  | _ => (st, "bad-op")

def main (_args : List String) : IO Unit := do
  runLoop St.init stepLine (← IO.getStdin) (← IO.getStdout)
