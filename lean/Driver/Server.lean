/- Model driver for the NTP server cluster (C15–C19, C21, C22): line protocol on stdin/stdout. -/
import NtpVerif.Basic.LineIO
import NtpVerif.Model.Server
import NtpVerif.Model.ServerReq

open NtpVerif NtpVerif.LineIO NtpVerif.Server NtpVerif.RespSize

structure St where
  cfg : Config
  info : Info
  ks : Wire.KeySet := { keys := [], idOffset := 0 }      -- byte mode: the server's key set (from the key file)
  table : Wire.Table := []                               -- byte mode: ideal-AEAD table of the case so far
  counters : Counters := {}                              -- stream c21_counters: the daemon's ServerStats

def initSt : St :=
  { cfg := { denyAct := .ignore, allowAct := .ignore, requireNts := none, versions := [3, 4, 5] },
    info := { stratum := 16, refid := [0, 0, 0, 0], leap := 3, precision := 0, rootDelay := 0, bloom := [],
              keysOk := true } }

def actOf (s : String) : Act := if s == "deny" then .deny else .ignore

def parseField (s : String) : Option Field :=
  match s.splitOn ":" with
  | ["u", h] => (bytesOfHex? h).map .uid
  | ["c", n] => n.toNat?.map .cookie
  | ["p", n] => n.toNat?.map .placeholder
  | ["x"] => some .invalid
  | ["d", n] => n.toNat?.map .draft
  | ["g", n] => n.toNat?.map .padding
  | ["q", o, l] => do pure (.refReq (← o.toNat?) (← l.toNat?))
  | ["r", n] => n.toNat?.map .refResp
  | ["k", t, n] => do pure (.unknown (← natOfHex? t) (← n.toNat?))
  | _ => none

def parseFields (s : String) : Option (List Field) :=
  (splitComma s).mapM parseField

def reasonStr : Reason → String
  | .rate => "rate" | .parse => "parse" | .crypto => "crypto" | .internal => "internal" | .policy => "policy"

def respStr : Resp → String
  | .nak => "nak" | .deny => "deny" | .ignore => "ignore" | .time => "time"

def statsStr (ss : List Stat) : String :=
  if ss.isEmpty then "-" else
  ";".intercalate (ss.map fun s => s!"{s.version}/{boolStr s.nts}/{reasonStr s.reason}/{respStr s.response}")

def zeros (n : Nat) : Bytes := List.replicate n 0

def u32Bytes (n : Nat) : Bytes :=
  (List.range 4).map fun i => UInt8.ofNat (n / 2 ^ (8 * (3 - i)) % 256)

def shortBits (d : Int) : Nat := if d > 0xFFFFFFFFFFFF then 0xFFFFFFFF else (d.toNat / 65536) % 4294967296
def time32Bits (d : Int) : Nat := if d.toNat / 16 > 0xFFFFFFFF then 0xFFFFFFFF else d.toNat / 16

def pad8 (b : Bytes) : Bytes := (b ++ zeros 8).take 8
def pad4 (b : Bytes) : Bytes := (b ++ zeros 4).take 4

/-- the 48 header octets (v5 server cookie masked with zeros, as on the harness side) -/
def headerBytes (h : Header) : Bytes :=
  let b0 := UInt8.ofNat (h.leap * 64 + h.version * 8 + h.mode)
  let pre := [b0, UInt8.ofNat h.stratum, UInt8.ofNat h.poll, UInt8.ofNat (h.precision % 256).toNat]
  if h.version = 5 then
    pre ++ u32Bytes (time32Bits h.rootDelay) ++ u32Bytes (time32Bits h.rootDisp)
      ++ [0, 0, 0, UInt8.ofNat ((if h.synchronized then 1 else 0) + (if h.authnak then 4 else 0))]
      ++ zeros 8 ++ pad8 h.origin ++ u64Bytes h.recv ++ u64Bytes h.xmit
  else
    pre ++ u32Bytes (shortBits h.rootDelay) ++ u32Bytes (shortBits h.rootDisp)
      ++ pad4 h.refid ++ pad8 h.refTime ++ pad8 h.origin ++ u64Bytes h.recv ++ u64Bytes h.xmit

/-- a response field as the (real) parser reports it after decoding the answer -/
def rfieldStr (ev : EV) (minSize : Nat) : RField → String
  | .uid b => "u:" ++ hexOfBytes (b ++ zeros (bodyLenOut ev minSize b.length - b.length))
  | .cookie n => s!"c:{bodyLenOut ev minSize n}:1"
  | .refResp b => "r:" ++ hexOfBytes b
  | .draft => s!"d:{bodyLenOut ev minSize draftLen}"

def untrustedStrs (ev : EV) : List RField → List String
  | [] => []
  | [f] => [rfieldStr ev (untrustedMin ev true) f]
  | f :: rest => rfieldStr ev (untrustedMin ev false) f :: untrustedStrs ev rest

def respLine (r : Response) (n : Nat) (stats : List Stat) : String :=
  let ev := evOf r.hdr.version
  let body := 48 + efSize r
  let padStr : List String := if n > body then [s!"k:f501:{n - body - 4}"] else []
  let nts := !(r.auth.isEmpty && r.enc.isEmpty)
  let u := (if r.hdr.version = 3 then [] else untrustedStrs ev r.untrusted) ++ padStr
  let a := if nts then r.auth.map (rfieldStr ev authMin) else []
  let e := if nts then r.enc.map (rfieldStr ev 0) else []
  s!"resp len={n} hdr={hexOfBytes (headerBytes r.hdr)} U={commaList u} A={commaList a} E={commaList e} mac=0 stat={statsStr stats}"

/-- the per-datagram inputs and the request record the harness derived from the REAL parser's result -/
def parseEnvReq (ws : List String) : Option (Env × Req) :=
  let b (k : String) : Option Bool := (kv? ws k).map (· == "1")
  let envReq : Option (Env × Req) := do
    let rvar ← (kv? ws "rvar").bind F64.ofHex?
    let env : Env :=
      { inDeny := ← b "deny", inAllow := ← b "allow", rateOk := ← b "rate",
        recv := ← kvHex64? ws "recv", now := ← kvHex64? ws "now", rvar := rvar, bufLen := ← kvNat? ws "blen" }
    let len ← kvNat? ws "len"
    let fv ← kvNat? ws "fv"
    let base : Req :=
      { len := len, fv := fv, parse := .err, version := 0, client := false, poll := 0, xmit := [], reft := [],
        untrusted := [], auth := [], enc := [], cookie := none, encw := 0, mac := 0 }
    match kv? ws "parse" with
    | some "err" => pure (env, base)
    | some "panic" => pure (env, { base with parse := .panic })
    | some p =>
      let parse ← (if p == "ok" then some Parse.ok else if p == "dec" then some Parse.dec else none)
      let cookie ← (match kv? ws "ck" with
        | some "none" => some none
        | some s => s.toNat?.map some
        | none => none)
      pure (env,
        { base with parse := parse, version := ← kvNat? ws "v", client := ← b "client", poll := ← kvNat? ws "poll",
                    xmit := ← kvBytes? ws "xmit", reft := ← kvBytes? ws "reft",
                    untrusted := ← (kv? ws "U").bind parseFields, auth := ← (kv? ws "A").bind parseFields,
                    enc := ← (kv? ws "E").bind parseFields, cookie := cookie,
                    encw := ← kvNat? ws "encw", mac := ← kvNat? ws "mac",
                    draftOk := (kv? ws "dok") != some "0" })
    | none => none
  envReq

def outLine (st : St) (env : Env) (req : Req) : String :=
  match handle st.cfg st.info env req with
  | .panic => "panic"
  | .ignore s => s!"ignore stat={statsStr s}"
  | .respond r n s => respLine r n s

/-- `KeySetProvider::load` layout: time(8) id_offset(4) primary(4) len(4) keys(64 each) -/
def keysetOfFile (f : List UInt8) : Wire.KeySet :=
  let n := Wire.beNat ((f.drop 16).take 4)
  { keys := (List.range n).map fun i => (f.drop (20 + 64 * i)).take 64, idOffset := Wire.beNat ((f.drop 8).take 4) }

/-- `key;nonce;aad;ct;pt` (hex, `-` = empty), comma separated; `-` = none -/
def seals? (w : String) : Option (List Wire.Entry) :=
  if w == "-" then some [] else
  (w.splitOn ",").mapM fun e =>
    match (e.splitOn ";").mapM bytesOfHex? with
    | some [key, nonce, aad, ct, pt] => some { key := key, nonce := nonce, aad := aad, ct := ct, pt := pt }
    | _ => none

/-- fields in which the record derived here from the bytes differs from the harness's record -/
def recDiff (a h : Req) : List String :=
  (if a.len = h.len then [] else ["len"]) ++ (if a.fv = h.fv then [] else ["fv"]) ++
  (if a.parse = h.parse then [] else ["parse"]) ++ (if a.version = h.version then [] else ["v"]) ++
  (if a.client = h.client then [] else ["client"]) ++ (if a.poll = h.poll then [] else ["poll"]) ++
  (if a.xmit = h.xmit then [] else ["xmit"]) ++
  (if a.version = 5 ∨ a.parse = .err ∨ a.reft = h.reft then [] else ["reft"]) ++
  (if a.untrusted = h.untrusted then [] else ["U"]) ++ (if a.auth = h.auth then [] else ["A"]) ++
  (if a.enc = h.enc then [] else ["E"]) ++ (if a.cookie = h.cookie then [] else ["ck"]) ++
  (if a.mac = h.mac then [] else ["mac"]) ++ (if a.draftOk = h.draftOk then [] else ["dok"]) ++
  (if a.parse = .err ∨ a.encw = h.encw then [] else ["encw"])

def stepLine (st : St) (line : String) : St × String :=
  let ws := words line
  match ws with
  | "cfg" :: _ =>
    let cfg : Config :=
      { denyAct := actOf ((kv? ws "dact").getD "ignore"),
        allowAct := actOf ((kv? ws "aact").getD "ignore"),
        requireNts := match kv? ws "rnts" with
          | some "ignore" => some .ignore
          | some "deny" => some .deny
          | _ => none,
        versions := (splitComma ((kv? ws "vers").getD "-")).filterMap String.toNat? }
    let keysOk := (kv? ws "keysok") != some "0"
    let ks := match kvBytes? ws "keys" with
      | some f => keysetOfFile f
      | none => st.ks
    ({ st with cfg := cfg, info := { st.info with keysOk := keysOk }, ks := ks, table := [] }, "ok")
  -- `updsrv`: the shared synchronisation state changes while the server lives on; for the model it is the same
  | "cfgsrv" :: _ | "updsrv" :: _ =>
    match kvNat? ws "stratum", kvBytes? ws "refid", kvNat? ws "leap", kvInt? ws "prec", kvInt? ws "rdelay",
          kvBytes? ws "bloom" with
    | some stratum, some refid, some leap, some prec, some rdelay, some bloom =>
      ({ st with info := { st.info with stratum := stratum, refid := refid, leap := leap, precision := prec,
                                        rootDelay := rdelay, bloom := bloom } }, "ok")
    | _, _, _, _, _, _ => (st, "bad-op")
  | "req" :: _ =>
    match parseEnvReq ws with
    | none => (st, "bad-op")
    | some (env, req) => (st, outLine st env req)
  | "reqb" :: _ =>
    -- byte mode: the record is computed HERE from the request bytes with the parser model over the ideal-AEAD
    -- table; the record the harness derived from the real parser is only cross-checked
    match parseEnvReq ws, kvBytes? ws "msg", (kv? ws "seals").bind seals? with
    | some (env, hreq), some bytes, some entries =>
      let table : Wire.Table := entries ++ st.table
      let fv := match bytes with
        | [] => 0
        | b0 :: _ => (b0.toNat / 8) % 8
      let own := reqOfB (Wire.Table.decrypt table) st.ks bytes fv
      let d := recDiff own hreq
      let flag := if d.isEmpty then "" else "record-mismatch:" ++ ",".intercalate d ++ " "
      ({ st with table := table }, flag ++ outLine st env own)
    | _, _, _ => (st, "bad-op")
  | "reset" :: _ => ({ st with counters := {} }, "ok")
  | "reg" :: _ =>
    -- `ServerStats::register`: all eleven counters after the call
    let reason? : Option Reason := match kv? ws "reason" with
      | some "rate" => some .rate | some "parse" => some .parse | some "crypto" => some .crypto
      | some "internal" => some .internal | some "policy" => some .policy | _ => none
    let resp? : Option Resp := match kv? ws "resp" with
      | some "nak" => some .nak | some "deny" => some .deny | some "ignore" => some .ignore
      | some "time" => some .time | _ => none
    match kvNat? ws "v", (kv? ws "nts").map (· == "1"), reason?, resp? with
    | some v, some nts, some reason, some resp =>
      let c := st.counters.add (countersOf ⟨v, nts, reason, resp⟩)
      ({ st with counters := c },
       s!"recv={c.received} acc={c.accepted} den={c.denied} ign={c.ignored} rl={c.rateLimited} se={c.sendErrors} nrecv={c.ntsReceived} nacc={c.ntsAccepted} nden={c.ntsDenied} nrl={c.ntsRateLimited} nnak={c.ntsNak}")
    | _, _, _, _ => (st, "bad-op")
  | _ => (st, "bad-op")

def main (_args : List String) : IO Unit := do
  runLoop initSt stepLine (← IO.getStdin) (← IO.getStdout)
