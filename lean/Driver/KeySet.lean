/- Model driver for the keyset cluster (C26, C27): line protocol on stdin/stdout.

State: provider slots, the ideal-AEAD oracle table, the cookies issued so far (by tag), the last stored file.

  new p= h= key=<hex64>                       -> state line
  rotate p= key=<hex64>                       -> state line | panic
  encode p= tag= alg= s2c= c2s= nonce= ct=    -> cookie hex | panic      (nonce, ct read back from the code)
  dec p= tag=                                 -> ok alg= s2c= c2s= | err
  mut p= tag= i= x=                           -> decode of the cookie with byte i xor-ed with x
  ext p= tag= extra=<hex>                     -> decode of cookie ++ extra
  trunc p= tag= n=                            -> decode of the first n bytes of the cookie
  raw p= b=<hex>                              -> decode of b
  store p= time=<secs>                        -> file hex | panic        (time read back from the file)
  load p= h= [b=<hex>] [time= off= prim= len=] [i= x=] [n=]
        source = b, else the last stored file; header words replaced, then byte i xor x, then prefix n
                                              -> ok <state line> time= | err:Eof | err:Other | panic
  start p= h= key=<hex64> [nofile=1 | same modifiers as load]
                                              -> loaded|fresh <file the provider stores, time field dropped> | abort
  startfs p= h= umask= layout=plain|missing1|missing2|dir|empty|file644 [b= mode=] key=
                                              -> loaded|fresh fs=created|overwritten|nofile mode= dirs=- body=
        (startupAt + storeOutcome + modeAfter: a missing parent directory / a directory at the path => warn only,
         nothing created; a created file is 600, an existing one keeps its mode)
  race h= reads=                              -> ok   (concurrent readers of the real store loop; not modelled)
-/
import NtpVerif.Basic.LineIO
import NtpVerif.Model.KeySet

open NtpVerif NtpVerif.LineIO NtpVerif.KeySet

structure St where
  provs : List (Nat × Provider Bytes) := []
  table : Table Bytes := []
  cookies : List (Nat × Bytes) := []
  file : Bytes := []

def St.prov? (s : St) (i : Nat) : Option (Provider Bytes) := (s.provs.find? (·.1 == i)).map (·.2)
def St.setProv (s : St) (i : Nat) (p : Provider Bytes) : St :=
  { s with provs := (i, p) :: s.provs.filter (·.1 != i) }
def St.cookie? (s : St) (t : Nat) : Option Bytes := (s.cookies.find? (·.1 == t)).map (·.2)

/-- key fingerprint printed in state lines: first 3 bytes + a position-weighted 16-bit checksum -/
def fp (k : Bytes) : String :=
  let rec go : Bytes → Nat → Nat → Nat
    | [], _, acc => acc
    | b :: r, i, acc => go r (i + 1) ((acc + (i + 1) * b.toNat) % 65536)
  hexOfBytes (k.take 3) ++ hexFixed 4 (go k 0 0)

def stateLine (p : Provider Bytes) : String :=
  s!"n={p.current.keys.length} keys={commaList (p.current.keys.map fp)} off={p.current.idOffset} prim={p.current.primary}"

def cookieLine : Option Cookie → String
  | none => "err"
  | some c => s!"ok alg={c.alg} s2c={hexOfBytes c.s2c} c2s={hexOfBytes c.c2s}"

def xorAt (b : Bytes) (i x : Nat) : Bytes :=
  match b[i]? with
  | none => b
  | some v => b.set i (v ^^^ UInt8.ofNat x)

/-- the file a `load`/`start` line refers to -/
def fileOf (s : St) (ws : List String) : Option Bytes := do
  let src ← match kv? ws "b" with
    | some h => bytesOfHex? h
    | none => some s.file
  let hdr (k : String) (off w : Nat) (b : Bytes) : Bytes :=
    match kvNat? ws k with
    | none => b
    | some v => if b.length < off + w then b else
        b.take off ++ (if w == 8 then be64 v else be32 v) ++ b.drop (off + w)
  let b := hdr "len" 16 4 (hdr "prim" 12 4 (hdr "off" 8 4 (hdr "time" 0 8 src)))
  let b := match kvNat? ws "i", kvNat? ws "x" with
    | some i, some x => xorAt b i x
    | _, _ => b
  let b := match kvNat? ws "n" with
    | some n => b.take n
    | none => b
  pure b

def decodeWith (s : St) (ws : List String) (f : Bytes → Option Bytes) : St × String :=
  match (kvNat? ws "p").bind s.prov?, (kvNat? ws "tag").bind s.cookie? with
  | some p, some c =>
    match f c with
    | some b => (s, cookieLine (decode s.table p.current b))
    | none => (s, "bad-op")
  | _, _ => (s, "bad-op")

def stepLine (s : St) (line : String) : St × String :=
  let ws := words line
  match ws with
  | "new" :: _ =>
    match kvNat? ws "p", kvNat? ws "h", kvBytes? ws "key" with
    | some i, some h, some k => let p := Provider.new h k; (s.setProv i p, stateLine p)
    | _, _, _ => (s, "bad-op")
  | "rotate" :: _ =>
    match kvNat? ws "p", kvBytes? ws "key" with
    | some i, some k =>
      match s.prov? i with
      | some p =>
        match p.rotateChecked k with
        | some p' => (s.setProv i p', stateLine p')
        | none => (s, "panic")
      | none => (s, "bad-op")
    | _, _ => (s, "bad-op")
  | "encode" :: _ =>
    match (kvNat? ws "p").bind s.prov?, kvNat? ws "tag", kvNat? ws "alg", kvBytes? ws "s2c", kvBytes? ws "c2s" with
    | some p, some tag, some alg, some s2c, some c2s =>
      let c : Cookie := { alg := alg, s2c := s2c, c2s := c2s }
      match kvBytes? ws "nonce", kvBytes? ws "ct" with
      | some nonce, some ct =>
        match encode p.current c nonce ct with
        | some (b, e) => ({ s with table := e :: s.table, cookies := (tag, b) :: s.cookies }, hexOfBytes b)
        | none => (s, "panic")
      | _, _ =>
        -- the code panicked before anything could be read back: only the index panic explains that
        match p.current.keys[p.current.primary]? with
        | none => (s, "panic")
        | some _ => (s, "bad-op")
    | _, _, _, _, _ => (s, "bad-op")
  | "dec" :: _ => decodeWith s ws some
  | "mut" :: _ =>
    match kvNat? ws "i", kvNat? ws "x" with
    | some i, some x => decodeWith s ws fun c => some (xorAt c i x)
    | _, _ => (s, "bad-op")
  | "ext" :: _ =>
    match kvBytes? ws "extra" with
    | some e => decodeWith s ws fun c => some (c ++ e)
    | none => (s, "bad-op")
  | "trunc" :: _ =>
    match kvNat? ws "n" with
    | some n => decodeWith s ws fun c => some (c.take n)
    | none => (s, "bad-op")
  | "raw" :: _ =>
    match (kvNat? ws "p").bind s.prov?, kvBytes? ws "b" with
    | some p, some b => (s, cookieLine (decode s.table p.current b))
    | _, _ => (s, "bad-op")
  | "store" :: _ =>
    match (kvNat? ws "p").bind s.prov?, kvInt? ws "time" with
    | some p, some t =>
      match store p t with
      | some b => ({ s with file := b }, hexOfBytes b)
      | none => (s, "panic")
    | _, _ => (s, "bad-op")
  | "load" :: _ =>
    match kvNat? ws "p", kvNat? ws "h", fileOf s ws with
    | some i, some h, some b =>
      match load b h with
      | .ok p t => (s.setProv i p, s!"ok {stateLine p} time={t}")
      | .err .eof => (s, "err:Eof")
      | .err .other => (s, "err:Other")
      | .panic => (s, "panic")
    | _, _, _ => (s, "bad-op")
  | "start" :: _ =>
    match kvNat? ws "p", kvNat? ws "h", kvBytes? ws "key" with
    | some i, some h, some k =>
      let file := if (kv? ws "nofile").isSome then some none else (fileOf s ws).map some
      match file with
      | none => (s, "bad-op")
      | some f =>
        match startup f h k with
        | .loaded p _ => (s.setProv i p, "loaded " ++ hexOfBytes ((store p 0).getD [] |>.drop 8))
        | .fresh p => (s.setProv i p, "fresh " ++ hexOfBytes ((store p 0).getD [] |>.drop 8))
        | .abort => (s, "abort")
    | _, _, _ => (s, "bad-op")
  | "startfs" :: _ =>
    let kind? : Option PathKind := match kv? ws "layout" with
      | some "plain" => some .absent
      | some "missing1" => some .missingParent
      | some "missing2" => some .missingParent
      | some "dir" => some .directory
      | some "empty" => some .file
      | some "file644" => some .file
      | _ => none
    match kvNat? ws "p", kvNat? ws "h", kvBytes? ws "key", kind? with
    | some i, some h, some k, some kind =>
      let content := if (kv? ws "b").isSome then (fileOf s ws).getD [] else []
      let fsStr := match storeOutcome kind with
        | .failed => "nofile" | .created => "created" | .overwritten => "overwritten"
      let modeStr := match modeAfter kind ((kvNat? ws "mode").getD 0) with
        | none => "-" | some m => toString m
      let body (p : Provider Bytes) : String :=
        if storeOutcome kind == .failed then "-" else hexOfBytes ((store p 0).getD [] |>.drop 8)
      match startupAt kind content h k with
      | .loaded p _ => (s.setProv i p, s!"loaded fs={fsStr} mode={modeStr} dirs=- body={body p}")
      | .fresh p => (s.setProv i p, s!"fresh fs={fsStr} mode={modeStr} dirs=- body={body p}")
      | .abort => (s, "abort")
    | _, _, _, _ => (s, "bad-op")
  | "race" :: _ => (s, "ok")     -- file-system exercise only (c27_spawn); nothing to model
  | _ => (s, "bad-op")

def main (_args : List String) : IO Unit := do
  runLoop ({} : St) stepLine (← IO.getStdin) (← IO.getStdout)
