/- Model driver for the packet codec cluster (C23, C24, C25): line protocol on stdin/stdout. -/
import NtpVerif.Basic.LineIO
import NtpVerif.Model.Packet

open NtpVerif NtpVerif.LineIO NtpVerif.Wire

structure DState where
  table : Table
  ctx : Ctx
  base : Bytes

def DState.init : DState := { table := [], ctx := .noCipher, base := [] }

def efStr : EF → String
  | .uniqueId b => s!"uid:{hexOfBytes b}"
  | .cookie b => s!"cookie:{hexOfBytes b}"
  | .placeholder n => s!"ph:{n}"
  | .invalidEnc => "inv"
  | .draftId s => s!"draft:{hexOfBytes s}"
  | .padding n => s!"pad:{n}"
  | .refIdReq pl off => s!"rreq:{pl}:{off}"
  | .refIdResp b => s!"rresp:{hexOfBytes b}"
  | .unknown ty b => s!"unk:{ty}:{hexOfBytes b}"

def efListStr (fs : List EF) : String :=
  if fs.isEmpty then "-" else ";".intercalate (fs.map efStr)

def hdrStr : Header → String
  | .v3 h => s!"v3:l{h.leap.index},m{h.mode},{h.stratum},{h.poll},{h.precision},{h.rootDelay},{h.rootDispersion},{h.referenceId},{h.referenceTs},{h.originTs},{h.receiveTs},{h.transmitTs}"
  | .v4 h => s!"v4:l{h.leap.index},m{h.mode},{h.stratum},{h.poll},{h.precision},{h.rootDelay},{h.rootDispersion},{h.referenceId},{h.referenceTs},{h.originTs},{h.receiveTs},{h.transmitTs}"
  | .v5 h => s!"v5:l{h.leap.index},m{h.mode},{h.stratum},{h.poll},{h.precision},ts{h.timescale},e{h.era},f{h.flags.bits},{h.rootDelay},{h.rootDispersion},sc{hexOfBytes h.serverCookie},cc{hexOfBytes h.clientCookie},{h.receiveTs},{h.transmitTs}"

def packetStr (p : Packet) : String :=
  let mac := match p.mac with
    | none => "none"
    | some m => hexOfBytes m.serialize
  s!"{hdrStr p.header} a=[{efListStr p.ef.authenticated}] e=[{efListStr p.ef.encrypted}] u=[{efListStr p.ef.untrusted}] mac={mac}"

def cookieStr : Option Cookie → String
  | none => "none"
  | some c => s!"{c.alg}:{hexOfBytes c.s2c}:{hexOfBytes c.c2s}"

def perrStr : PErr → String
  | .invalidVersion v => s!"err:InvalidVersion:{v}"
  | .incorrectLength => "err:IncorrectLength"
  | .malformedNtsExtensionFields => "err:MalformedNtsExtensionFields"
  | .malformedNonce => "err:MalformedNonce"
  | .malformedCookiePlaceholder => "err:MalformedCookiePlaceholder"
  | .v5InvalidDraftIdentification => "err:V5InvalidDraftIdentification"
  | .v5MalformedTimescale => "err:V5MalformedTimescale"
  | .v5MalformedMode => "err:V5MalformedMode"
  | .v5InvalidFlags => "err:V5InvalidFlags"

def parseOutStr : ParseOut → String
  | .ok p c => s!"ok {packetStr p} cookie={cookieStr c}"
  | .decryptErr p => s!"decrypterr {packetStr p}"
  | .err e => perrStr e
  | .panic => "panic"
  | .fuel => "fuel"

def serrStr : SErr → String
  | .io => "err:io"
  | .panic => "panic"

/-- C24 round trip `b → p → b₁ → q → b₂` without keys -/
def roundTrip (b : Bytes) (cap : Nat) : String :=
  match parse (fun _ _ _ _ => none) .noCipher b with
  | .ok p _ =>
    match p.serializeInto cap none none with
    | .error e => s!"accepted ser1={serrStr e}"
    | .ok (b1, _) =>
      match parse (fun _ _ _ _ => none) .noCipher b1 with
      | .ok q _ =>
        match q.serializeInto cap none none with
        | .error e => s!"accepted b1={hexOfBytes b1} ser2={serrStr e}"
        | .ok (b2, _) =>
          match parse (fun _ _ _ _ => none) .noCipher b2 with
          | .ok q2 _ =>
            s!"accepted b1={hexOfBytes b1} q={packetStr q} b2same={boolStr (b2 == b1)} q2same={boolStr (decide (q2 = q))}"
          | o => s!"accepted b1={hexOfBytes b1} parse3={parseOutStr o}"
      | o => s!"accepted b1={hexOfBytes b1} parse2={parseOutStr o}"
  | o => s!"rejected {parseOutStr o}"

def stepLine (s : DState) (line : String) : DState × String :=
  let ws := words line
  match ws with
  | ["draftver", h] =>
    match bytesOfHex? h with
    | some b => (s, if b == draftVersion then "ok" else "mismatch")
    | none => (s, "bad-op")
  | "oracle" :: rest =>
    match kvBytes? rest "key", kvBytes? rest "nonce", kvBytes? rest "aad", kvBytes? rest "ct", kvBytes? rest "pt" with
    | some key, some nonce, some aad, some ct, some pt =>
      ({ s with table := { key := key, nonce := nonce, aad := aad, ct := ct, pt := pt } :: s.table }, "ok")
    | _, _, _, _, _ => (s, "bad-op")
  | ["ctx", "none"] => ({ s with ctx := .noCipher }, "ok")
  | ["ctx", "key", h] =>
    match bytesOfHex? h with
    | some k => ({ s with ctx := .key k }, "ok")
    | none => (s, "bad-op")
  | "ctx" :: "keyset" :: rest =>
    match kvNat? rest "off", kv? rest "keys" with
    | some off, some ks =>
      match (splitComma ks).mapM bytesOfHex? with
      | some keys => ({ s with ctx := .keyset { keys := keys, idOffset := off } }, "ok")
      | none => (s, "bad-op")
    | _, _ => (s, "bad-op")
  | ["parse", h] =>
    match bytesOfHex? h with
    | some b => (s, parseOutStr (parse s.table.decrypt s.ctx b))
    | none => (s, "bad-op")
  | "c25" :: _ => (s, "ok")   -- harness-side annotation
  | ["base", h] =>
    match bytesOfHex? h with
    | some b => ({ s with base := b }, "ok")
    | none => (s, "bad-op")
  | ["flip", i, m] =>
    -- C25: the base packet with byte `i` xor-ed with `m`
    match i.toNat?, m.toNat? with
    | some i, some m =>
      if i < s.base.length ∧ m < 256 then
        (s, parseOutStr (parse s.table.decrypt s.ctx
              (s.base.take i ++ [s.base[i]! ^^^ UInt8.ofNat m] ++ s.base.drop (i + 1))))
      else (s, "bad-op")
    | _, _ => (s, "bad-op")
  | ["setb", i, v] =>
    match i.toNat?, v.toNat? with
    | some i, some v =>
      if i < s.base.length ∧ v < 256 then
        (s, parseOutStr (parse s.table.decrypt s.ctx (s.base.take i ++ [UInt8.ofNat v] ++ s.base.drop (i + 1))))
      else (s, "bad-op")
    | _, _ => (s, "bad-op")
  | ["rt", h] =>
    match bytesOfHex? h with
    | some b => (s, roundTrip b 262144)
    | none => (s, "bad-op")
  | _ => (s, "bad-op")

def main (_args : List String) : IO Unit := do
  runLoop DState.init stepLine (← IO.getStdin) (← IO.getStdout)
