/- Model driver for the PTP estimator / controller cluster (C42, C43): line protocol on stdin/stdout.
   `drv-ptpalgo est`  — op lines of stream `c42_est` against `Model.Estimator` (F64 instance)
   `drv-ptpalgo ctrl` — op lines of streams `c42_ctrl` / `c43_ctrl` against `Model.PtpCtrl` -/
import NtpVerif.Basic.LineIO
import NtpVerif.Model.Estimator
import NtpVerif.Model.PtpCtrl
import NtpVerif.Model.PtpFilter

open NtpVerif NtpVerif.LineIO NtpVerif.Estimator

def NCLOCK : Nat := 7
def NLINK : Nat := 8

def kvF? (ws : List String) (k : String) : Option F64 := (kv? ws k).bind F64.ofHex?

def errName : Err → String
  | .UnknownClock => "err:UnknownClock"
  | .ClockAlreadyExists => "err:ClockAlreadyExists"
  | .UnknownLink => "err:UnknownLink"
  | .LinkAlreadyExists => "err:LinkAlreadyExists"
  | .BothClocksExternal => "err:BothClocksExternal"
  | .NonMonotonic => "err:NonMonotonic"
  | .NotAVector => "err:NotAVector"
  | .NotSquare => "err:NotSquare"
  | .OutOfBounds => "err:OutOfBounds"
  | .panic => "panic"

def uvStr : R (F64 × F64) → String
  | .ok (v, u) => v.toHex ++ "," ++ u.toHex
  | .error _ => "-"

/-- `sec:nanos` → raw u128 of `Timestamp::from_seconds_nanos_since_unix_epoch` -/
def parseTs? (s : String) : Option Nat :=
  match s.splitOn ":" with
  | [a, b] => do
    let sec ← a.toNat?
    let ns ← b.toNat?
    if sec < 2 ^ 64 ∧ ns < 1000000000 then
      -- (u128::from(seconds) << 64) + converted_nanos; nanos < 10^9 keeps the sum below 2^128
      some ((sec * 2 ^ 64 + (ns * 2 ^ 64) / 1000000000) % TWO128)
    else none
  | _ => none

structure EstDrv where
  est : Est F64
  /-- link names mentioned so far with their endpoints -/
  named : List (Nat × Nat × Nat)

def EstDrv.init : EstDrv := ⟨Estimator.empty 0, []⟩

/-- `Pool::link` of the harness -/
def EstDrv.link (d : EstDrv) (l a b : Nat) : Option (EstDrv × LinkId) :=
  if l ≥ NLINK ∨ a ≥ NCLOCK ∨ b ≥ NCLOCK then none else
  match d.named.find? (fun x => x.1 == l) with
  | some (_, a0, b0) => if a0 = a ∧ b0 = b then some (d, ⟨a, b, l⟩) else none
  | none => if a = b then none else some ({ d with named := (l, a, b) :: d.named }, ⟨a, b, l⟩)

def estTable (d : EstDrv) : String :=
  let s := d.est
  let cs := (List.range NCLOCK).map fun k =>
    if isExternal s k then "x" else uvStr (clockOffset s k) ++ ";" ++ uvStr (clockFrequency s k)
  let ls := (List.range NLINK).map fun l =>
    match d.named.find? (fun x => x.1 == l) with
    | some (_, a, b) => uvStr (linkDelay s ⟨a, b, l⟩)
    | none => "-"
  s!"t={s.time} c={"|".intercalate cs} l={"|".intercalate ls}"

def estFinish (d : EstDrv) (r : R (Est F64)) : EstDrv × String :=
  match r with
  | .ok s' => let d' := { d with est := s' }; (d', "ok " ++ estTable d')
  | .error e => (d, errName e ++ " " ++ estTable d)

def estStep (d : EstDrv) (line : String) : EstDrv × String :=
  let ws := words line
  let bad := (d, "bad-op")
  match ws with
  | "init" :: rest =>
    match (kv? rest "t").bind parseTs? with
    | some t => estFinish d (.ok (Estimator.empty t))
    | none => bad
  | "addclock" :: rest =>
    match kvNat? rest "id", kvF? rest "off", kvF? rest "offu", kvF? rest "fr", kvF? rest "fru", kvF? rest "w" with
    | some id, some off, some offu, some fr, some fru, some w =>
      if id ≥ NCLOCK then bad else estFinish d (addClock d.est id off offu fr fru w)
    | _, _, _, _, _, _ => bad
  | "rmclock" :: rest =>
    match kvNat? rest "id" with
    | some id => if id ≥ NCLOCK then bad else estFinish d (removeClock d.est id)
    | none => bad
  | "addext" :: rest =>
    match kvNat? rest "id" with
    | some id => if id ≥ NCLOCK then bad else estFinish d (addExternalClock d.est id)
    | none => bad
  | "rmext" :: rest =>
    match kvNat? rest "id" with
    | some id => if id ≥ NCLOCK then bad else estFinish d (removeExternalClock d.est id)
    | none => bad
  | "addlink" :: rest =>
    match kvNat? rest "l", kvNat? rest "a", kvNat? rest "b", kvF? rest "d", kvF? rest "du", kvF? rest "dec" with
    | some l, some a, some b, some dl, some du, some dec =>
      match d.link l a b with
      | some (d', id) => estFinish d' (addLink d'.est id dl du dec)
      | none => bad
    | _, _, _, _, _, _ => bad
  | "rmlink" :: rest =>
    match kvNat? rest "l", kvNat? rest "a", kvNat? rest "b" with
    | some l, some a, some b =>
      match d.link l a b with
      | some (d', id) => estFinish d' (removeLink d'.est id)
      | none => bad
    | _, _, _ => bad
  | "progress" :: rest =>
    match (kv? rest "t").bind parseTs? with
    | some t => estFinish d (progressTime d.est t)
    | none => bad
  | "progressd" :: rest =>
    -- progress_time to (current time + d raw units of 2^-64 s)
    match kvInt? rest "d" with
    | some dd => estFinish d (progressTime d.est (tsAdd d.est.time dd))
    | none => bad
  | "meas" :: rest =>
    match kvNat? rest "l", kvNat? rest "a", kvNat? rest "b", kvNat? rest "fwd", kvF? rest "v", kvF? rest "u", kvNat? rest "dl" with
    | some l, some a, some b, some fwd, some v, some u, some dl =>
      match d.link l a b with
      | some (d', id) => estFinish d' (measurement d'.est id (fwd == 1) v u (dl == 1))
      | none => bad
    | _, _, _, _, _, _, _ => bad
  | op :: rest =>
    if op == "absf" || op == "abso" || op == "abss" then
      match kvNat? rest "id", kvF? rest "d" with
      | some id, some x =>
        if id ≥ NCLOCK then bad
        else if op == "absf" then estFinish d (absorbFrequencySteer d.est id x)
        else if op == "abso" then estFinish d (absorbOffsetChange d.est id x)
        else estFinish d (absorbSystemClockOffsetChange d.est id (durOfF64 x))
      | _, _ => bad
    else if op == "mid" then
      match kvF? rest "a", kvF? rest "b" with
      | some a, some b => (d, "val " ++ (f64Midpoint a b).toHex)
      | _, _ => bad
    else if op == "durs" then
      match kvF? rest "x" with
      | some x => (d, s!"val {durOfF64 x} {(durAsSeconds (durOfF64 x)).toHex}")
      | none => bad
    else if op == "sum0" then (d, "val " ++ (Mat.sumFrom (Num.sumInit : F64) []).toHex)
    else bad
  | [] => bad

/-! ### whole-controller driver (stream `c43_ctrl`) -/

open NtpVerif.PtpFilter NtpVerif.PtpCtrl in
structure CtrlDrv where
  ctrl : Option PtpFilter.Ctrl
  /-- live link handles: uid ↦ id -/
  handles : List LinkId
  /-- an estimate became NaN: the comparison of this case is over (see the harness) -/
  nanDead : Bool := false

def CtrlDrv.init : CtrlDrv := ⟨none, [], false⟩

def ferrName : PtpFilter.FErr → String
  | .est e => errName e
  | .LinkNotExternal => "err:LinkNotExternal"
  | .ClocksEqual => "err:ClocksEqual"
  | .CannotRemoveSystemClock => "err:CannotRemoveSystemClock"
  | .ClockInUse => "err:ClockInUse"

def leapStr : Option PtpFilter.Leap → String
  | none => "-"
  | some .none => "0"
  | some .leap59 => "59"
  | some .leap61 => "61"

def parseLeap? : String → Option (Option PtpFilter.Leap)
  | "-" => some none
  | "0" => some (some .none)
  | "59" => some (some .leap59)
  | "61" => some (some .leap61)
  | _ => none

def logStr (l : PtpFilter.SteerLog) : String :=
  let a := match l.action with
    | .setFreq actual _ => "setfreq " ++ actual.toHex
    | .step dur _ => s!"step {dur}"
    | .panic => "panic"
  s!"k={l.index} {a} leap={leapStr l.leap} sync={if l.sync then 1 else 0} ee={l.errEst} rd={l.rootDelay}"

def ctrlTable (d : CtrlDrv) : String :=
  match d.ctrl with
  | none => "none"
  | some c =>
    let cs := c.clocks.map fun (id, m) =>
      s!"{id}:{uvStr (clockOffset c.filter.est id)};{uvStr (clockFrequency c.filter.est id)};{m.freq.toHex}"
    let ls := d.handles.map fun id =>
      match c.filter.linkActive id with
      | .ok b => s!"{id.uid}:{if b then 1 else 0}"
      | .error _ => s!"{id.uid}:?"
    s!"rd={c.rootDelay} c={"|".intercalate cs} l={"|".intercalate ls}"

def uvNaN : R (F64 × F64) → Bool
  | .ok (v, _) => v.isNaN
  | .error _ => false

def ctrlHasNaN (d : CtrlDrv) : Bool :=
  match d.ctrl with
  | none => false
  | some c => c.clocks.any fun (id, _) =>
      uvNaN (clockOffset c.filter.est id) || uvNaN (clockFrequency c.filter.est id)

def ctrlOut (d : CtrlDrv) (res : String) (log : List PtpFilter.SteerLog) : CtrlDrv × String :=
  ({ d with nanDead := ctrlHasNaN d }, s!"{res} [{" / ".intercalate (log.map logStr)}] {ctrlTable d}")

def ctrlStep (d : CtrlDrv) (line : String) : CtrlDrv × String :=
  let ws := words line
  let bad := (d, "bad-op")
  match ws with
  | "new" :: rest =>
    match (kv? rest "t").bind parseTs?, kvF? rest "max", kvF? rest "w", kvF? rest "ow", kvF? rest "lw",
          kvF? rest "dw", kvF? rest "mw", kvNat? rest "ma" with
    | some t, some mx, some w, some ow, some lw, some dw, some mw, some ma =>
      match PtpFilter.Ctrl.new t mx w ⟨ow, lw, dw, mw, ma⟩ with
      | .ok c => ctrlOut ⟨some c, [], false⟩ "ok" []
      | .error e => ctrlOut ⟨none, [], false⟩ (ferrName e) []
    | _, _, _, _, _, _, _, _ => bad
  | "wlaw" :: rest =>
    -- the arithmetic fact `WindowLaw`, evaluated: does x − h sort after x + h?
    match kvF? rest "x", kvF? rest "h" with
    | some x, some h =>
      let lo := F64.sub x h
      let hi := F64.add x h
      let ok := PtpFilter.boundLe (lo, false) (hi, true)
      let show_ (v : F64) := if v.isNaN then "nan" else v.toHex
      -- (the order of NaN results depends on their sign, which the model does not track: not compared)
      let verdict := if lo.isNaN || hi.isNaN then "-" else if ok then "1" else "0"
      (d, s!"wlaw {verdict} {show_ lo} {show_ hi}")
    | _, _ => bad
  | op :: rest =>
    if d.nanDead then (d, "nan-dead") else
    match d.ctrl with
    | none => (d, "no-ctrl")
    | some c =>
      let fin (c' : PtpFilter.Ctrl) (res : String) (log : List PtpFilter.SteerLog := []) :=
        ctrlOut { d with ctrl := some c' } res log
      let handle? (uid : Nat) := d.handles.find? fun h => h.uid == uid
      if op == "tick" then
        match kvF? rest "dt" with
        | some dt => fin { c with now := tsAdd c.now (durOfF64 dt) } "ok"
        | none => bad
      else if op == "addclock" then
        match kvF? rest "max", kvF? rest "cur", kvF? rest "w" with
        | some mx, some cur, some w =>
          let (c', r) := c.addClock ⟨cur, mx⟩ w
          match r with
          | .ok id => fin c' s!"ok:{id}"
          | .error e => fin c' (ferrName e)
        | _, _, _ => bad
      else if op == "addext" then
        let (c', r) := c.addExternalClock
        match r with
        | .ok id => fin c' s!"ok:{id}"
        | .error e => fin c' (ferrName e)
      else if op == "rmext" then
        match kvNat? rest "c" with
        | some id =>
          if id ≥ c.nextClock then bad else
          let (c', r) := c.removeExternalClock id
          fin c' (match r with | .ok _ => "ok" | .error e => ferrName e)
        | none => bad
      else if op == "rmclock" then
        match kvNat? rest "c" with
        | some id =>
          if id ≥ c.nextClock then bad else
          let (c', r) := c.removeClock id
          fin c' (match r with | .ok _ => "ok" | .error e => ferrName e)
        | none => bad
      else if op == "link" then
        match kvNat? rest "a", kvNat? rest "b", kv? rest "dec" with
        | some a, some b, some dec =>
          if a ≥ c.nextClock ∨ b ≥ c.nextClock then bad else
          let decay? : Option (Option F64) := if dec == "-" then some none else (F64.ofHex? dec).map some
          match decay? with
          | none => bad
          | some decay =>
            let (c', r) := c.createLink a b decay
            match r with
            | .ok id => ctrlOut { d with ctrl := some c', handles := d.handles ++ [id] } s!"ok:{id.uid}" []
            | .error e => fin c' (ferrName e)
        | _, _, _ => bad
      else if op == "drop" then
        match (kvNat? rest "l").bind handle? with
        | some id =>
          ctrlOut { d with ctrl := some (c.dropLink id), handles := d.handles.filter fun h => h.uid != id.uid } "ok" []
        | none => (d, "nohandle")
      else if op == "extupd" then
        match (kvNat? rest "l").bind handle?, kvF? rest "rd", (kv? rest "leap").bind parseLeap?, kvNat? rest "usable" with
        | some id, some rd, some leap, some usable =>
          let (c', r) := c.externalDataUpdate id (durOfF64 rd) leap (usable == 1)
          fin c' (match r with | .ok _ => "ok" | .error e => ferrName e)
        | none, some _, some _, some _ => (d, "nohandle")
        | _, _, _, _ => bad
      else if op == "meas" then
        match (kvNat? rest "l").bind handle?, kvNat? rest "fwd", kvF? rest "d", kvF? rest "u" with
        | some id, some fwd, some dd, some u =>
          let (c', r) := c.measurement id (fwd == 1) (durOfF64 dd) (durOfF64 u)
          match r with
          | .ok log => fin c' "ok" log
          | .error e => fin c' (ferrName e)
        | none, some _, some _, some _ => (d, "nohandle")
        | _, _, _, _ => bad
      else bad
  | [] => bad

def main (args : List String) : IO Unit := do
  match args with
  | ["est"] => runLoop EstDrv.init estStep (← IO.getStdin) (← IO.getStdout)
  | ["ctrl"] => runLoop CtrlDrv.init ctrlStep (← IO.getStdin) (← IO.getStdout)
  | ["steer"] => runLoop PtpCtrl.Drv.init PtpCtrl.drvStep (← IO.getStdin) (← IO.getStdout)
  | _ => throw (IO.userError "usage: drv-ptpalgo est|ctrl")
