/- Model driver for the `kfilter` cluster (C06, filter half of C10): line protocol on stdin/stdout.
   Streams c10_filter_poll, c06_kstate, c06_filter of harness/ntp_proto/algorithm_kalman_source_kfilter.rs. -/
import NtpVerif.Basic.LineIO
import NtpVerif.Model.SourceFilter

open NtpVerif NtpVerif.LineIO NtpVerif.SourceFilter NtpVerif.Kalman2
open scoped NtpVerif.Kalman2

structure DState where
  -- c10_filter_poll
  pcfg : PollCfg
  lim : Limits
  poll : PollState
  -- c06_kstate
  k : KT
  -- c06_filter
  sc : SrcCfg
  ac : AlgoCfg
  st : SState
  now : Nat
  -- c06_periodic
  ost : OState
  period : Option F64

def zeroK : KT := { s := { x := ⟨F64.zero, F64.zero⟩, P := ⟨F64.zero, F64.zero, F64.zero, F64.zero⟩ }, time := 0 }

def initD : DState :=
  let pc : PollCfg := { lowWeight := F64.zero, highWeight := F64.zero, hysteresis := 16, stepThreshold := F64.zero }
  { pcfg := pc, lim := ⟨4, 10⟩, poll := ⟨0, 4⟩, k := zeroK,
    sc := { lim := ⟨4, 10⟩, initial := 4 },
    ac := { poll := pc, wander := { lowProb := F64.zero, highProb := F64.zero, hysteresis := 16, minWeight := F64.zero },
            outlierThreshold := F64.zero, initialWander := F64.zero, initialFreqUncertainty := F64.zero,
            meddlingThreshold := 0 },
    st := SState.new, now := 0,
    ost := OState.new { precision := F64.zero, accuracy := F64.zero }, period := none }

def kvF? (ws : List String) (k : String) : Option F64 := (kv? ws k).bind F64.ofHex?

def kLine (k : KT) : String :=
  s!"{k.s.x.x0.toHex} {k.s.x.x1.toHex} {k.s.P.a00.toHex} {k.s.P.a01.toHex} {k.s.P.a10.toHex} {k.s.P.a11.toHex} t={k.time}"

def parseK? (ws : List String) (t : Nat) : Option KT :=
  match ws.map F64.ofHex? with
  | [some x0, some x1, some a, some b, some c, some d] =>
    some { s := { x := ⟨x0, x1⟩, P := ⟨a, b, c, d⟩ }, time := t }
  | _ => none

def snapLine (d : DState) : String :=
  let snap := d.st.snapshot d.ac
  let poll := d.st.desiredPoll d.sc.lim
  match snap with
  | none => s!"nosnap poll={poll} obs=-"
  | some sn =>
    let obs := match sn.observe with
      | some (o, u, dl) => s!"{o},{u},{dl}"
      | none => "panic"
    s!"{kLine sn.k} wd={sn.wander.toHex} dl={sn.delay.toHex} su={sn.sourceUncertainty} sd={sn.sourceDelay} lu={sn.lastUpdate} poll={poll} obs={obs}"

def perStr (p : Option F64) : String := match p with | some x => x.toHex | none => "-"

def osnapLine (d : DState) : String :=
  let snap := d.ost.snapshot d.ac d.period
  let poll := d.ost.desiredPoll d.sc.lim
  match snap with
  | none => s!"nosnap poll={poll} obs=-"
  | some osn =>
    let sn := osn.snap
    let obs := match sn.observe with
      | some (o, u, dl) => s!"{o},{u},{dl}"
      | none => "panic"
    s!"{kLine sn.k} wd={sn.wander.toHex} dl={sn.delay.toHex} su={sn.sourceUncertainty} sd={sn.sourceDelay} lu={sn.lastUpdate} per={perStr osn.period} poll={poll} obs={obs}"

def kvPeriod? (ws : List String) : Option (Option F64) :=
  match kv? ws "period" with
  | some "-" => some none
  | some h => (F64.ofHex? h).map some
  | none => none

def stepLine (d : DState) (line : String) : DState × String :=
  match words line with
  | "pcfg" :: ws =>
    match kvInt? ws "min", kvInt? ws "max", kvInt? ws "init", kvF? ws "low", kvF? ws "high",
          kvInt? ws "hyst", kvF? ws "thr" with
    | some mn, some mx, some ini, some lo, some hi, some hy, some th =>
      ({ d with pcfg := { lowWeight := lo, highWeight := hi, hysteresis := hy, stepThreshold := th },
                lim := ⟨mn, mx⟩, poll := ⟨0, ini⟩ }, "ok")
    | _, _, _, _, _, _, _ => (d, "bad-op")
  | "poll" :: ws =>
    match kvF? ws "p", kvF? ws "w", kvF? ws "mp" with
    | some p, some w, some mp =>
      match updateDesiredPoll d.poll d.pcfg d.lim p w mp with
      | some s' => ({ d with poll := s' }, s!"d={s'.desired} s={s'.score}")
      | none => (d, "panic")
    | _, _, _ => (d, "bad-op")
  | "kset" :: ws =>
    match kvNat? ws "t" with
    | some t =>
      match parseK? (ws.take 6) t with
      | some k => ({ d with k := k }, "ok")
      | none => (d, "bad-op")
    | none => (d, "bad-op")
  | "kprog" :: ws =>
    match kvNat? ws "t", kvF? ws "w" with
    | some t, some w =>
      let k := progressTime d.k t w
      ({ d with k := k }, kLine k)
    | _, _ => (d, "bad-op")
  | "kabs" :: ws =>
    match kvF? ws "h0", kvF? ws "h1", kvF? ws "z", kvF? ws "r" with
    | some h0, some h1, some z, some r =>
      let out := absorbCore d.k.s h0 h1 z r
      let k : KT := { s := out.st, time := d.k.time }
      ({ d with k := k }, s!"{kLine k} p={(chi1 out.chiArg).toHex} w={out.weight.toHex}")
    | _, _, _, _ => (d, "bad-op")
  | "kmerge" :: ws =>
    match parseK? (ws.take 6) d.k.time with
    | some o =>
      let k : KT := { s := merge d.k.s o.s, time := d.k.time }
      ({ d with k := k }, kLine k)
    | none => (d, "bad-op")
  | "kdisp" :: ws =>
    match kvF? ws "d" with
    | some v =>
      let k : KT := { s := addServerDispersion d.k.s v, time := d.k.time }
      ({ d with k := k }, kLine k)
    | none => (d, "bad-op")
  | "kosteer" :: ws =>
    match kvF? ws "s" with
    | some s =>
      match kOffsetSteer d.k s with
      | some k => ({ d with k := k }, kLine k)
      | none => (d, "panic")
    | none => (d, "bad-op")
  | "kfsteer" :: ws =>
    match kvNat? ws "t", kvF? ws "s", kvF? ws "w" with
    | some t, some s, some w =>
      let k := kFreqSteer d.k t s w
      ({ d with k := k }, kLine k)
    | _, _, _ => (d, "bad-op")
  | "fcfg" :: ws =>
    match kvInt? ws "min", kvInt? ws "max", kvInt? ws "init", kvF? ws "plow", kvF? ws "phigh",
          kvInt? ws "physt", kvF? ws "pminw", kvF? ws "wlow", kvF? ws "whigh", kvInt? ws "whyst",
          kvF? ws "wthr", kvF? ws "outl", kvF? ws "iw", kvF? ws "ifu", kvInt? ws "medd" with
    | some mn, some mx, some ini, some plow, some phigh, some physt, some pminw, some wlow, some whigh,
      some whyst, some wthr, some outl, some iw, some ifu, some medd =>
      ({ d with
          sc := { lim := ⟨mn, mx⟩, initial := ini },
          ac := { poll := { lowWeight := wlow, highWeight := whigh, hysteresis := whyst, stepThreshold := wthr },
                  wander := { lowProb := plow, highProb := phigh, hysteresis := physt, minWeight := pminw },
                  outlierThreshold := outl, initialWander := iw, initialFreqUncertainty := ifu,
                  meddlingThreshold := medd },
          st := SState.new }, "ok")
    | _, _, _, _, _, _, _, _, _, _, _, _, _, _, _ => (d, "bad-op")
  | "meas" :: ws =>
    match kvNat? ws "mono", kvNat? ws "lt", kvInt? ws "off", kvInt? ws "delay", kvInt? ws "rdelay",
          kvInt? ws "rdisp" with
    | some mono, some lt, some off, some delay, some rdelay, some rdisp =>
      let now := d.now + mono
      let m : Meas := { delay := delay, offset := off, localtime := lt, rootDelay := rdelay, rootDisp := rdisp }
      match d.st.update d.sc d.ac m now with
      | none => ({ d with now := now }, "panic")
      | some (st', b) =>
        let d' := { d with st := st', now := now }
        -- `handle_measurement`: a message is produced iff the update returned true and a snapshot exists
        let msg := b && (st'.snapshot d.ac).isSome
        (d', s!"msg={boolStr msg} {snapLine d'}")
    | _, _, _, _, _, _ => (d, "bad-op")
  | "step" :: ws =>
    match kvF? ws "s" with
    | some s =>
      match d.st.offsetSteer s with
      | some st' => let d' := { d with st := st' }; (d', snapLine d')
      | none => (d, "panic")
    | none => (d, "bad-op")
  | "freq" :: ws =>
    match kvNat? ws "t", kvF? ws "s" with
    | some t, some s =>
      match d.st.freqSteer t s with
      | some st' => let d' := { d with st := st' }; (d', snapLine d')
      | none => (d, "panic")
    | _, _ => (d, "bad-op")
  | "ocfg" :: ws =>
    match kvInt? ws "min", kvInt? ws "max", kvInt? ws "init", kvF? ws "plow", kvF? ws "phigh",
          kvInt? ws "physt", kvF? ws "pminw", kvF? ws "wlow", kvF? ws "whigh", kvInt? ws "whyst",
          kvF? ws "wthr", kvF? ws "iw", kvF? ws "ifu", kvInt? ws "medd", kvF? ws "prec", kvF? ws "acc",
          kvPeriod? ws with
    | some mn, some mx, some ini, some plow, some phigh, some physt, some pminw, some wlow, some whigh,
      some whyst, some wthr, some iw, some ifu, some medd, some prec, some acc, some period =>
      ({ d with
          sc := { lim := ⟨mn, mx⟩, initial := ini },
          ac := { poll := { lowWeight := wlow, highWeight := whigh, hysteresis := whyst, stepThreshold := wthr },
                  wander := { lowProb := plow, highProb := phigh, hysteresis := physt, minWeight := pminw },
                  outlierThreshold := F64.zero, initialWander := iw, initialFreqUncertainty := ifu,
                  meddlingThreshold := medd },
          ost := OState.new { precision := prec, accuracy := acc }, period := period }, "ok")
    | _, _, _, _, _, _, _, _, _, _, _, _, _, _, _, _, _ => (d, "bad-op")
  | "omeas" :: ws =>
    match kvNat? ws "mono", kvNat? ws "lt", kvInt? ws "off", kvInt? ws "rdelay", kvInt? ws "rdisp" with
    | some mono, some lt, some off, some rdelay, some rdisp =>
      let now := d.now + mono
      let m : OMeas := { offset := off, localtime := lt, rootDelay := rdelay, rootDisp := rdisp }
      match d.ost.update LOOP_FUEL d.sc d.ac d.period m now with
      | .panic => ({ d with now := now }, "panic")
      | .fuel => ({ d with now := now }, "timeout")
      | .ok (st', b) =>
        let d' := { d with ost := st', now := now }
        let msg := b && (st'.snapshot d.ac d.period).isSome
        (d', s!"msg={boolStr msg} {osnapLine d'}")
    | _, _, _, _, _ => (d, "bad-op")
  | "ostep" :: ws =>
    match kvF? ws "s" with
    | some s =>
      match d.ost.offsetSteer LOOP_FUEL s d.period with
      | .ok st' => let d' := { d with ost := st' }; (d', osnapLine d')
      | .panic => (d, "panic")
      | .fuel => (d, "timeout")
    | none => (d, "bad-op")
  | "ofreq" :: ws =>
    match kvNat? ws "t", kvF? ws "s" with
    | some t, some s =>
      match d.ost.freqSteer LOOP_FUEL t s d.period with
      | .ok st' => let d' := { d with ost := st' }; (d', osnapLine d')
      | .panic => (d, "panic")
      | .fuel => (d, "timeout")
    | _, _ => (d, "bad-op")
  | "owrap" :: ws =>
    match kvF? ws "x0", kvF? ws "x1", kvF? ws "p" with
    | some x0, some x1, some p =>
      match correctPeriodicity LOOP_FUEL { zeroK with s := { zeroK.s with x := ⟨x0, x1⟩ } } (some p) with
      | .ok k => (d, s!"{k.s.x.x0.toHex} {k.s.x.x1.toHex}")
      | .panic => (d, "panic")
      | .fuel => (d, "timeout")
    | _, _, _ => (d, "bad-op")
  | "orem" :: ws =>
    match kvF? ws "x", kvF? ws "y" with
    | some x, some y => (d, (fmod x y).toHex)
    | _, _ => (d, "bad-op")
  | _ => (d, "bad-op")

def main (_args : List String) : IO Unit := do
  runLoop initD stepLine (← IO.getStdin) (← IO.getStdout)
