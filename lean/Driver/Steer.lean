/- Model driver for the steering cluster (C01, C02): line protocol on stdin/stdout. -/
import NtpVerif.Basic.LineIO
import NtpVerif.Model.Steer

open NtpVerif NtpVerif.LineIO NtpVerif.Steer

structure DState where
  cfg : Option Cfg
  st : St

def dinit : DState := { cfg := none, st := initSt F64.zero }

def optInt? (s : String) : Option (Option Int) :=
  if s == "inf" then some none else s.toInt?.map some

def threshold? (s : String) : Option Threshold :=
  match s.splitOn "," with
  | [f, b] => do
    let f ← optInt? f
    let b ← optInt? b
    pure { forward := f, backward := b }
  | _ => none

def kvF? (ws : List String) (k : String) : Option F64 := (kv? ws k).bind F64.ofHex?

def parseCfg (ws : List String) : Option (Cfg × St) := do
  let sat ← kvNat? ws "sat"
  let su ← (kv? ws "su").bind threshold?
  let si ← (kv? ws "si").bind threshold?
  let ac ← (kv? ws "ac").bind optInt?
  let st ← kvF? ws "st"
  let sot ← kvF? ws "sot"
  let sol ← kvF? ws "sol"
  let sft ← kvF? ws "sft"
  let sfl ← kvF? ws "sfl"
  let sm ← kvF? ws "sm"
  let sd ← kvF? ws "sd"
  let ms ← kvF? ws "ms"
  let startup ← kvNat? ws "startup"
  let acc ← kvInt? ws "acc"
  let fo ← kvF? ws "fo"
  let df ← kvF? ws "df"
  pure ({ satOps := sat != 0, startup := su, single := si, accumulated := ac, stepThreshold := st,
          steerOffsetThreshold := sot, steerOffsetLeftover := sol, steerFreqThreshold := sft,
          steerFreqLeftover := sfl, slewMax := sm, slewMinDuration := sd, maxSteer := ms },
        { inStartup := startup != 0, acc := acc, freqOffset := fo, desiredFreq := df })

def evStr : Ev → Option String
  | .disable => some "disable"
  | .step d => let (s, n) := asSecondsNanos d; some s!"step:{d}:{s}:{n}"
  | .slew _ _ => none
  | .setFreq f => some s!"setfreq:{f.toHex}"

def stStr (st : St) : String :=
  s!"startup={boolStr st.inStartup} acc={st.acc} fo={st.freqOffset.toHex} df={st.desiredFreq.toHex}"

def resStr (r : Res) : String :=
  let evs := commaList (r.evs.filterMap evStr)
  match r.fin with
  | .ok => s!"{evs} end=ok {stStr r.st}"
  | .exit => s!"{evs} end=exit"
  | .panic => s!"{evs} end=panic"

def stepLine (s : DState) (line : String) : DState × String :=
  let ws := words line
  match ws with
  | "cfg" :: rest =>
    match parseCfg rest with
    | some (c, st) => ({ cfg := some c, st := st }, "ok")
    | none => (s, "bad-op")
  | op :: rest =>
    match s.cfg with
    | none => (s, "bad-op")
    | some cfg =>
      let fin (r : Res) : DState × String := ({ s with st := r.st }, resStr r)
      match op with
      | "steer_offset" =>
        match kvF? rest "c", kvF? rest "fd" with
        | some c, some fd => fin (steerOffset cfg s.st c fd)
        | _, _ => (s, "bad-op")
      | "steer_freq" =>
        match kvF? rest "c" with
        | some c => fin (steerFrequency cfg s.st c)
        | none => (s, "bad-op")
      | "check" =>
        match kvF? rest "c" with
        | some c =>
          match checkOffsetSteer cfg s.st c with
          | (st', .ok d) => ({ s with st := st' }, s!"end=ok d={d} acc={st'.acc}")
          | (st', .exit) => ({ s with st := st' }, "end=exit")
          | (st', .panic) => ({ s with st := st' }, "end=panic")
        | none => (s, "bad-op")
      | "time_update" => fin (ctrlStep cfg s.st .timeUpdate)
      | "msg" =>
        match kvNat? rest "est" with
        | some 0 => fin (ctrlStep cfg s.st .noConsensus)
        | some _ =>
          match kvF? rest "eo", kvF? rest "ef", kvF? rest "eov", kvF? rest "efv" with
          | some o, some f, some ov, some fv => fin (ctrlStep cfg s.st (.estimate o f ov fv))
          | _, _, _, _ => (s, "bad-op")
        | none => (s, "bad-op")
      | "update" =>
        if rest == ["none"] then fin (ctrlStep cfg s.st .noConsensus)
        else
          match kvF? rest "o", kvF? rest "f", kvF? rest "ov", kvF? rest "fv" with
          | some o, some f, some ov, some fv => fin (ctrlStep cfg s.st (.estimate o f ov fv))
          | _, _, _, _ => (s, "bad-op")
      | _ => (s, "bad-op")
  | [] => (s, "bad-op")

def main (_args : List String) : IO Unit := do
  runLoop dinit stepLine (← IO.getStdin) (← IO.getStdout)
