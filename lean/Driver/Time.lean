/- Model driver for the `time` cluster (C05, C32): line protocol on stdin/stdout.  See AGENT_GUIDE §3.
   Integers are decimal (timestamps as unsigned 64/128-bit values), floats 16 hex digits. -/
import NtpVerif.Basic.LineIO
import NtpVerif.Model.Time

open NtpVerif NtpVerif.LineIO NtpVerif.Time

def optInt : Option Int → String
  | some i => toString i
  | none => "panic"

def showInternal (m : Internal) : String :=
  s!"delivered off={m.offset} delay={match m.delay with | some d => toString d | none => "-"} local={m.localtime}"

def showMeas (m : Meas) : String := s!"sys={boolStr m.fromSystem} s={m.senderTs} r={m.receiverTs}"

/-- all arguments after the op name that parse as integers (a trailing scalar-type word is ignored) -/
def intArgs (ws : List String) : Option (List Int) := ws.mapM String.toInt?

def stepLine (s : Option Meas) (line : String) : Option Meas × String :=
  match words line with
  | [] => (s, "bad-op")
  | op :: args =>
    -- C05
    if op == "m" then
      match kvNat? args "sys", kvInt? args "s", kvInt? args "r" with
      | some sys, some a, some b =>
        match twoWayStep s { fromSystem := sys != 0, senderTs := a, receiverTs := b } with
        | (s', .stored) => (s', "stored")
        | (s', .dropped) => (s', "dropped")
        | (s', .delivered m) => (s', showInternal m)
        | (s', .panic) => (s', "panic")
      | _, _, _ => (s, "bad-op")
    else if op == "ow" then
      match kvNat? args "sys", kvInt? args "s", kvInt? args "r" with
      | some sys, some a, some b =>
        (s, showInternal (oneWayStep { fromSystem := sys != 0, senderTs := a, receiverTs := b }))
      | _, _, _ => (s, "bad-op")
    else if op == "sock" then
      -- GPSd/SOCK composition: sender_ts = time - from_seconds(offset), receiver_ts = time
      match kvInt? args "r", (kv? args "x").bind F64.ofHex? with
      | some t, some x =>
        match fromSeconds x with
        | some d => (s, showInternal (oneWayStep { fromSystem := false, senderTs := tsSubDur t d, receiverTs := t }))
        | none => (s, "panic")
      | _, _ => (s, "bad-op")
    else if op == "pkt" then
      match kvInt? args "send", kvInt? args "rts", kvInt? args "tts", kvInt? args "recv" with
      | some a, some b, some c, some d =>
        let p := measurementsFromPacket a b c d
        (s, s!"out {showMeas p.1} in {showMeas p.2}")
      | _, _, _, _ => (s, "bad-op")
    else if op == "d.fromsec" then
      match args with
      | [h] => match F64.ofHex? h with
        | some x => (s, optInt (fromSeconds x))
        | none => (s, "bad-op")
      | _ => (s, "bad-op")
    else
    -- C32: stateless integer ops; a non-integer last word (the scalar type) is dropped
    let ia := match intArgs args with
      | some l => some l
      | none => intArgs args.dropLast
    match ia with
    | none => (s, "bad-op")
    | some l =>
      let r : String := match op, l with
        | "ts.sub", [a, b] => toString (tsSub a b)
        | "ts.add", [a, d] => toString (tsAddDur a d)
        | "ts.subd", [a, d] => toString (tsSubDur a d)
        | "ts.before", [a, b] => boolStr (isBefore a b)
        | "d.add", [a, b] => toString (durAdd a b)
        | "d.sub", [a, b] => toString (durSub a b)
        | "d.absdiff", [a, b] => toString (durAbsDiff a b)
        | "d.neg", [a] => toString (durNeg a)
        | "d.abs", [a] => toString (durAbs a)
        | "d.mul", [a, k] => toString (durMul a k)
        | "d.div", [a, k] => optInt (durDiv a k)
        | "d.mulppm", [a, k] => optInt (durMulPpm a k)
        | "d.tosec", [a] => (toSeconds a).toHex
        | "d.rt", [a] => optInt (fromSeconds (toSeconds a))
        | "d.short", [a] => optInt (toBitsShort a)
        | "d.fromshort", [u] => toString (fromBitsShort u)
        | "d.time32", [a] => optInt (toBitsTime32 a)
        | "d.fromtime32", [u] => toString (fromBitsTime32 u)
        | "d.fromexp", [e] => toString (fromExponent e)
        | "d.log2", [a] => toString (log2 a)
        | "d.secnanos", [a] => let p := asSecondsNanos a; s!"{p.1} {p.2}"
        | "p.inc", [p, m] => toString (pollInc p m)
        | "p.dec", [p, m] => toString (pollDec p m)
        | "p.finc", [p] => toString (pollForceInc p)
        | "p.asdur", [p] => toString (pollAsDuration p)
        | "p.assys", [p] => toString (pollAsSystemSecs p)
        | "p.frombyte", [b] => toString (pollFromByte b)
        | "p.asbyte", [p] => toString (pollAsByte p)
        | "pt.sub", [a, b] => toString (ptSub a b)
        | "pt.add", [a, d] => toString (ptAddDur a d)
        | "pt.subd", [a, d] => toString (ptSubDur a d)
        | "pd.add", [a, b] => toString (pdAdd a b)
        | "pd.sub", [a, b] => toString (pdSub a b)
        | "pd.mul", [a, k] => toString (pdMul a k)
        | "pd.div", [a, k] => optInt (pdDiv a k)
        | _, _ => "bad-op"
      (s, r)

def main (_args : List String) : IO Unit := do
  runLoop (none : Option Meas) stepLine (← IO.getStdin) (← IO.getStdout)
