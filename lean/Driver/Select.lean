/- Model driver for the `select` cluster (C03, C04, C37): line protocol on stdin/stdout. -/
import NtpVerif.Basic.LineIO
import NtpVerif.Model.Leap
import NtpVerif.Model.Select
import NtpVerif.Model.CtrlLoop

open NtpVerif NtpVerif.LineIO

namespace SelectDriver
open NtpVerif.Leap

def leapOfChar? : Char → Option LI
  | 'n' => some .noWarning
  | '5' => some .leap59
  | '6' => some .leap61
  | 'u' => some .unknown
  | 'x' => some .unsync
  | _ => none

def charOfLeap : LI → Char
  | .noWarning => 'n'
  | .leap59 => '5'
  | .leap61 => '6'
  | .unknown => 'u'
  | .unsync => 'x'

def leapsOfString? (s : String) : Option (List LI) :=
  if s == "-" then some [] else s.toList.mapM leapOfChar?

def voteStr : Vote → String
  | .panic => "panic"
  | .none => "none"
  | .some l => "some:" ++ String.singleton (charOfLeap l)

open NtpVerif.Select in
def candOfString? (i : Nat) (s : String) : Option Cand :=
  match s.splitOn ":" with
  | [o, v, d, p, l] => do
    let o ← F64.ofHex? o
    let v ← F64.ofHex? v
    let d ← F64.ofHex? d
    let l ← match l.toList with | [c] => leapOfChar? c | _ => none
    pure { idx := i, offset := o, var := v, delay := d, periodic := p == "1", leap := l }
  | _ => none

open NtpVerif.Select in
def candsOfString? (s : String) : Option (List Cand) :=
  if s == "-" then some [] else
  let items := s.splitOn ","
  (items.zipIdx).mapM fun (it, i) => candOfString? i it

open NtpVerif.Select in
def cfgOfWords? (ws : List String) : Option Cfg := do
  let min ← kvNat? ws "min"
  let w1 ← (kv? ws "ws").bind F64.ofHex?
  let w2 ← (kv? ws "wd").bind F64.ofHex?
  let mu ← (kv? ws "mu").bind F64.ofHex?
  pure { minAgree := min, wStat := w1, wDelay := w2, maxUnc := mu }

open NtpVerif.Select in
def selectStr : Out → String
  | .panic => "panic"
  | .sel l => "sel:" ++ commaList (l.map fun c => toString c.idx)

open NtpVerif.Select NtpVerif.CtrlLoop in
structure St where
  cfg : Cfg := { minAgree := 1, wStat := F64.one, wDelay := F64.one, maxUnc := F64.one }
  w : W := W.init
  used : List Nat := []

open NtpVerif.Select NtpVerif.CtrlLoop

def callStr : Call → String
  | .disableNtpAlgorithm => "disable"
  | .steer s => s
  | .errorEstimateUpdate => "err"
  | .statusUpdate l => "status:" ++ String.singleton (charOfLeap l)

def sortNat (l : List Nat) : List Nat := l.mergeSort (fun a b => decide (a ≤ b))

def idsStr (l : List Nat) : String := commaList ((sortNat l).map toString)

def valsOfString? (s : String) : Option (List (Nat × Cand)) :=
  if s == "-" then some [] else
  (s.splitOn ",").mapM fun item =>
    match item.splitOn "/" with
    | [k, c] => do
      let k ← k.toNat?
      let c ← candOfString? k c
      pure (k, c)
    | _ => none

def steerOfString (s : String) : List String := if s == "-" then [] else s.splitOn "+"

def candIds (c : Ctrl) : List Nat := (candidateEntries c).map (·.1)

/-- which measurement of each source the controller holds: `<id>:<stamp>` for every entry with a snapshot -/
def heldStr (c : Ctrl) : String :=
  let l := c.srcs.filterMap (fun p => if p.2.snap.isSome then some (p.1, p.2.stamp) else none)
  let l := l.mergeSort (fun a b => decide (a.1 ≤ b.1))
  commaList (l.map fun p => s!"{p.1}:{p.2}")

/-- direct controller op = put the message on an (empty) channel and let the loop take it -/
def direct (st : St) (id : Nat) (m : WMsg) : St × String :=
  let (w1, _) := step st.cfg st.w (.send id m)
  let (w2, r) := step st.cfg w1 .recv
  let st' := { st with w := w2 }
  match r with
  | some (.ok calls used) =>
    (st', s!"calls={commaList (calls.map callStr)} used={match used with | none => "none" | some u => idsStr u} leap={charOfLeap w2.ctrl.leap} cand={idsStr (candIds w2.ctrl)} held={heldStr w2.ctrl}")
  | some .panic => (st', "panic")
  | none => (st', "bad-op")

/-- one loop turn: handle everything that is queued -/
partial def drain (st : St) (acc : List String) : St × Option (List String) :=
  match st.w.queue with
  | [] => (st, some acc)
  | _ :: _ =>
    let (w2, r) := step st.cfg st.w .recv
    match r with
    | some (.ok calls used) =>
      drain { st with w := w2, used := match used with | none => st.used | some u => u } (acc ++ calls.map callStr)
    | _ => ({ st with w := w2 }, none)

def stepLine (loopMode : Bool) (s : St) (line : String) : St × String :=
  let ws := words line
  match ws with
  | "cfg" :: rest =>
    match cfgOfWords? rest with
    | some cfg => ({ cfg := cfg }, "ok")
    | none => (s, "bad-op")
  | ["add", idw] =>
    match kvNat? [idw] "id" with
    | some id =>
      let (w1, _) := step s.cfg s.w (.add id)
      if loopMode then ({ s with w := w1 }, "ok")
      else ({ s with w := w1 },
        s!"calls=- used=none leap={charOfLeap w1.ctrl.leap} cand={idsStr (candIds w1.ctrl)} held={heldStr w1.ctrl}")
    | none => (s, "bad-op")
  | ["usable", idw, bw] =>
    match kvNat? [idw] "id", kvNat? [bw] "b" with
    | some id, some b => direct s id (.usability (b == 1))
    | _, _ => (s, "bad-op")
  | ["drop", idw] =>
    match kvNat? [idw] "id" with
    | some id => direct s id .dropped
    | none => (s, "bad-op")
  | "msg" :: rest =>
    match kvNat? rest "id", (kv? rest "vals").bind valsOfString?, kv? rest "steer" with
    | some id, some vals, some steer =>
      match (kv? rest "snap").bind (candOfString? id) with
      | some snap => direct s id (.source snap ((kvNat? rest "t").getD 0) vals (steerOfString steer))
      | none => (s, "bad-op")
    | _, _, _ => (s, "bad-op")
  | ["send", idw, what] =>
    match kvNat? [idw] "id" with
    | some id =>
      let m : Option WMsg :=
        if what == "drop" || what == "drop-held" then some .dropped
        else if what == "usable=1" then some (.usability true)
        else if what == "usable=0" then some (.usability false)
        else (kv? [what] "snap").bind (candOfString? id) |>.map (fun c => .source c 100 [] [])
      match m with
      | some m => ({ s with w := (step s.cfg s.w (.send id m)).1 }, "ok")
      | none => (s, "bad-op")
    | none => (s, "bad-op")
  | ["run"] =>
    match drain s [] with
    | (s', some calls) => (s', s!"calls={commaList calls} used={idsStr s'.used} leap={charOfLeap s'.w.ctrl.leap}")
    | (s', none) => (s', "panic")
  | ["vote", ls] =>
    match leapsOfString? ls with
    | some sel => (s, voteStr (voteLeap sel))
    | none => (s, "bad-op")
  | ["combine", ls] =>
    match leapsOfString? ls with
    | some sel => (s, match combineLeap sel with | none => "empty" | some v => voteStr v)
    | none => (s, "bad-op")
  | "select" :: rest =>
    match cfgOfWords? rest, (kv? rest "c").bind candsOfString? with
    | some cfg, some cs => (s, selectStr (NtpVerif.Select.select cfg cs))
    | _, _ => (s, "bad-op")
  | _ => (s, "bad-op")

end SelectDriver

def main (_args : List String) : IO Unit := do
  runLoop ({} : SelectDriver.St) (SelectDriver.stepLine (_args.contains "loop")) (← IO.getStdin) (← IO.getStdout)
