/- Model driver for the NtpSource state machine (C07–C12, C14, C33): line protocol on stdin/stdout. -/
import NtpVerif.Basic.LineIO
import NtpVerif.Model.SourceSM
import NtpVerif.Model.SourceBytes

open NtpVerif NtpVerif.LineIO NtpVerif.CookieStash NtpVerif.SourceSM

/-- list of byte strings: `-` = empty list, items comma separated, an empty item is `e` -/
def bytesList? (s : String) : Option (List (List UInt8)) :=
  if s == "-" then some [] else
  (s.splitOn ",").mapM fun w => if w == "e" then some [] else bytesOfHexChars w.toList

def natList? (s : String) : Option (List Nat) :=
  if s == "-" then some [] else (s.splitOn ",").mapM String.toNat?

def proto? (s : String) : Option Proto :=
  match s.splitOn ":" with
  | ["v4"] => some .v4
  | ["v5"] => some .v5
  | ["upd"] => some .upgraded
  | ["up", n] => n.toNat?.map .upgrading
  | _ => none

def protoStr : Proto → String
  | .v4 => "v4"
  | .v5 => "v5"
  | .upgraded => "upd"
  | .upgrading n => s!"up:{n}"

def optBool? (s : String) : Option (Option Bool) :=
  if s == "none" then some none else if s == "1" then some (some true) else if s == "0" then some (some false)
  else none

def optBoolStr : Option Bool → String
  | none => "none"
  | some true => "1"
  | some false => "0"

def kiss? (s : String) : Option Kiss :=
  match s with
  | "deny" => some .deny | "rate" => some .rate | "rstr" => some .rstr | "ntsn" => some .ntsn
  | "other" => some .other | _ => none

def bool? (s : String) : Option Bool := if s == "1" then some true else if s == "0" then some false else none

/-- deterministic cookie of the `cfg stash=len:count` initialisation: `len` bytes of value `i+1` -/
def cfgCookie (len i : Nat) : Cookie := List.replicate len (UInt8.ofNat (i + 1))

def stashOf (len count : Nat) : Option Stash :=
  (List.range count).foldlM (fun st i => storeChecked st (cfgCookie len i)) CookieStash.init

def parseCfg (ws : List String) : Option State := do
  let mn ← kvInt? ws "min"
  let mx ← kvInt? ws "max"
  let nts ← (kv? ws "nts").bind bool?
  let proto ← (kv? ws "proto").bind proto?
  let ls ← kvNat? ws "lstrat"
  let lids ← (kv? ws "lids").bind natList?
  let sid ← kvNat? ws "sid"
  let bloom ← (kv? ws "bloom").bind optBool?
  let stash ← match kv? ws "stash" with
    | none => some CookieStash.init
    | some v => match v.splitOn ":" with
      | [l, c] => do stashOf (← l.toNat?) (← c.toNat?)
      | _ => none
  let s := SourceSM.init ⟨⟨mn, mx⟩, ls, lids, sid⟩ proto (if nts then some stash else none)
  let s := { s with bloom := bloom }
  let s := match kvNat? ws "reach" with | some r => { s with reach := r } | none => s
  let s := match kvNat? ws "tries" with | some r => { s with tries := r } | none => s
  let s := match kvNat? ws "strat" with | some r => { s with stratum := r } | none => s
  let s := match kvInt? ws "rmin" with | some r => { s with remoteMinPoll := r } | none => s
  pure s

def parsePkt (ws : List String) : Option Pkt := do
  pure {
    version := ← kvNat? ws "v", mode := ← kvNat? ws "m", stratum := ← kvNat? ws "st",
    poll := ← kvInt? ws "pl", kiss := ← (kv? ws "kc").bind kiss?, refid := ← kvNat? ws "rid",
    refTs := ← kvHex64? ws "rts", origin := ← kvHex64? ws "org",
    uidAuth := ← (kv? ws "ua").bind bytesList?, uidEnc := ← (kv? ws "ue").bind bytesList?,
    uidUntr := ← (kv? ws "uu").bind bytesList?, authnak := ← (kv? ws "an").bind bool?,
    cookiesAuth := ← (kv? ws "ca").bind bytesList?, cookiesEnc := ← (kv? ws "ce").bind bytesList?,
    cookiesUntr := ← (kv? ws "cu").bind bytesList?, rrAuth := ← (kv? ws "ra").bind bool?,
    rrUntr := ← (kv? ws "ru").bind bool?, leap := ← kvNat? ws "lp", precision := ← kvInt? ws "pr",
    rootDelay := ← kvInt? ws "rd", rootDisp := ← kvInt? ws "rdp", recvTs := ← kvHex64? ws "rx",
    xmitTs := ← kvHex64? ws "tx" }

def stateStr (s : State) : String :=
  let ck := match s.nts with | none => "-" | some st => toString st.valid
  s!" | reach={s.reach} unans={tz8 s.reach} lp={s.lastPoll} ck={ck} proto={protoStr s.proto} strat={s.stratum} rid={s.refid} bl={optBoolStr s.bloom}"

def timerStr : SourceSM.TimerOut → String
  | .reset => "reset"
  | .demobilize => "demobilize"
  | .panic => "panic"
  | .send i =>
    let ck := match i.cookie with | none => "none" | some c => hexOfBytes c
    s!"send v={i.version} poll={pollByte i.poll} upg={boolStr i.upgrade} ck={ck} n={i.nCookies} len={i.len} us={boolStr i.usable} jit={boolStr i.jitterOk}"

def inStr : InOut → String
  | .ignore => "ignore"
  | .demobilize => "demobilize"
  | .panic => "panic"
  | .accepted u m k =>
    s!"acc ord={callsOrd (InOut.accepted u m k).calls} us={boolStr u} m={hex64 m.sendTs},{hex64 m.srvRecvTs},{hex64 m.srvXmitTs},{hex64 m.recvTs},{m.rootDelay},{m.rootDisp},{m.leap},{m.precision}"

def acceptStr : Except AcceptErr Unit → String
  | .ok _ => "ok"
  | .error .stratum => "err:Stratum"
  | .error .loop => "err:Loop"
  | .error .unreachable => "err:ServerUnreachable"

/-- `ntp:<stratum>:<sourceId>:<bits|none>`, `ext:<stratum>:<sourceId>`, `missing` -/
def srcSnap? (w : String) : Option (Option SrcSnap) :=
  match w.splitOn ":" with
  | ["missing"] => some none
  | ["ext", s, i] => do pure (some (.ext (← s.toNat?) (← i.toNat?)))
  | ["ntp", s, i, b] => do
    let bits ← if b == "none" then some none else (natList? (b.replace "." ",")).map some
    pure (some (.ntp (← s.toNat?) (← i.toNat?) bits))
  | _ => none

def dedupSorted (l : List Nat) : List Nat :=
  let a := l.toArray.qsort (· < ·)
  a.toList.eraseDups

def advertStr (a : Advert) : String :=
  s!"strat={a.stratum} rid={a.refid} bits={commaList ((dedupSorted a.bloomBits).map toString)}"

structure DState where
  s : State
  adv : Advert
  /-- ideal-AEAD table: the sealings performed so far in this case (byte mode) -/
  table : NtpVerif.Wire.Table := []

/-- names of the record fields on which the model's record (from the bytes) and the harness' record differ -/
def pktDiff (a b : Option Pkt) : String :=
  match a, b with
  | none, none => ""
  | some _, none => "model=ok,rust=err"
  | none, some _ => "model=err,rust=ok"
  | some x, some y =>
    let fs : List (String × Bool) := [
      ("v", x.version == y.version), ("m", x.mode == y.mode), ("st", x.stratum == y.stratum), ("pl", x.poll == y.poll),
      ("kc", x.kiss == y.kiss), ("rid", x.refid == y.refid), ("rts", x.refTs == y.refTs), ("org", x.origin == y.origin),
      ("ua", x.uidAuth == y.uidAuth), ("ue", x.uidEnc == y.uidEnc), ("uu", x.uidUntr == y.uidUntr),
      ("an", x.authnak == y.authnak), ("ca", x.cookiesAuth == y.cookiesAuth), ("ce", x.cookiesEnc == y.cookiesEnc),
      ("cu", x.cookiesUntr == y.cookiesUntr), ("ra", x.rrAuth == y.rrAuth), ("ru", x.rrUntr == y.rrUntr),
      ("lp", x.leap == y.leap), ("pr", x.precision == y.precision), ("rd", x.rootDelay == y.rootDelay),
      ("rdp", x.rootDisp == y.rootDisp), ("rx", x.recvTs == y.recvTs), ("tx", x.xmitTs == y.xmitTs)]
    ",".intercalate ((fs.filter (fun f => !f.2)).map (·.1))

/-- `key;nonce;aad;ct;pt` (hex, `-` = empty) -/
def seal? (w : String) : Option NtpVerif.Wire.Entry :=
  match (w.splitOn ";").mapM bytesOfHex? with
  | some [key, nonce, aad, ct, pt] => some { key := key, nonce := nonce, aad := aad, ct := ct, pt := pt }
  | _ => none

def dinit : DState :=
  { s := SourceSM.init ⟨⟨4, 10⟩, 16, [], 0⟩ .v4 none, adv := ⟨16, REFID_NONE, []⟩ }

def stepLine (d : DState) (line : String) : DState × String :=
  let ws := words line
  match ws with
  | "cfg" :: rest =>
    match parseCfg rest with
    | some s => ({ d with s := s, table := [] }, "ok" ++ stateStr s)
    | none => (d, "bad-op")
  | "incomingb" :: rest =>
    -- byte mode: the record is computed here from the received bytes (parser model + ideal-AEAD table); the
    -- record the harness computed with the real parser is only cross-checked
    match kvNat? rest "now", kv? rest "p", kvHex64? rest "sts", kvHex64? rest "rcv", (kv? rest "ba").bind optBool?,
          kvBytes? rest "bytes", kv? rest "key", kv? rest "seal" with
    | some now, some p, some sts, some rcv, some ba, some bytes, some key, some sealTxt =>
      let table? : Option NtpVerif.Wire.Table :=
        if sealTxt == "-" then some d.table else (seal? sealTxt).map (· :: d.table)
      let key? : Option (Option (List UInt8)) := if key == "-" then some none else (bytesOfHex? key).map some
      let rust : Option (Option Pkt) :=
        if p == "err" then some none else if p == "ok" then (parsePkt rest).map some else none
      match table?, key?, rust with
      | some table, some k, some rustRec =>
        let out := NtpVerif.Wire.parse table.decrypt (NtpVerif.SourceBytes.ctxOf k) bytes
        let pk := NtpVerif.SourceBytes.recordOfParse out
        let flag := (match out with
          | .panic => "model-panic "
          | .fuel => "model-fuel "
          | _ => "") ++ (if pk == rustRec then "" else "record-mismatch:" ++ pktDiff pk rustRec ++ " ")
        let (s', o) := handleIncoming d.s now pk sts rcv ba
        ({ d with s := s', table := table }, flag ++ inStr o ++ stateStr s')
      | _, _, _ => (d, "bad-op")
    | _, _, _, _, _, _, _, _ => (d, "bad-op")
  | "timer" :: rest =>
    match kvNat? rest "now", kvInt? rest "des", kvHex64? rest "org", kvBytes? rest "uid", kvNat? rest "tns" with
    | some now, some des, some org, some uid, some tns =>
      let (s', o) := handleTimer d.s now des org uid tns
      ({ d with s := s' }, timerStr o ++ stateStr s')
    | _, _, _, _, _ => (d, "bad-op")
  | "incoming" :: rest =>
    match kvNat? rest "now", kv? rest "p", kvHex64? rest "sts", kvHex64? rest "rcv", (kv? rest "ba").bind optBool? with
    | some now, some p, some sts, some rcv, some ba =>
      let parsed : Option (Option Pkt) :=
        if p == "err" then some none else if p == "ok" then (parsePkt rest).map some else none
      match parsed with
      | none => (d, "bad-op")
      | some pk =>
        let (s', o) := handleIncoming d.s now pk sts rcv ba
        ({ d with s := s' }, inStr o ++ stateStr s')
    | _, _, _, _, _ => (d, "bad-op")
  | "accept" :: rest =>
    match kvNat? rest "st", kvNat? rest "sid", (kv? rest "bl").bind optBool?, kvNat? rest "reach",
          kvNat? rest "lstrat", (kv? rest "lids").bind natList? with
    | some st, some sid, some bl, some reach, some ls, some lids =>
      (d, acceptStr (accept st sid bl reach ls lids))
    | _, _, _, _, _, _ => (d, "bad-op")
  | "desire" :: _ =>
    -- the controller's desired poll interval changes between two ops: no effect on the source's state — the model's
    -- `handleIncoming` has no desire argument at all, `handleTimer` takes the desire current at that timer
    (d, "ok" ++ stateStr d.s)
  | "note" :: _ => (d, "ok")      -- implementation-only op (manager API call without model-side effect)
  | "advinit" :: rest =>
    match kvNat? rest "strat", kvNat? rest "rid" with
    | some st, some rid =>
      let a : Advert := ⟨st, rid, []⟩
      ({ d with adv := a }, advertStr a)
    | _, _ => (d, "bad-op")
  | "advert" :: rest =>
    match kvNat? rest "lstrat", (kv? rest "own").bind natList?, (kv? rest "srcs") with
    | some ls, some own, some srcs =>
      let items := if srcs == "-" then some [] else (srcs.splitOn ",").mapM srcSnap?
      match items with
      | none => (d, "bad-op")
      | some items =>
        let a := updateUsedSources d.adv ls own items
        ({ d with adv := a }, advertStr a)
    | _, _, _ => (d, "bad-op")
  | _ => (d, "bad-op")

def main (_args : List String) : IO Unit := do
  runLoop dinit stepLine (← IO.getStdin) (← IO.getStdout)
