/- Model driver for the NTS-KE cluster (C28, C29, C30): line protocol on stdin/stdout. -/
import NtpVerif.Basic.LineIO
import NtpVerif.Model.NtsRecord
import NtpVerif.Model.NtsMsg
import NtpVerif.Model.NtsKe

open NtpVerif NtpVerif.LineIO NtpVerif.NtsRecord NtpVerif.NtsMsg

namespace NtsKeDriver

def protoStr : NextProtocol → String
  | .ntpv4 => "v4"
  | .draftNtpv5 => "v5"
  | .unknown v => s!"u{v}"

def aeadStr : Aead → String
  | .siv256 => "a256"
  | .siv512 => "a512"
  | .unknown v => s!"u{v}"

def errCodeStr : ErrorCode → String
  | .unrecognizedCriticalRecord => "crit"
  | .badRequest => "bad"
  | .internalServerError => "ise"
  | .unknown v => s!"u{v}"

def bytesList (xs : List Bytes) : String := "[" ++ ",".intercalate (xs.map hexOfBytes) ++ "]"

def recordStr : Record → String
  | .endOfMessage => "EndOfMessage"
  | .nextProtocol ids => s!"NextProtocol({commaList (ids.map protoStr)})"
  | .error c => s!"Error({errCodeStr c})"
  | .warning c => s!"Warning({c})"
  | .aeadAlgorithm ids => s!"AeadAlgorithm({commaList (ids.map aeadStr)})"
  | .newCookie d => s!"NewCookie({hexOfBytes d})"
  | .server n => s!"Server({hexOfBytes n})"
  | .port p => s!"Port({p})"
  | .unknown ty c d => s!"Unknown({ty},{boolStr c},{hexOfBytes d})"
  | .keepAlive => "KeepAlive"
  | .supportedNextProtocolList ps => s!"SupportedNextProtocolList({commaList (ps.map protoStr)})"
  | .supportedAlgorithmList ds =>
    s!"SupportedAlgorithmList({commaList (ds.map fun d => s!"{aeadStr d.id}:{d.keysize}")})"
  | .fixedKeyRequest a b => s!"FixedKeyRequest({hexOfBytes a},{hexOfBytes b})"
  | .ntpServerDeny d => s!"NtpServerDeny({hexOfBytes d})"
  | .authentication k => s!"Authentication({hexOfBytes k})"

def ioErrStr : IoErr → String
  | .unexpectedEof => "UnexpectedEof"
  | .invalidData => "InvalidData"

def msgErrStr : MsgErr → String
  | .io e => "IO:" ++ ioErrStr e
  | .unrecognizedCriticalRecord => "UnrecognizedCriticalRecord"
  | .invalid => "Invalid"
  | .noOverlappingProtocol => "NoOverlappingProtocol"
  | .noOverlappingAlgorithm => "NoOverlappingAlgorithm"
  | .unknownWarning c => s!"UnknownWarning({c})"
  | .error c => s!"Error({errCodeStr c})"
  | .aeadNotSupported v => s!"AeadNotSupported({v})"
  | .incorrectSizedKey => "IncorrectSizedKey"
  | .fuel => "MODEL-FUEL"

def requestStr : Request → String
  | .keyExchange as ps denied =>
    s!"KeyExchange(a={commaList (as.map aeadStr)};p={commaList (ps.map protoStr)};deny={bytesList denied})"
  | .fixedKey auth c2s s2c a p ka =>
    s!"FixedKey(auth={hexOfBytes auth};c2s={hexOfBytes c2s};s2c={hexOfBytes s2c};a={aeadStr a};p={protoStr p};ka={boolStr ka})"
  | .support auth wp wa ka =>
    s!"Support(auth={hexOfBytes auth};wp={boolStr wp};wa={boolStr wa};ka={boolStr ka})"

def responseStr (r : Response) : String :=
  s!"Response(p={protoStr r.protocol};a={aeadStr r.algorithm};cookies={bytesList r.cookies};server={optStr hexOfBytes r.server};port={optStr toString r.port};ka={boolStr r.keepAlive})"

def serStr : Option Bytes → String
  | some b => hexOfBytes b
  | none => "none"

/-! ### C28 / C29 -/

open NtpVerif.NtsKe

def itemStr : Item → String
  | .record r => recordStr r
  | .cookie a c2s s2c => s!"Cookie({aeadStr a},{hexOfBytes c2s},{hexOfBytes s2c})"

def itemsStr (xs : List Item) : String :=
  if xs.isEmpty then "-" else ";".intercalate (xs.map itemStr)

def srvErrStr : SrvErr → String
  | .parse e => msgErrStr e
  | .noOverlappingProtocol => "NoOverlappingProtocol"
  | .noOverlappingAlgorithm => "NoOverlappingAlgorithm"
  | .notPermitted => "NotPermitted"
  | .exportFailed => "MODEL-EXPORT-FAILED"

def connResultStr : ConnResult → String
  | .closed => "closed"
  | .kept => "kept"
  | .err e => "err:" ++ srvErrStr e

def endStr : EndState → String
  | .clean => "clean"
  | .abrupt => "abrupt"
  | .open => "open"

def parseBytesList (s : String) : Option (List Bytes) :=
  let inner := String.ofList ((s.toList.drop 1).dropLast)
  if inner.isEmpty then some [] else (inner.splitOn ",").mapM bytesOfHex?

def parseVersions (s : String) : List NextProtocol :=
  (splitComma s).filterMap fun v =>
    if v == "v4" then some .ntpv4 else if v == "v5" then some .draftNtpv5 else none

def parseOptBytes (s : String) : Option (Option Bytes) :=
  if s == "none" then some none else (bytesOfHex? s).map some

def parseProto (s : String) : Option NextProtocol :=
  if s == "v4" then some .ntpv4 else if s == "v5" then some .draftNtpv5 else none

def parseAead (s : String) : Option Aead :=
  if s == "a256" then some .siv256 else if s == "a512" then some .siv512 else none

/-- `v4:a256:<c2s>:<s2c>,…` → the session's export table -/
def parseExport (s : String) : Export :=
  let entries := (splitComma s).filterMap fun e =>
    match e.splitOn ":" with
    | [p, a, c, d] => do
      let p ← parseProto p
      let a ← parseAead a
      let c ← bytesOfHex? c
      let d ← bytesOfHex? d
      pure (p, a, ({ c2s := c, s2c := d } : Keys))
    | _ => none
  fun p a => (entries.find? fun e => e.1 == p && e.2.1 == a).map (·.2.2)

structure St where
  cfg : Option ServerCfg := none
  «open» : Bool := false
  everKept : Bool := false
  final : Option String := none

def cliErrStr : CliErr → String
  | .parse e => msgErrStr e
  | .invalid => "Invalid"
  | .noCookie => "NoCookie"

def stepKe (s : St) (ws : List String) : Option (St × String) :=
  match ws with
  | "cfg" :: rest => do
    let tokens ← (kv? rest "tokens").bind parseBytesList
    let versions ← kv? rest "versions"
    let server ← (kv? rest "server").bind parseOptBytes
    let portS ← kv? rest "port"
    let port ← if portS == "none" then some none else portS.toNat?.map some
    pure ({ cfg := some { protocols := parseVersions versions, tokens := tokens, server := server, port := port } },
          "ok")
  | "conn" :: rest => do
    let cfg ← s.cfg
    let permit ← kvNat? rest "permit"
    let fin ← kvNat? rest "fin"
    let exp ← kv? rest "exp"
    let bytes ← kvBytes? rest "req"
    let (req, used) := parseRequest bytes
    let out := handleConnection cfg (parseExport exp) (permit == 1) req
    let kept := out.result == .kept
    let leftover := kept && used != bytes.length
    let endS := if out.end == .open && fin == 1 then EndState.clean else out.end
    let line := s!"items={itemsStr out.items} result={connResultStr out.result} end={endStr endS} asked={boolStr out.askedPermit}"
    pure ({ s with «open» := kept && endS == .open, everKept := kept,
                   final := if kept && endS != .open then some "ok" else none },
          if leftover then "MODEL-LEFTOVER" else line)
  | "long" :: rest => do
    let cfg ← s.cfg
    let fin ← kvNat? rest "fin"
    let bytes ← kvBytes? rest "req"
    if !s.open then pure (s, "items=- end=closed") else
    let (req, used) := parseRequest bytes
    let out := handleLongterm cfg req
    let cont := out.result == .kept
    let leftover := cont && used != bytes.length
    let endS := if out.end == .open && fin == 1 then EndState.clean else out.end
    let final : Option String :=
      match out.result with
      | .kept => if endS == .open then none else some "ok"
      | .closed => some "ok"
      | .err e => some ("err:" ++ srvErrStr e)
    pure ({ s with «open» := cont && endS == .open, final := final },
          if leftover then "MODEL-LEFTOVER" else s!"items={itemsStr out.items} end={endStr endS}")
  | ["finish"] =>
    if !s.everKept then some (s, "result=none")
    else match s.final with
      | some f => some (s, "result=" ++ f)
      | none => some (s, "result=ok")     -- the client closes: `UnexpectedEof` arm of `handle_longterm`
  | "client" :: rest => do
    let ver ← kv? rest "ver"
    let expS ← kv? rest "exp"
    let bytes ← kvBytes? rest "resp"
    let version := if ver == "v4" then ClientVersion.v4 else if ver == "v5" then .v5 else .upgrading
    let cfg := ClientCfg.ofVersion version
    let (resp, _) := parseResponse bytes
    -- the export table has the single entry the scripted server computed for the pair its answer names
    let exp : Export := fun p a =>
      match resp, expS.splitOn ":" with
      | .ok r, [c, d] =>
        if r.protocol == p && r.algorithm == a then
          match bytesOfHex? c, bytesOfHex? d with
          | some c, some d => some { c2s := c, s2c := d }
          | _, _ => none
        else none
      | _, _ => none
    let reqTxt := requestStr (clientRequest cfg [])
    match clientFinish cfg exp "localhost".toUTF8.toList resp with
    | .error e => pure (s, s!"req={reqTxt} err:{cliErrStr e}")
    | .ok r =>
      pure (s, s!"req={reqTxt} ok proto={protoStr r.protocol} alg={aeadStr r.algorithm} c2s={hexOfBytes r.keys.c2s} s2c={hexOfBytes r.keys.s2c} cookies={bytesList r.cookies} remote={hexOfBytes r.remote} port={r.port}")
  | _ => none

def stepLine (s : St) (line : String) : St × String :=
  let ws := words line
  match ws with
  | ["rec", h] =>
    match bytesOfHex? h with
    | some b =>
      match parseRecord b with
      | (.ok r, c) => (s, s!"ok {recordStr r} used={c} ser={serStr (serialize r)}")
      | (.error e, c) => (s, s!"err:IO:{ioErrStr e} used={c}")
    | none => (s, "bad-op")
  | ["req", h] =>
    match bytesOfHex? h with
    | some b =>
      match parseRequest b with
      | (.ok r, c) => (s, s!"ok {requestStr r} used={c} ser={serStr (serializeRequest r)}")
      | (.error e, c) => (s, s!"err:{msgErrStr e} used={c}")
    | none => (s, "bad-op")
  | ["resp", h] =>
    match bytesOfHex? h with
    | some b =>
      match parseResponse b with
      | (.ok r, c) => (s, s!"ok {responseStr r} used={c} ser={serStr (serializeResponse r)}")
      | (.error e, c) => (s, s!"err:{msgErrStr e} used={c}")
    | none => (s, "bad-op")
  | _ =>
    match stepKe s ws with
    | some r => r
    | none => (s, "bad-op")

end NtsKeDriver

def main (_args : List String) : IO Unit := do
  runLoop ({} : NtsKeDriver.St) NtsKeDriver.stepLine (← IO.getStdin) (← IO.getStdout)
