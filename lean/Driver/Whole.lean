/- Model driver for the whole-controller stream (`steer_whole`): line protocol on stdin/stdout. -/
import NtpVerif.Basic.LineIO
import NtpVerif.Model.Controller

open NtpVerif NtpVerif.LineIO NtpVerif.Controller NtpVerif.Leap NtpVerif.Kalman2

structure DState where
  cfg : Option Cfg
  c : Ctrl

def dinit : DState := { cfg := none, c := Ctrl.init F64.zero }

def optInt? (s : String) : Option (Option Int) :=
  if s == "inf" then some none else s.toInt?.map some

def threshold? (s : String) : Option Steer.Threshold :=
  match s.splitOn "," with
  | [f, b] => do
    let f ← optInt? f
    let b ← optInt? b
    pure { forward := f, backward := b }
  | _ => none

def kvF? (ws : List String) (k : String) : Option F64 := (kv? ws k).bind F64.ofHex?

def natList? (s : String) : Option (List Nat) :=
  if s == "-" then some [] else (splitComma s).mapM String.toNat?

def parseCfg (ws : List String) : Option (Cfg × Steer.St) := do
  let sat ← kvNat? ws "sat"
  let su ← (kv? ws "su").bind threshold?
  let si ← (kv? ws "si").bind threshold?
  let ac ← (kv? ws "ac").bind optInt?
  let st ← kvF? ws "st"
  let sot ← kvF? ws "sot"
  let sol ← kvF? ws "sol"
  let sft ← kvF? ws "sft"
  let sfl ← kvF? ws "sfl"
  let sm ← kvF? ws "sm"
  let sd ← kvF? ws "sd"
  let ms ← kvF? ws "ms"
  let startup ← kvNat? ws "startup"
  let acc ← kvInt? ws "acc"
  let fo ← kvF? ws "fo"
  let df ← kvF? ws "df"
  let ma ← kvNat? ws "ma"
  let wst ← kvF? ws "ws"
  let wd ← kvF? ws "wd"
  let mu ← kvF? ws "mu"
  let igd ← kvNat? ws "igd"
  let iw ← kvF? ws "iw"
  pure ({ steer := { satOps := sat != 0, startup := su, single := si, accumulated := ac, stepThreshold := st,
                     steerOffsetThreshold := sot, steerOffsetLeftover := sol, steerFreqThreshold := sft,
                     steerFreqLeftover := sfl, slewMax := sm, slewMinDuration := sd, maxSteer := ms },
          sel := { minAgree := ma, wStat := wst, wDelay := wd, maxUnc := mu },
          ignoreDispersion := igd != 0, initialWander := iw },
        { inStartup := startup != 0, acc := acc, freqOffset := fo, desiredFreq := df })

def liOf? : Nat → Option LI
  | 0 => some .noWarning
  | 1 => some .leap61
  | 2 => some .leap59
  | 3 => some .unknown
  | 4 => some .unsync
  | _ => none

def liStr : LI → String
  | .noWarning => "0"
  | .leap61 => "1"
  | .leap59 => "2"
  | .unknown => "3"
  | .unsync => "4"

def parseSnap (ws : List String) (id : Nat) : Option Snap := do
  let t ← kvNat? ws "t"
  let kt ← kvNat? ws "kt"
  let so ← kvF? ws "so"
  let sf ← kvF? ws "sf"
  let p00 ← kvF? ws "p00"
  let p01 ← kvF? ws "p01"
  let p10 ← kvF? ws "p10"
  let p11 ← kvF? ws "p11"
  let w ← kvF? ws "w"
  let sd ← kvF? ws "sd"
  let su ← kvInt? ws "su"
  let sdl ← kvInt? ws "sdl"
  let leap ← (kvNat? ws "leap").bind liOf?
  let per ← (kv? ws "per").bind fun v => if v == "-" then some none else (F64.ofHex? v).map some
  pure { idx := id, period := per, k := { s := { x := ⟨so, sf⟩, P := ⟨p00, p01, p10, p11⟩ }, time := kt }, wander := w,
         delay := sd, srcUnc := su, srcDelay := sdl, leap := leap, lastUpdate := t }

def callStr : Call → String
  | .disable => "disable"
  | .step d => let (s, n) := Steer.asSecondsNanos d; s!"step:{d}:{s}:{n}"
  | .setFreq f => s!"setfreq:{f.toHex}"
  | .errorEstimate a b => s!"err:{a}:{b}"
  | .status l => s!"status:{liStr l}"

def srcMsgStr : Option SrcMsg → String
  | none => "none"
  | some (.step s) => s!"step:{s.toHex}"
  | some (.freqChange s t) => s!"freq:{s.toHex}:{t}"

def snapshotStr : Option (TimeData × Int) → String
  | none => "none"
  | some (td, acc) =>
    s!"{td.rootDelay}:{td.baseTime}:{td.base.toHex}:{td.linear.toHex}:{td.quadratic.toHex}:{td.cubic.toHex}:{liStr td.leap}:{acc}"

def usedStr : Option (List Nat) → String
  | none => "none"
  | some l => if l.isEmpty then "-" else commaList (l.map toString)

def entryStr (p : Nat × Entry) : String :=
  match p.2.snap with
  | none => s!"{p.1}:{boolStr p.2.usable}:-"
  | some s =>
    s!"{p.1}:{boolStr p.2.usable}:{s.k.s.x.x0.toHex}:{s.k.s.x.x1.toHex}:{s.k.s.P.a00.toHex}:{s.k.s.P.a01.toHex}:{s.k.s.P.a10.toHex}:{s.k.s.P.a11.toHex}:{s.k.time}"

def srcsStr (m : List (Nat × Entry)) : String :=
  if m.isEmpty then "-" else String.intercalate ";" (m.map entryStr)

def outStr (o : Out) : String :=
  let calls := commaList (o.calls.map callStr)
  match o.fin with
  | .ok =>
    let st := o.ctrl.st
    s!"{calls} end=ok startup={boolStr st.inStartup} acc={st.acc} fo={st.freqOffset.toHex} df={st.desiredFreq.toHex} sm={srcMsgStr o.pub.srcMsg} used={usedStr o.pub.used} snap={snapshotStr o.pub.snapshot} nu={optStr toString o.pub.nextUpdate} srcs={srcsStr o.ctrl.srcs}"
  | .exit => s!"{calls} end=exit"
  | .panic => s!"{calls} end=panic"

def stepLine (s : DState) (line : String) : DState × String :=
  let ws := words line
  match ws with
  | "cfg" :: rest =>
    match parseCfg rest with
    | some (cfg, st) => ({ cfg := some cfg, c := { srcs := [], st := st, td := TimeData.init } }, "ok")
    | none => (s, "bad-op")
  | "dur" :: rest =>
    match kvF? rest "x" with
    | some x => (s, optStr toString (durationNanos x))
    | none => (s, "bad-op")
  | op :: rest =>
    match s.cfg with
    | none => (s, "bad-op")
    | some cfg =>
      let go (m : Msg) : DState × String :=
        let o := step cfg s.c m
        ({ s with c := o.ctrl }, outStr o)
      match op, kvNat? rest "id" with
      | "add", some id =>
        match (kv? rest "order").bind natList? with
        | some order => go (.add id order)
        | none => (s, "bad-op")
      | "remove", some id =>
        match (kv? rest "order").bind natList? with
        | some order => go (.remove id order)
        | none => (s, "bad-op")
      | "usable", some id =>
        match kvNat? rest "u" with
        | some u => go (.usable id (u != 0))
        | none => (s, "bad-op")
      | "msg", some id =>
        match parseSnap rest id, kvNat? rest "ft" with
        | some snap, some ft => go (.source id snap ft)
        | _, _ => (s, "bad-op")
      | "time_update", _ =>
        match kvNat? rest "ft" with
        | some ft => go (.timeUpdate ft)
        | none => (s, "bad-op")
      | _, _ => (s, "bad-op")
  | [] => (s, "bad-op")

def main (_args : List String) : IO Unit := do
  runLoop dinit stepLine (← IO.getStdin) (← IO.getStdout)
