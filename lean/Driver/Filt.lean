/- Model driver for the `filt` cluster: `drv-filt c20 | c34 | c31` (line protocol on stdin/stdout). -/
import NtpVerif.Basic.LineIO
import NtpVerif.Model.RateCache
import NtpVerif.Model.Bloom
import NtpVerif.Model.IpFilter

open NtpVerif NtpVerif.LineIO

namespace Filt.C20
open NtpVerif.RateCache

/-- driver state: the cache (addresses are byte strings), plus the configured list actions -/
structure St where
  cache : Cache (List UInt8) := Cache.new 0
  denyAct : String := "Deny"
  allowAct : String := "Ignore"

def stepLine (s : St) (line : String) : St × String :=
  let ws := words line
  match ws with
  | "cfg" :: _ =>
    match kvNat? ws "n" with
    | some n => ({ s with cache := Cache.new n,
                          denyAct := (kv? ws "denyact").getD "Deny",
                          allowAct := (kv? ws "allowact").getD "Ignore" }, "ok")
    | none => (s, "bad-op")
  | "wait" :: _ => (s, "ok")
  | "call" :: _ =>
    -- direct `TimestampedCache::is_allowed`
    match kvBytes? ws "a", kvNat? ws "t", kvNat? ws "cutoff", kvNat? ws "slot" with
    | some a, some t, some k, some h =>
      match isAllowed s.cache h a t k with
      | (c, .allowed) => ({ s with cache := c }, "allowed")
      | (c, .limited) => ({ s with cache := c }, "limited")
      | (c, .panic) => ({ s with cache := c }, "panic")
    | _, _, _, _ => (s, "bad-op")
  | "req" :: _ =>
    -- `Server::intended_action`
    match kvBytes? ws "a", kvNat? ws "t", kvNat? ws "cutoff", kvNat? ws "slot",
          kvNat? ws "deny", kvNat? ws "allow" with
    | some a, some t, some k, some h, some d, some al =>
      match intended s.cache (d != 0) (al != 0) h a t k with
      | (c, .denyList) => ({ s with cache := c }, s.denyAct ++ "/Policy")
      | (c, .allowList) => ({ s with cache := c }, s.allowAct ++ "/Policy")
      | (c, .rateLimit) => ({ s with cache := c }, "Ignore/RateLimit")
      | (c, .provideTime) => ({ s with cache := c }, "ProvideTime/Policy")
      | (c, .panic) => ({ s with cache := c }, "panic")
    | _, _, _, _, _, _ => (s, "bad-op")
  | _ => (s, "bad-op")

end Filt.C20

namespace Filt.C34
open NtpVerif.Bloom

structure St where
  server : Filter := Filter.new
  remote : Option Remote := none
  fs : List Filter := List.replicate 4 Filter.new

def natList? (s : String) : Option (List Nat) := (splitComma s).mapM String.toNat?

def setF (s : St) (i : Nat) (f : Filter) : St := { s with fs := s.fs.set i f }

def stepLine (s : St) (line : String) : St × String :=
  let ws := words line
  match ws with
  | "cfg" :: _ =>
    match kvNat? ws "chunk", kvBytes? ws "filter" with
    | some c, some f =>
      let r := Remote.new? c
      ({ s with server := f, remote := r }, if r.isSome then "some" else "none")
    | _, _ => (s, "bad-op")
  | "server" :: _ =>
    -- the server's filter changes, only between complete rounds (else skipped on both sides)
    match kvBytes? ws "filter" with
    | some f =>
      if (s.remote.map fun r => r.next == 0).getD true then ({ s with server := f }, "ok") else (s, "skip")
    | none => (s, "bad-op")
  | "newchunk" :: _ =>
    match kvNat? ws "c" with
    | some c => (s, if (Remote.new? c).isSome then "some" else "none")
    | none => (s, "bad-op")
  | "next" :: _ =>
    match s.remote, kvBytes? ws "cookie" with
    | none, _ => (s, "no-filter")
    | some r, some c =>
      match nextRequest r c with
      | (r', .req q) => ({ s with remote := some r' }, s!"req len={q.payloadLen} off={q.offset}")
      | (r', .panic) => ({ s with remote := some r' }, "panic")
    | _, _ => (s, "bad-op")
  | "resp" :: _ =>
    match s.remote, kvBytes? ws "cookie", kvBytes? ws "bytes" with
    | none, _, _ => (s, "no-filter")
    | some r, some c, some b =>
      let (r', o) := handleResponse r c b
      ({ s with remote := some r' },
        match o with
        | .ok => "ok"
        | .notAwaitingResponse => "err:NotAwaitingResponse"
        | .mismatchedCookie => "err:MismatchedCookie"
        | .mismatchedLength => "err:MismatchedLength"
        | .panic => "panic")
    | _, _, _ => (s, "bad-op")
  | "answer" :: _ =>
    -- the generator's abstract form reaches the model only when there is no filter to answer to
    (s, if s.remote.isNone then "no-filter" else "bad-op")
  | ["full"] =>
    match s.remote with
    | none => (s, "no-filter")
    | some r => (s, match fullFilter r with | some g => "some " ++ hexOfBytes g | none => "none")
  | "srv" :: _ =>
    match kvNat? ws "len", kvNat? ws "off" with
    | some l, some o =>
      (s, match toResponse ⟨l, o⟩ s.server with | some b => "some " ++ hexOfBytes b | none => "none")
    | _, _ => (s, "bad-op")
  | "mkreq" :: _ =>
    match kvNat? ws "len", kvNat? ws "off" with
    | some l, some o =>
      (s, match Request.new? l o with | .some _ => "some" | .none => "none" | .panic => "panic")
    | _, _ => (s, "bad-op")
  | "dec" :: _ =>
    match kvBytes? ws "bytes" with
    | some b =>
      (s, match Request.decode? b with
          | some q => s!"req len={q.payloadLen} off={q.offset}"
          | none => "err:IncorrectLength")
    | none => (s, "bad-op")
  | "addid" :: _ =>
    match kvNat? ws "f", (kv? ws "id").bind natList? with
    | some i, some id =>
      match s.fs[i]? with
      | some f => match addId f id with
        | some f' => (setF s i f', "ok")
        | none => (s, "panic")
      | none => (s, "bad-op")
    | _, _ => (s, "bad-op")
  | "contains" :: _ =>
    match kvNat? ws "f", (kv? ws "id").bind natList? with
    | some i, some id =>
      match s.fs[i]? with
      | some f => (s, match containsId f id with | some true => "1" | some false => "0" | none => "panic")
      | none => (s, "bad-op")
    | _, _ => (s, "bad-op")
  | "add" :: _ =>
    match kvNat? ws "f", kvNat? ws "g" with
    | some i, some j =>
      match s.fs[i]?, s.fs[j]? with
      | some f, some g => (setF s i (add f g), "ok")
      | _, _ => (s, "bad-op")
    | _, _ => (s, "bad-op")
  | "union" :: _ =>
    match kvNat? ws "into", (kv? ws "of").bind natList? with
    | some i, some js =>
      match js.mapM (fun j => s.fs[j]?) with
      | some gs => if i < s.fs.length then (setF s i (union gs), "ok") else (s, "bad-op")
      | none => (s, "bad-op")
    | _, _ => (s, "bad-op")
  | "dump" :: _ =>
    match kvNat? ws "f" with
    | some i =>
      match s.fs[i]? with
      | some f => (s, s!"{hexOfBytes f} ones={countOnes f}")
      | none => (s, "bad-op")
    | none => (s, "bad-op")
  | _ => (s, "bad-op")

end Filt.C34

namespace Filt.C31
open NtpVerif.IpFilter

structure St where
  t4 : Option Tree := none
  t6 : Option Tree := none
  n4 : Option (List Node) := none
  n6 : Option (List Node) := none

def addr? (s : String) : Option Addr :=
  match s.splitOn ":" with
  | ["4", h] => (natOfHex? h).map Addr.v4
  | ["6", h] => (natOfHex? h).map Addr.v6
  | _ => none

def addrStr : Addr → String
  | .v4 a => "4:" ++ hexFixed 8 a
  | .v6 a => "6:" ++ hexFixed 32 a

def net? (s : String) : Option (Addr × Nat) :=
  match s.splitOn "/" with
  | [a, m] => do let a ← addr? a; let m ← m.toNat?; pure (a, m)
  | _ => none

def obsBool : Option Bool → String
  | some true => "1"
  | some false => "0"
  | none => "panic"

def stepLine (s : St) (line : String) : St × String :=
  let ws := words line
  match ws with
  | "cfg" :: _ =>
    match ((kv? ws "nets").map splitComma).bind (fun l => l.mapM net?) with
    | none => (s, "bad-op")
    | some written =>
      -- `IpSubnet::from_str` on each entry (canonicalisation of mapped subnets happens here)
      let parsed := written.map fun am => subnetOfParsed am.1 am.2
      if parsed.any (fun r => match r with | .error _ => true | .ok _ => false) then
        ({ t4 := createT [], t6 := createT [], n4 := createF [], n6 := createF [] }, "err")
      else
        let subnets := parsed.filterMap fun r => match r with | .ok x => some x | .error _ => none
        let l4 := v4list subnets
        let l6 := v6list subnets
        let st : St := { t4 := createT l4, t6 := createT l6, n4 := createF l4, n6 := createF l6 }
        -- tie flat model to tree model: the array must be the layout of the tree
        if st.n4 != st.t4.map flatten || st.n6 != st.t6.map flatten then (st, "flat-tree-mismatch")
        else if st.t4.isNone || st.t6.isNone then (st, "panic")
        else (st, s!"ok n4={l4.length} n6={l6.length}")
  | "in" :: _ =>
    match (kv? ws "a").bind addr? with
    | none => (s, "bad-op")
    | some a =>
      let (rt, rf) :=
        match canonical a with
        | .v4 x => (s.t4.bind fun t => lookupT (FUEL + 1) t (x * 2 ^ 96),
                    s.n4.bind fun n => lookupF n (FUEL + 1) 0 (x * 2 ^ 96))
        | .v6 x => (s.t6.bind fun t => lookupT (FUEL + 1) t x,
                    s.n6.bind fun n => lookupF n (FUEL + 1) 0 x)
      if rt != rf then (s, "flat-tree-mismatch") else (s, obsBool rf)
  | "parse" :: _ =>
    match kv? ws "slash" with
    | some "0" => (s, "err:Subnet")
    | some "1" =>
      match kv? ws "a" with
      | some "bad" => (s, "err:Ip")
      | some astr =>
        match addr? astr, kv? ws "m" with
        | some _, some "bad" => (s, "err:Mask")
        | some a, some m =>
          match m.toNat? with
          | some m =>
            (s, match subnetOfParsed a m with
                | .ok sn => s!"ok {addrStr sn.addr}/{sn.mask}"
                | .error .mask => "err:Mask"
                | .error .maskV4Range => "err:MaskV4Range")
          | none => (s, "bad-op")
        | _, _ => (s, "bad-op")
      | none => (s, "bad-op")
    | _ => (s, "bad-op")
  | _ => (s, "bad-op")

end Filt.C31

def main (args : List String) : IO Unit := do
  let stdin ← IO.getStdin
  let stdout ← IO.getStdout
  match args with
  | ["c20"] => runLoop ({} : Filt.C20.St) Filt.C20.stepLine stdin stdout
  | ["c34"] => runLoop ({} : Filt.C34.St) Filt.C34.stepLine stdin stdout
  | ["c31"] => runLoop ({} : Filt.C31.St) Filt.C31.stepLine stdin stdout
  | _ => IO.eprintln "usage: drv-filt c20|c34|c31"; IO.Process.exit 2
