//! verification harness module included into `statime-wire/src/common/tlv.rs` (guarded hook).
