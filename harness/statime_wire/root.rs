//! verification harness module included into `statime-wire/src/lib.rs` (guarded hook).
