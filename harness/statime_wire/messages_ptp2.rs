//! C41 harness: included into `statime-wire/src/messages/mod.rs` (guarded hook).
//!
//! Streams
//!   c41_typed      typed generation with the library's own types (all ten bodies, random headers, TLV
//!                  sets of 0-6 TLVs with even lengths incl. a trailing empty one), serialised by the REAL
//!                  `Message::serialize`; oracle: parses back to an equal message (also with trailing padding)
//!   c41_malformed  the same datagrams mangled (truncations, length lies, bit flips, reserved bits set,
//!                  TLV length lies), random bytes, large messages up to 4096 bytes
//! c41_typed also has the op  sz ty=<type> seq=<n> cap=<n> tl=<TLV value lengths>  (size classes around the
//! 16-bit messageLength limit: 65 5xx, 65 534 / 65 536 / 65 538, 70 000 .. 200 000 octets): serialise either
//! fails or parses back equal.
//! and the ops  hd maj= min= sdo= dom= seq= li=  /  hn min=  (header fields at their boundaries through the public
//! constructors PtpVersion::new, SdoId::try_from, Header::new: constructor accepts => serialise -> parse is equal).
//! and the op  ts via=<new|set> s= n=  (timestamps through Timestamp::new or try_set_seconds + try_set_nanos at the
//! 2^48 / 10^9 boundaries; rejected ops logged; implementation-only oracle c41_setter_constructor_agree).
//! Both feed the op   de fill=<byte> cap=<n> pkt=<hex>
//! = `Message::deserialize(pkt)`, dump of the parsed message, and its re-serialisation into a `cap`-byte
//! buffer pre-filled with `fill`.  Observation: `err:<Kind>` | `ok h=.. b=.. s=<suffix> re=<bytes|err:Kind>`.
//! Oracle (no model): parse-then-serialise gives back the parsed prefix; a panic anywhere is a failure.
#![allow(clippy::all, clippy::pedantic)]

#[path = "../common/mod.rs"]
mod common;
#[path = "../statime_csptp/ptp_util.rs"]
pub(crate) mod ptp_util;

#[allow(unused_imports)]
use std::prelude::rust_2021::*;
#[allow(unused_imports)]
use std::{format, vec};

use super::super::*;
use crate as wire;
use crate::{
    ClockAccuracy, ClockIdentity, ClockQuality, PortIdentity, TimeInterval, TimeSource, Timestamp, Tlv,
    TlvSetBuilder, TlvType,
};
use common::{hex, kv, unhex, Rng, Run};
use ptp_util::*;

fn err_str(e: &Error) -> &'static str {
    match e {
        Error::BufferTooShort => "err:BufferTooShort",
        Error::Invalid => "err:Invalid",
    }
}

fn port_str(p: &PortIdentity) -> String {
    format!("{}.{}", hex(&p.clock_identity.0), p.port_number)
}

fn time_source_str(t: TimeSource) -> String {
    match t {
        TimeSource::ProfileSpecific(v) => format!("P{}", v),
        TimeSource::Reserved(v) => format!("R{}", v),
        other => format!("N{}", other.to_primitive()),
    }
}

fn dump(m: &Message<'_>) -> String {
    let h = &m.header;
    let f6 = h.alternate_master_flag as u32
        + 2 * h.two_step_flag as u32
        + 4 * h.unicast_flag as u32
        + 32 * h.ptp_profile_specific_1 as u32
        + 64 * h.ptp_profile_specific_2 as u32;
    let f7 = h.leap61 as u32
        + 2 * h.leap59 as u32
        + 4 * h.current_utc_offset_valid as u32
        + 8 * h.ptp_timescale as u32
        + 16 * h.time_tracable as u32
        + 32 * h.frequency_tracable as u32
        + 64 * h.synchronization_uncertain as u32;
    let hs = format!(
        "{}.{}.{}.{}.{}.{}.{}.{}.{}.{}",
        u16::from(h.sdo_id),
        h.version.major(),
        h.version.minor(),
        h.domain_number,
        f6,
        f7,
        h.correction_field.0,
        port_str(&h.source_port_identity),
        h.sequence_id,
        h.log_message_interval as u8
    );
    let bs = match &m.body {
        MessageBody::Sync(b) => format!("0:{}", ts_str(b.origin_timestamp)),
        MessageBody::DelayReq(b) => format!("1:{}", ts_str(b.origin_timestamp)),
        MessageBody::PDelayReq(b) => format!("2:{}", ts_str(b.origin_timestamp)),
        MessageBody::PDelayResp(b) => format!("3:{},{}", ts_str(b.request_receive_timestamp), port_str(&b.requesting_port_identity)),
        MessageBody::FollowUp(b) => format!("8:{}", ts_str(b.precise_origin_timestamp)),
        MessageBody::DelayResp(b) => format!("9:{},{}", ts_str(b.receive_timestamp), port_str(&b.requesting_port_identity)),
        MessageBody::PDelayRespFollowUp(b) => format!("10:{},{}", ts_str(b.response_origin_timestamp), port_str(&b.requesting_port_identity)),
        MessageBody::Announce(b) => format!(
            "11:{},{},{},{},{},{},{},{},{},{}",
            ts_str(b.origin_timestamp),
            b.current_utc_offset as u16,
            b.grandmaster_priority_1,
            b.grandmaster_clock_quality.clock_class,
            acc_str(b.grandmaster_clock_quality.clock_accuracy),
            b.grandmaster_clock_quality.offset_scaled_log_variance,
            b.grandmaster_priority_2,
            hex(&b.grandmaster_identity.0),
            b.steps_removed,
            time_source_str(b.time_source)
        ),
        MessageBody::Signaling(b) => format!("12:{}", port_str(&b.target_port_identity)),
        MessageBody::Management(b) => format!(
            "13:{},{},{},{}",
            port_str(&b.target_port_identity),
            b.starting_boundary_hops,
            b.boundary_hops,
            b.action.to_primitive()
        ),
    };
    let mut sfx = vec![0u8; 4096 + 8];
    let n = m.suffix.serialize(&mut sfx).unwrap_or(0);
    format!("h={} b={} s={}", hs, bs, hex(&sfx[..n]))
}

// ---------------------------------------------------------------------------------------------
// typed generation

fn gen_port(rng: &mut Rng) -> PortIdentity {
    match rng.below(4) {
        0 => PortIdentity::default(),
        1 => PortIdentity { clock_identity: ClockIdentity([0xff; 8]), port_number: 0xffff },
        _ => PortIdentity { clock_identity: ClockIdentity(rng.bytes(8).try_into().unwrap()), port_number: rng.next_u64() as u16 },
    }
}

/// (accuracy, out of the domain that round-trips)
fn gen_acc(rng: &mut Rng) -> (ClockAccuracy, bool) {
    match rng.below(40) {
        0 => (ClockAccuracy::ProfileSpecific(0x7e + rng.below(2) as u8), true),
        1..=8 => (ClockAccuracy::Reserved, false),
        9..=12 => (ClockAccuracy::Unknown, false),
        13..=20 => (ClockAccuracy::ProfileSpecific(*rng.pick(&[0u8, 1, 0x7c, 0x7d, 0x40])), false),
        _ => (ClockAccuracy::from_primitive(0x17 + rng.below(0x1b) as u8), false),
    }
}

fn gen_time_source(rng: &mut Rng) -> (TimeSource, bool) {
    match rng.below(40) {
        0 => (TimeSource::ProfileSpecific(*rng.pick(&[0x10u8, 0xa0, 0x00, 0xff, 0xef])), true),
        1 => (TimeSource::Reserved(*rng.pick(&[0x10u8, 0xa0, 0xf0, 0xfe])), true),
        2..=10 => (TimeSource::ProfileSpecific(0xf0 + rng.below(15) as u8), false),
        11..=18 => (TimeSource::Reserved(*rng.pick(&[0u8, 1, 0x11, 0x38, 0x3a, 0xef, 0xff, 0xa1])), false),
        _ => (TimeSource::from_primitive(*rng.pick(&[0x10u8, 0x20, 0x30, 0x39, 0x40, 0x50, 0x60, 0x90, 0xa0])), false),
    }
}

fn gen_header(rng: &mut Rng) -> Header {
    let b = |rng: &mut Rng| rng.chance(1, 2);
    Header {
        sdo_id: SdoId::try_from(*rng.pick(&[0u16, 0x300, 0xfff, 0x100, 0x0ff, 0xf00, 0x123])).unwrap(),
        version: PtpVersion::new(*rng.pick(&[2u8, 2, 2, 0, 15, 1]), *rng.pick(&[0u8, 1, 15, 7])).unwrap(),
        domain_number: *rng.pick(&[0u8, 128, 255, 1, 127]),
        alternate_master_flag: b(rng),
        two_step_flag: b(rng),
        unicast_flag: b(rng),
        ptp_profile_specific_1: b(rng),
        ptp_profile_specific_2: b(rng),
        leap61: b(rng),
        leap59: b(rng),
        current_utc_offset_valid: b(rng),
        ptp_timescale: b(rng),
        time_tracable: b(rng),
        frequency_tracable: b(rng),
        synchronization_uncertain: b(rng),
        correction_field: TimeInterval(gen_correction(rng)),
        source_port_identity: gen_port(rng),
        sequence_id: *rng.pick(&[0u16, 1, 0xffff, 0x8000, 0x1234, 0x00ff, 0xff00]),
        log_message_interval: *rng.pick(&[0i8, 1, -1, 127, -128, 0x7f, 4]),
    }
}

/// (body, carries an enum payload outside the domain that round-trips)
fn gen_body(rng: &mut Rng) -> (MessageBody, bool) {
    let ts = gen_ts(rng);
    let port = gen_port(rng);
    match rng.below(12) {
        0 => (MessageBody::Sync(SyncMessage { origin_timestamp: ts }), false),
        1 => (MessageBody::DelayReq(DelayReqMessage { origin_timestamp: ts }), false),
        2 => (MessageBody::PDelayReq(PDelayReqMessage { origin_timestamp: ts }), false),
        3 => (MessageBody::PDelayResp(PDelayRespMessage { request_receive_timestamp: ts, requesting_port_identity: port }), false),
        4 => (MessageBody::FollowUp(FollowUpMessage { precise_origin_timestamp: ts }), false),
        5 => (MessageBody::DelayResp(DelayRespMessage { receive_timestamp: ts, requesting_port_identity: port }), false),
        6 => (MessageBody::PDelayRespFollowUp(PDelayRespFollowUpMessage { response_origin_timestamp: ts, requesting_port_identity: port }), false),
        7 | 8 => {
            let (acc, o1) = gen_acc(rng);
            let (src, o2) = gen_time_source(rng);
            (
                MessageBody::Announce(AnnounceMessage {
                    origin_timestamp: ts,
                    current_utc_offset: *rng.pick(&[0i16, 37, -1, i16::MIN, i16::MAX, 0x00ff]),
                    grandmaster_priority_1: rng.next_u64() as u8,
                    grandmaster_clock_quality: ClockQuality {
                        clock_class: *rng.pick(&[248u8, 6, 7, 0, 255]),
                        clock_accuracy: acc,
                        offset_scaled_log_variance: *rng.pick(&[0u16, 0xffff, 0x4e5d, 0x8000, 0x00ff]),
                    },
                    grandmaster_priority_2: rng.next_u64() as u8,
                    grandmaster_identity: ClockIdentity(rng.bytes(8).try_into().unwrap()),
                    steps_removed: *rng.pick(&[0u16, 1, 0xffff, 0x0100, 255]),
                    time_source: src,
                }),
                o1 || o2,
            )
        }
        9 => (MessageBody::Signaling(SignalingMessage { target_port_identity: port }), false),
        _ => (
            MessageBody::Management(ManagementMessage {
                target_port_identity: port,
                starting_boundary_hops: rng.next_u64() as u8,
                boundary_hops: rng.next_u64() as u8,
                action: ManagementAction::from_primitive(rng.below(7) as u8),
            }),
            false,
        ),
    }
}

fn gen_tlvs(rng: &mut Rng, big: bool) -> Vec<(u16, Vec<u8>)> {
    let n = match rng.below(8) {
        0 | 1 => 0,
        2 | 3 => 1,
        4 => 2,
        5 => 3,
        6 => 6,
        _ => 4,
    };
    let mut v = vec![];
    for k in 0..n {
        let ty = *rng.pick(&[0x0001u16, 0x0003, 0x0004, 0x0008, 0x2004, 0x4000, 0x8000, 0x8008, 0xf002, 0xff00, 0xff01, 0xffff, 0x0000, 0x7fff]);
        let len = if big && k == 0 {
            *rng.pick(&[1000usize, 2000, 3000, 3900])
        } else {
            *rng.pick(&[0usize, 0, 2, 4, 6, 18, 20, 64])
        };
        v.push((ty, rng.bytes(len)));
    }
    // F-C41 shape: the LAST TLV has an empty value
    if n > 0 && rng.chance(1, 3) {
        let l = v.len() - 1;
        v[l].1.clear();
    }
    v
}

/// a typed message serialised by the library: (bytes or error, body has out-of-domain enum payload)
fn gen_typed(rng: &mut Rng, run_oracle: Option<&mut Run>, big: bool) -> Vec<u8> {
    let header = gen_header(rng);
    let (body, odd) = gen_body(rng);
    let tlvs = gen_tlvs(rng, big);
    let mut tlv_buf = vec![0u8; 4096];
    let mut builder = TlvSetBuilder::new(&mut tlv_buf);
    for (ty, val) in &tlvs {
        let _ = builder.add(&Tlv { tlv_type: TlvType::from_primitive(*ty), value: val.as_slice().into() });
    }
    let suffix = builder.build();
    let msg = Message { header, body, suffix };
    let mut buf = vec![0u8; 4096];
    match msg.serialize(&mut buf) {
        Ok(n) => {
            let bytes = buf[..n].to_vec();
            if let Some(run) = run_oracle {
                run.hit("typed-serialised");
                // the property, directly: what the library serialises parses back to an equal message,
                // also when followed by padding
                let mut padded = bytes.clone();
                padded.extend_from_slice(&[0xaa, 0x55, 0x01]);
                for (what, b) in [("exact", &bytes), ("padded", &padded)] {
                    match Message::deserialize(b) {
                        Ok(back) if back == msg => {}
                        other => {
                            let attrs = format!("enum_payload_out_of_domain={}", odd as u8);
                            run.oracle_fail(
                                "ser_then_parse",
                                &attrs,
                                &format!("{} {:?} serialises to {} which parses to {:?}", what, msg, hex(&bytes), other),
                            );
                            break;
                        }
                    }
                }
                if n != msg.wire_size() {
                    run.oracle_fail("ser_then_parse", "what=size", "serialize returned a size different from wire_size");
                }
            }
            bytes
        }
        Err(_) => {
            if let Some(run) = run_oracle {
                run.hit("typed-serialise-error");
            }
            // too large for the buffer: fall back to a hand-assembled message
            mk_msg(rng, 0, 0, 0x12, &[0u8; 10], &[])
        }
    }
}

// ---------------------------------------------------------------------------------------------

/// bytes of `pkt[..len]` the codec does not reproduce (reserved fields): true = reserved position/bits only
fn only_reserved_differs(pkt: &[u8], re: &[u8], fill: u8) -> bool {
    if pkt.len() < re.len() || re.len() < 34 {
        return false;
    }
    let ty = pkt[0] & 0x0f;
    for i in 0..re.len() {
        if pkt[i] == re[i] {
            continue;
        }
        let ok = match i {
            6 => (pkt[i] ^ re[i]) & !0x98 == 0 && re[i] & 0x98 == 0,
            7 => (pkt[i] ^ re[i]) & !0x80 == 0 && re[i] & 0x80 == 0,
            16..=19 | 32 => re[i] == 0,
            44..=53 if ty == 2 => re[i] == 0,
            46 if ty == 0xb => re[i] == fill,
            49 if ty == 0xb => re[i] == 0 && ClockAccuracy::from_primitive(pkt[i]) == ClockAccuracy::Reserved,
            44 if ty == 0xd => re[i] == fill,
            47 if ty == 0xd => re[i] == 5 && pkt[i] > 5,
            _ => false,
        };
        if !ok {
            return false;
        }
    }
    true
}


// ---------------------------------------------------------------------------------------------
// size classes around the 16-bit messageLength limit (op `sz`): a message given by a few parameters
// (fixed simple header with sequence id `seq`, body of type `ty` with fixed field values, TLVs of type
// 0x0003 whose k-th value is `len` octets of the byte k), serialised into a zeroed `cap`-octet buffer.

fn sz_body(ty: u8) -> Option<MessageBody> {
    let ts = Timestamp::new(1, 2).unwrap();
    let port = PortIdentity { clock_identity: ClockIdentity([1, 2, 3, 4, 5, 6, 7, 8]), port_number: 9 };
    Some(match ty {
        0 => MessageBody::Sync(SyncMessage { origin_timestamp: ts }),
        2 => MessageBody::PDelayReq(PDelayReqMessage { origin_timestamp: ts }),
        3 => MessageBody::PDelayResp(PDelayRespMessage { request_receive_timestamp: ts, requesting_port_identity: port }),
        8 => MessageBody::FollowUp(FollowUpMessage { precise_origin_timestamp: ts }),
        11 => MessageBody::Announce(AnnounceMessage {
            origin_timestamp: ts,
            current_utc_offset: 37,
            grandmaster_priority_1: 128,
            grandmaster_clock_quality: ClockQuality { clock_class: 248, clock_accuracy: ClockAccuracy::Unknown, offset_scaled_log_variance: 0x4e5d },
            grandmaster_priority_2: 127,
            grandmaster_identity: ClockIdentity([1, 2, 3, 4, 5, 6, 7, 8]),
            steps_removed: 3,
            time_source: TimeSource::InternalOscillator,
        }),
        13 => MessageBody::Management(ManagementMessage {
            target_port_identity: port,
            starting_boundary_hops: 1,
            boundary_hops: 2,
            action: ManagementAction::from_primitive(0),
        }),
        _ => return None,
    })
}

fn checksum(b: &[u8]) -> u64 {
    b.iter().fold(0u64, |acc, x| (acc * 31 + *x as u64) % 4294967296)
}

fn exec_sz(run: &mut Run, rest: &[&str]) -> String {
    let ty: u8 = kv(rest, "ty").unwrap().parse().unwrap();
    let seq: u16 = kv(rest, "seq").unwrap().parse().unwrap();
    let cap: usize = kv(rest, "cap").unwrap().parse().unwrap();
    let lens: Vec<usize> = match kv(rest, "tl").unwrap() {
        "-" => vec![],
        s => s.split(',').map(|x| x.parse().unwrap()).collect(),
    };
    let Some(body) = sz_body(ty) else { return "bad-op".to_string() };
    let total_tlv: usize = lens.iter().map(|l| 4 + l).sum();
    let mut tlv_buf = vec![0u8; total_tlv];
    let mut builder = TlvSetBuilder::new(&mut tlv_buf);
    for (k, l) in lens.iter().enumerate() {
        let val = vec![k as u8; *l];
        if builder.add(&Tlv { tlv_type: TlvType::from_primitive(3), value: val.as_slice().into() }).is_err() {
            return "err:tlv".to_string();
        }
    }
    let mut header = Header::new(1);
    header.sequence_id = seq;
    let msg = Message { header, body, suffix: builder.build() };
    let total = 34 + total_tlv + (msg.wire_size() - 34 - total_tlv);
    let mut buf = vec![0u8; cap];
    match msg.serialize(&mut buf) {
        Err(e) => {
            run.hit(&format!("sz-{}", err_str(&e)));
            err_str(&e).to_string()
        }
        Ok(n) => {
            let out = &buf[..n];
            // ---- the property: whatever the library serialises parses back to an equal message
            let back = match Message::deserialize(out) {
                Ok(m2) if m2 == msg => "eq".to_string(),
                Ok(_) => "neq".to_string(),
                Err(e) => err_str(&e).to_string(),
            };
            if back != "eq" || n != total {
                run.oracle_fail(
                    "ser_then_parse",
                    &format!("enum_payload_out_of_domain=0 size={}", total),
                    &format!("a {}-octet message (type {}, TLV value lengths {:?}) serialises to {} octets (messageLength field {}) and parses back: {}", total, ty, lens, n, u16::from_be_bytes([out[2], out[3]]), back),
                );
            }
            run.hit(if total >= 65000 { "sz-serialised-large" } else { "sz-serialised" });
            run.nontrivial(&format!("sz {} {}", ty, total));
            format!("ok len={} head={} sum={} back={}", n, hex(&out[..n.min(40)]), checksum(out), back)
        }
    }
}

/// TLV value lengths (even, each < 65536) making the suffix exactly `sfx` octets (`sfx` even, 0 or >= 4)
fn split_tlvs(rng: &mut Rng, mut sfx: usize) -> Vec<usize> {
    let mut v = vec![];
    while sfx > 0 {
        let max_here = (sfx - 4).min(65534);
        let mut l = if sfx - 4 <= 65534 && rng.chance(2, 3) { sfx - 4 } else { (rng.usize(0, max_here / 2)) * 2 };
        // never leave a remainder of 2 (a TLV needs 4 octets)
        if sfx - 4 - l == 2 {
            l = if l >= 2 { l - 2 } else { l + 2 };
        }
        v.push(l);
        sfx -= 4 + l;
        if v.len() > 8 && sfx > 0 {
            // finish quickly
            continue;
        }
    }
    v
}

fn gen_sz(rng: &mut Rng, k: u64) -> String {
    let ty = *rng.pick(&[0u8, 0, 2, 3, 8, 11, 13]);
    let ws = match ty { 2 | 3 => 20, 11 => 30, 13 => 14, _ => 10 };
    let total: usize = match k % 12 {
        0 => 65536,
        1 => 65534,
        2 => 65538,
        3 => 65532,
        4 => 65580,
        5 => 65500 + 2 * rng.usize(0, 50),
        6 => 65500 + 2 * rng.usize(0, 50),
        7 => 131072 + 44,
        8 => 70000 + 2 * rng.usize(0, 1000),
        9 => 200000,
        10 => 65536 + 2 * rng.usize(0, 3),
        _ => 60000 + 2 * rng.usize(0, 2767),
    };
    let total = total.max(34 + ws + 4);
    let lens = split_tlvs(rng, total - 34 - ws);
    let cap = match rng.below(6) {
        0 => total - 2,
        1 => total,
        _ => total + 64,
    };
    let tl = if lens.is_empty() { "-".to_string() } else { lens.iter().map(|l| l.to_string()).collect::<Vec<_>>().join(",") };
    format!("sz ty={} seq={} cap={} tl={}", ty, rng.below(65536), cap, tl)
}

// ---------------------------------------------------------------------------------------------
// constructor-validated header fields (ops `hd`, `hn`): boundary values through the PUBLIC constructors
// `PtpVersion::new`, `SdoId::try_from`, `Header::new`; "constructor accepts => serialise -> parse gives an equal message".

fn hdr_round_trip(run: &mut Run, header: Header, attrs: &str, how: &str) -> String {
    let msg = Message { header, body: MessageBody::Sync(SyncMessage { origin_timestamp: Timestamp::new(1, 2).unwrap() }), suffix: TlvSet::default() };
    let mut buf = vec![0u8; 64];
    match msg.serialize(&mut buf) {
        Err(e) => err_str(&e).to_string(),
        Ok(n) => {
            let out = &buf[..n];
            let back = match Message::deserialize(out) {
                Ok(m2) if m2 == msg => "eq".to_string(),
                Ok(_) => "neq".to_string(),
                Err(e) => err_str(&e).to_string(),
            };
            if back != "eq" {
                run.oracle_fail(
                    "ser_then_parse",
                    attrs,
                    &format!("a header built by {} (the constructor accepted) serialises to {} and parses back: {} ({:?})", how, hex(out), back, Message::deserialize(out).map(|m| m.header.version)),
                );
            }
            format!("ser={} back={}", hex(out), back)
        }
    }
}

fn exec_hd(run: &mut Run, rest: &[&str]) -> String {
    let g = |k: &str| -> u64 { kv(rest, k).unwrap().parse().unwrap() };
    let (maj, min, sdo, dom, seq, li) = (g("maj") as u8, g("min") as u8, g("sdo") as u16, g("dom") as u8, g("seq") as u16, g("li") as u8);
    let ver = PtpVersion::new(maj, min);
    let sd = SdoId::try_from(sdo);
    let head = format!("ver={} sdo={}", if ver.is_ok() { "ok" } else { "err" }, if sd.is_ok() { "ok" } else { "err" });
    run.hit(&format!("hd-{}", head.replace(' ', "-")));
    let (Ok(version), Ok(sdo_id)) = (ver, sd) else { return head };
    let mut header = Header::new(0);
    header.version = version;
    header.sdo_id = sdo_id;
    header.domain_number = dom;
    header.sequence_id = seq;
    header.log_message_interval = li as i8;
    run.nontrivial(&format!("hd {} {} {}", maj, min, sdo));
    let how = format!("PtpVersion::new({}, {}), SdoId::try_from({:#x}), domain {}, sequence id {}, log interval {}", maj, min, sdo, dom, seq, li as i8);
    format!("{} {}", head, hdr_round_trip(run, header, "enum_payload_out_of_domain=0 ctor=validated", &how))
}

fn exec_hn(run: &mut Run, rest: &[&str]) -> String {
    let min: u8 = kv(rest, "min").unwrap().parse().unwrap();
    run.hit(if min < 16 { "hn-in-range" } else { "hn-out-of-range" });
    let attrs = format!("enum_payload_out_of_domain=0 ctor=header_new minor_out_of_range={}", (min >= 16) as u8);
    hdr_round_trip(run, Header::new(min), &attrs, &format!("Header::new({})", min))
}

fn gen_hd(rng: &mut Rng, k: u64) -> String {
    const V: [u8; 9] = [0, 1, 2, 14, 15, 16, 17, 255, 2];
    // first a sweep that puts every boundary value in each position with the other fields valid, then mixes
    let (maj, min, sdo) = if k < 9 {
        (2, V[k as usize], 0)
    } else if k < 18 {
        (V[(k - 9) as usize], 1, 0)
    } else if k < 24 {
        (2, 1, [0u16, 0xfff, 0x1000, 0x1001, 0xffff, 0x0f00][(k - 18) as usize])
    } else {
        (*rng.pick(&V), *rng.pick(&V), *rng.pick(&[0u16, 0, 0xfff, 0x1000, 0x100, 0xffff, 0x0fff, 0x8000]))
    };
    format!(
        "hd maj={} min={} sdo={} dom={} seq={} li={}",
        maj,
        min,
        sdo,
        *rng.pick(&[0u8, 255, 1, 127, 128]),
        *rng.pick(&[0u16, 65535, 1, 0x8000, 0x7fff]),
        *rng.pick(&[0u8, 127, 128, 255, 1])
    )
}

fn gen_hn(rng: &mut Rng, k: u64) -> String {
    const V: [u8; 8] = [0, 1, 14, 15, 16, 17, 255, 2];
    format!("hn min={}", if k < 8 { V[k as usize] } else { *rng.pick(&V) })
}

// ---------------------------------------------------------------------------------------------
// timestamps through BOTH routes (op `ts`): `Timestamp::new(s, n)` or `Timestamp::default()` + `try_set_seconds(s)` +
// `try_set_nanos(n)`, with boundary values; rejected ops are logged as rejected; accepted ones are serialised in a
// Sync and must parse back equal.  Implementation-only oracle `c41_setter_constructor_agree`: for every value,
// the setter accepts it iff the constructor accepts it in that position.  (Timestamp is the only wire type with a
// fallible constructor / setter PAIR; SdoId / PtpVersion have constructors only: ops `hd`, `hn`.)

fn exec_ts(run: &mut Run, rest: &[&str]) -> String {
    let via = kv(rest, "via").unwrap();
    let s: u64 = kv(rest, "s").unwrap().parse().unwrap();
    let n: u32 = kv(rest, "n").unwrap().parse().unwrap();
    // ---- implementation-only oracle: setter verdict == constructor verdict, per field
    let mut probe = Timestamp::default();
    let set_s = probe.try_set_seconds(s).is_ok();
    let new_s = Timestamp::new(s, 0).is_ok();
    let set_n = probe.try_set_nanos(n).is_ok();
    let new_n = Timestamp::new(0, n).is_ok();
    if set_s != new_s {
        run.oracle_fail(
            "c41_setter_constructor_agree",
            "field=seconds",
            &format!("seconds = {}: Timestamp::try_set_seconds {} it, Timestamp::new {} it", s, if set_s { "accepts" } else { "rejects" }, if new_s { "accepts" } else { "rejects" }),
        );
    }
    if set_n != new_n {
        run.oracle_fail(
            "c41_setter_constructor_agree",
            "field=nanos",
            &format!("nanos = {}: Timestamp::try_set_nanos {} it, Timestamp::new {} it", n, if set_n { "accepts" } else { "rejects" }, if new_n { "accepts" } else { "rejects" }),
        );
    }
    let okerr = |b: bool| if b { "ok" } else { "err" };
    let (verdict, ts) = if via == "new" {
        let r = Timestamp::new(s, n);
        (format!("new={}", okerr(r.is_ok())), r.ok())
    } else {
        let mut t = Timestamp::default();
        let a = t.try_set_seconds(s).is_ok();
        let b = t.try_set_nanos(n).is_ok();
        (format!("sec={} nan={}", okerr(a), okerr(b)), if a && b { Some(t) } else { None })
    };
    run.hit(&format!("ts-{}-{}", via, if ts.is_some() { "accepted" } else { "rejected" }));
    let Some(ts) = ts else { return format!("{} rejected", verdict) };
    let msg = Message { header: Header::new(1), body: MessageBody::Sync(SyncMessage { origin_timestamp: ts }), suffix: TlvSet::default() };
    let mut buf = vec![0u8; 64];
    match msg.serialize(&mut buf) {
        Err(e) => format!("{} {}", verdict, err_str(&e)),
        Ok(len) => {
            let out = &buf[..len];
            let back = match Message::deserialize(out) {
                Ok(m2) if m2 == msg => "eq".to_string(),
                Ok(_) => "neq".to_string(),
                Err(e) => err_str(&e).to_string(),
            };
            if back != "eq" {
                run.oracle_fail(
                    "ser_then_parse",
                    "enum_payload_out_of_domain=0 ctor=timestamp",
                    &format!("a Sync whose timestamp ({} s, {} ns) was accepted via {} ({}) serialises to {} and parses back: {} ({:?})", s, n, via, verdict, hex(out), back, Message::deserialize(out).map(|m| m.body)),
                );
            }
            run.nontrivial(&format!("ts {} {}", s >> 40, n / 100_000_000));
            format!("{} ser={} back={}", verdict, hex(out), back)
        }
    }
}

fn gen_ts_op(rng: &mut Rng, k: u64) -> String {
    const S: [u64; 10] = [(1 << 48) - 1, 1 << 48, (1 << 48) + 1, u64::MAX, 0, 1, (1 << 48) - 2, 1 << 47, 1 << 63, 0x0000_ffff_0000_0000];
    const N: [u32; 7] = [999_999_999, 1_000_000_000, 1_000_000_001, u32::MAX, 0, 1, 500_000_000];
    // sweep first: every seconds boundary with valid nanos by both routes, then every nanos boundary, then mixes
    let (via, s, n) = if k < 20 {
        (k % 2, S[(k / 2) as usize], *rng.pick(&[0u32, 999_999_999, 1]))
    } else if k < 34 {
        (k % 2, *rng.pick(&[0u64, (1 << 48) - 1, 1]), N[((k - 20) / 2) as usize])
    } else {
        (rng.below(2), *rng.pick(&S), *rng.pick(&N))
    };
    format!("ts via={} s={} n={}", if via == 0 { "new" } else { "set" }, s, n)
}

fn exec_case(ops: &[String], run: &mut Run) {
    for op in ops {
        run.begin_op(op);
        let w: Vec<&str> = op.split_whitespace().collect();
        match w.as_slice() {
            ["de", rest @ ..] => {
                let pkt = unhex(kv(rest, "pkt").unwrap()).unwrap();
                let fill: u8 = kv(rest, "fill").unwrap().parse().unwrap();
                let cap: usize = kv(rest, "cap").unwrap().parse().unwrap();
                match Message::deserialize(&pkt) {
                    Err(e) => {
                        run.hit(err_str(&e));
                        run.end_op(err_str(&e));
                    }
                    Ok(m) => {
                        let len = u16::from_be_bytes([pkt[2], pkt[3]]) as usize;
                        let mut buf = vec![fill; cap];
                        let re = match m.serialize(&mut buf) {
                            Ok(n) => {
                                let out = &buf[..n];
                                // ---- the property: re-serialises to the parsed prefix
                                if n != len || out != &pkt[..len.min(pkt.len())] {
                                    let ro = n == len && only_reserved_differs(&pkt[..len], out, fill);
                                    run.oracle_fail(
                                        "parse_then_ser",
                                        &format!("reserved_only={}", ro as u8),
                                        &format!("parsed prefix {} re-serialises to {}", hex(&pkt[..len.min(pkt.len())]), hex(out)),
                                    );
                                    run.hit(if ro { "reser-reserved-differs" } else { "reser-differs" });
                                } else {
                                    run.hit("reser-equal");
                                }
                                hex(out)
                            }
                            Err(e) => {
                                if cap >= len {
                                    run.oracle_fail("parse_then_ser", "what=error", &format!("re-serialisation into {} bytes failed for a {}-byte message", cap, len));
                                }
                                run.hit("reser-error");
                                err_str(&e).to_string()
                            }
                        };
                        run.nontrivial(&format!("{} {} {}", pkt[0] & 0x0f, len, m.suffix.tlvs().count()));
                        run.hit(&format!("parsed-type-{}", pkt[0] & 0x0f));
                        run.end_op(&format!("ok {} re={}", dump(&m), re));
                    }
                }
            }
            ["hd", rest @ ..] => {
                let obs = exec_hd(run, rest);
                run.end_op(&obs);
            }
            ["hn", rest @ ..] => {
                let obs = exec_hn(run, rest);
                run.end_op(&obs);
            }
            ["ts", rest @ ..] => {
                let obs = exec_ts(run, rest);
                run.end_op(&obs);
            }
            ["sz", rest @ ..] => {
                let obs = exec_sz(run, rest);
                run.end_op(&obs);
            }
            _ => run.end_op("bad-op"),
        }
    }
}

fn de_op(rng: &mut Rng, pkt: &[u8]) -> String {
    let fill = *rng.pick(&[0u8, 0, 0, 0xaa, 0xff]);
    let cap = match rng.below(10) {
        0 => pkt.len().saturating_sub(1),
        1 => pkt.len(),
        2 => 33,
        3 => 40,
        _ => 4200,
    };
    format!("de fill={} cap={} pkt={}", fill, cap, hex(pkt))
}

#[test]
fn entry() {
    let stream = std::env::var("VERIF_STREAM").unwrap_or_default();
    match stream.as_str() {
        "c41_typed" => {
            // generation needs the oracle (`Run`) while generating: keep generation inside exec by
            // generating first without oracle (deterministic from the case rng) and re-checking in a
            // dedicated pass
            let mut run = Run::from_env("c41_typed");
            if let Some(cases) = Run::replay_cases() {
                for (idx, ops) in cases {
                    run.guarded_case(idx, |r| exec_case(&ops, r));
                }
            } else {
                for idx in 0..run.n {
                    let mut rng = run.rng_for(idx);
                    run.guarded_case(idx, |r| {
                        let n = rng.usize(1, 3);
                        let mut ops = vec![];
                        // size classes around the 16-bit messageLength limit: cases 0..11, then every 250th
                        if idx < 12 || idx % 250 == 0 {
                            ops.push(gen_sz(&mut rng, if idx < 12 { idx } else { idx / 250 }));
                        }
                        // constructor-validated header fields at their boundaries: cases 12..=43, then every 20th
                        if (12..44).contains(&idx) || idx % 20 == 7 {
                            let sweep = (12..44).contains(&idx);
                            let k = if sweep { idx - 12 } else { 100 + idx };
                            ops.push(gen_hd(&mut rng, k));
                            if idx % 3 == 0 || idx % 20 == 7 {
                                ops.push(gen_hn(&mut rng, if sweep { (idx - 12) / 3 } else { 100 }));
                            }
                        }
                        // timestamps through constructor AND setters at their boundaries: cases 44..=77, then every 10th
                        if (44..78).contains(&idx) || idx % 10 == 3 {
                            ops.push(gen_ts_op(&mut rng, if (44..78).contains(&idx) { idx - 44 } else { 100 }));
                        }
                        for _ in 0..n {
                            let big = rng.chance(1, 50);
                            let bytes = gen_typed(&mut rng, Some(r), big);
                            ops.push(de_op(&mut rng, &bytes));
                        }
                        exec_case(&ops, r)
                    });
                }
            }
            run.finish("typed messages (ten bodies, random header fields incl. all flag bits, extreme timestamps / correction fields / identities, 0-6 TLVs with lengths 0,2,..,64 and up to 3900, trailing empty TLV, rare out-of-domain enum payloads) serialised by the real Message::serialize, parsed and re-serialised into buffers of varying size and fill; non-trivial = parsed; distinct by (type, length, #TLVs)");
        }
        "c41_malformed" => common::drive(
            "c41_malformed",
            "library-serialised and hand-assembled datagrams of all ten types mangled (truncation, messageLength lies, trailing padding, bit flips, TLV length lies, type/version/sdoId nibbles), reserved header/body bits set, random bytes 0-100, messages up to 4096 bytes; non-trivial = parsed; distinct by (type, length, #TLVs)",
            |rng, idx, _run| {
                let n = rng.usize(1, 3);
                let mut ops = vec![];
                for k in 0..n {
                    // design-time witness first: 54-byte Sync whose last TLV has an empty value (F-C41)
                    let pkt = if idx == 0 && k == 0 {
                        let h = Hdr { ty: 0, sdo: 0, version: 0x12, domain: 0, flags: [0, 0], correction: 0, reserved4: [0; 4], source: [0; 10], seq: 1, control: 0, log_interval: 0 };
                        assemble(&h, &[0u8; 10], &[(0x0003, vec![1, 2, 3, 4, 5, 6]), (0x8008, vec![])])
                    } else {
                        match rng.below(8) {
                            0 | 1 => {
                                let big = rng.chance(1, 30);
                                let b = gen_typed(rng, None, big);
                                mangle(rng, b)
                            }
                            2 => {
                                // reserved bits / bytes set in an otherwise valid message
                                let mut b = gen_typed(rng, None, false);
                                for _ in 0..rng.usize(1, 3) {
                                    let i = *rng.pick(&[6usize, 7, 16, 17, 18, 19, 32, 44, 46, 47, 49, 50, 53]);
                                    if i < b.len() {
                                        b[i] = match i {
                                            6 => b[i] | *rng.pick(&[0x08u8, 0x10, 0x80, 0x98]),
                                            7 => b[i] | 0x80,
                                            _ => rng.next_u64() as u8,
                                        };
                                    }
                                }
                                b
                            }
                            3 => {
                                let n = rng.usize(0, 100);
                                rng.bytes(n)
                            }
                            4 => {
                                // hand-assembled message of a random type with a random body
                                let ty = *rng.pick(&[0u8, 1, 2, 3, 8, 9, 0xa, 0xb, 0xc, 0xd, 4, 0xf]);
                                let blen = match ty {
                                    2 | 3 | 9 | 0xa => 20,
                                    0xb => 30,
                                    0xd => 14,
                                    _ => 10,
                                };
                                let blen = if rng.chance(1, 6) { blen - 1 } else { blen };
                                let mut body = rng.bytes(blen);
                                if body.len() > 6 && rng.chance(3, 4) {
                                    body[6] &= 0x3f;
                                }
                                let tlvs = gen_tlvs(rng, false);
                                let sdo = rng.below(0x1000) as u16;
                                let v = rng.next_u64() as u8;
                                mk_msg(rng, ty, sdo, v, &body, &tlvs)
                            }
                            5 => {
                                // odd TLV lengths / TLV running over the end
                                let b = gen_typed(rng, None, false);
                                let mut b = b;
                                if b.len() >= 48 {
                                    let i = b.len() - 1 - rng.usize(0, (b.len() - 45).min(40));
                                    b[i] = b[i].wrapping_add(1);
                                }
                                b
                            }
                            6 => {
                                let mut b = gen_typed(rng, None, true);
                                let cut = rng.usize(0, 3);
                                b.truncate(b.len().saturating_sub(cut));
                                b
                            }
                            _ => gen_typed(rng, None, false),
                        }
                    };
                    ops.push(de_op(rng, &pkt));
                }
                ops
            },
            exec_case,
        ),
        other => panic!("unknown VERIF_STREAM {:?}", other),
    }
}
