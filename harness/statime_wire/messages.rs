//! verification harness dispatcher for hook `verif_messages` of crate `statime_wire` (guarded hook).
//! Add one line per property cluster:   #[path = "messages_<cluster>.rs"] mod <cluster>;
//! Each sub-module has its own `#[test] fn entry()` selected by VERIF_STREAM and reaches the private
//! items of the module the hook sits in through `super::super::*`.

#[path = "messages_ptp2.rs"]
mod ptp2;
