//! verification harness module included into `statime-wire/src/messages/mod.rs` (guarded hook).
