//! Shared harness utilities: PRNG, canonical text forms, the per-run writer (ops / impl / oracle / stats).
//! Included by every hook module with `#[path = "../common/mod.rs"] mod common;`.
//! std only (no serde), so it compiles inside every crate.
#![allow(dead_code)]

// the statime crates are `#![no_std]` + `extern crate std`: bring the std prelude and macros in explicitly
#[allow(unused_imports)]
use std::prelude::rust_2021::*;
#[allow(unused_imports)]
use std::{eprintln, format, println, vec};

use std::collections::{BTreeMap, HashSet};
use std::fs::File;
use std::io::{BufWriter, Write};
use std::panic::{catch_unwind, AssertUnwindSafe};
use std::sync::Mutex;

/// SplitMix64: every random choice of a run derives from (VERIF_SEED, stream name, case index).
#[derive(Clone, Debug)]
pub struct Rng(pub u64);

impl Rng {
    pub fn new(seed: u64) -> Self {
        Rng(seed)
    }
    pub fn derive(seed: u64, stream: &str, idx: u64) -> Self {
        let mut h: u64 = seed ^ 0x9E37_79B9_7F4A_7C15;
        for b in stream.bytes() {
            h = (h ^ b as u64).wrapping_mul(0x0100_0000_01B3);
        }
        let mut r = Rng(h ^ idx.wrapping_mul(0xD6E8_FEB8_6659_FD93));
        r.next_u64();
        r
    }
    pub fn next_u64(&mut self) -> u64 {
        self.0 = self.0.wrapping_add(0x9E37_79B9_7F4A_7C15);
        let mut z = self.0;
        z = (z ^ (z >> 30)).wrapping_mul(0xBF58_476D_1CE4_E5B9);
        z = (z ^ (z >> 27)).wrapping_mul(0x94D0_49BB_1331_11EB);
        z ^ (z >> 31)
    }
    /// uniform in [0, n) (n > 0)
    pub fn below(&mut self, n: u64) -> u64 {
        self.next_u64() % n
    }
    /// uniform in [lo, hi] inclusive
    pub fn range(&mut self, lo: i64, hi: i64) -> i64 {
        let span = (hi as i128 - lo as i128 + 1) as u128;
        (lo as i128 + (self.next_u64() as u128 % span) as i128) as i64
    }
    pub fn usize(&mut self, lo: usize, hi: usize) -> usize {
        lo + (self.next_u64() % ((hi - lo + 1) as u64)) as usize
    }
    /// true with probability num/den
    pub fn chance(&mut self, num: u64, den: u64) -> bool {
        self.below(den) < num
    }
    pub fn bytes(&mut self, n: usize) -> Vec<u8> {
        (0..n).map(|_| self.next_u64() as u8).collect()
    }
    pub fn pick<'a, T>(&mut self, xs: &'a [T]) -> &'a T {
        &xs[self.below(xs.len() as u64) as usize]
    }
    pub fn f64_unit(&mut self) -> f64 {
        (self.next_u64() >> 11) as f64 / (1u64 << 53) as f64
    }
}

pub fn hex(bs: &[u8]) -> String {
    if bs.is_empty() {
        return "-".to_string();
    }
    let mut s = String::with_capacity(bs.len() * 2);
    for b in bs {
        s.push_str(&format!("{:02x}", b));
    }
    s
}

pub fn unhex(s: &str) -> Option<Vec<u8>> {
    if s == "-" {
        return Some(vec![]);
    }
    if s.len() % 2 != 0 {
        return None;
    }
    (0..s.len() / 2)
        .map(|i| u8::from_str_radix(s.get(2 * i..2 * i + 2)?, 16).ok())
        .collect()
}

/// 16 hex digits of the bit pattern; every NaN is printed as the canonical quiet NaN (Lean's
/// `Float.toBits` canonicalises NaNs, so payload and sign of a NaN are not part of the protocol)
pub fn f64hex(x: f64) -> String {
    if x.is_nan() {
        return "7ff8000000000000".to_string();
    }
    format!("{:016x}", x.to_bits())
}

pub fn f64unhex(s: &str) -> Option<f64> {
    u64::from_str_radix(s, 16).ok().map(f64::from_bits)
}

pub fn kv<'a>(words: &[&'a str], key: &str) -> Option<&'a str> {
    for w in words {
        if let Some((k, v)) = w.split_once('=') {
            if k == key {
                return Some(v);
            }
        }
    }
    None
}

pub fn comma_list<T: ToString>(xs: &[T]) -> String {
    if xs.is_empty() {
        "-".to_string()
    } else {
        xs.iter().map(|x| x.to_string()).collect::<Vec<_>>().join(",")
    }
}

fn json_str(s: &str) -> String {
    let mut o = String::from("\"");
    for c in s.chars() {
        match c {
            '"' => o.push_str("\\\""),
            '\\' => o.push_str("\\\\"),
            '\n' => o.push_str("\\n"),
            c if (c as u32) < 0x20 => o.push_str(&format!("\\u{:04x}", c as u32)),
            c => o.push(c),
        }
    }
    o.push('"');
    o
}

fn fnv(s: &str) -> u64 {
    let mut h: u64 = 0xcbf2_9ce4_8422_2325;
    for b in s.bytes() {
        h = (h ^ b as u64).wrapping_mul(0x0100_0000_01B3);
    }
    h
}

static LAST_PANIC: Mutex<String> = Mutex::new(String::new());

fn install_panic_hook() {
    std::panic::set_hook(Box::new(|info| {
        let msg = if let Some(s) = info.payload().downcast_ref::<&str>() {
            (*s).to_string()
        } else if let Some(s) = info.payload().downcast_ref::<String>() {
            s.clone()
        } else {
            "?".to_string()
        };
        let loc = info
            .location()
            .map(|l| format!("{}:{}", l.file(), l.line()))
            .unwrap_or_default();
        *LAST_PANIC.lock().unwrap_or_else(|e| e.into_inner()) = format!("{} @ {}", msg, loc);
    }));
}

pub fn last_panic() -> String {
    LAST_PANIC.lock().unwrap_or_else(|e| e.into_inner()).clone()
}

/// One run of one stream: writes `<out>/ops.txt` (what the model is fed), `<out>/impl.txt` (what the
/// implementation did), `<out>/oracle.txt` (property failures seen on the implementation alone) and
/// `<out>/stats.json`.
pub struct Run {
    pub stream: String,
    pub seed: u64,
    pub n: u64,
    pub tier_thorough: bool,
    ops: BufWriter<File>,
    imp: BufWriter<File>,
    oracle: BufWriter<File>,
    out_dir: String,
    distinct: HashSet<u64>,
    hist: BTreeMap<String, u64>,
    samples: Vec<String>,
    evaluations: u64,
    oracle_failures: u64,
    panics: u64,
    cur_case: u64,
    pending_op: Option<String>,
    case_lines: Vec<String>,
    case_nontrivial: bool,
}

impl Run {
    pub fn from_env(stream: &str) -> Run {
        let seed = std::env::var("VERIF_SEED").ok().and_then(|s| s.parse().ok()).unwrap_or(1);
        let n = std::env::var("VERIF_N").ok().and_then(|s| s.parse().ok()).unwrap_or(100);
        let out_dir = std::env::var("VERIF_OUT").unwrap_or_else(|_| "/tmp/verif-out".to_string());
        let tier_thorough = std::env::var("VERIF_TIER").map(|t| t == "thorough").unwrap_or(false);
        std::fs::create_dir_all(&out_dir).expect("create VERIF_OUT");
        let f = |name: &str| BufWriter::new(File::create(format!("{}/{}", out_dir, name)).expect("create"));
        install_panic_hook();
        Run {
            stream: stream.to_string(),
            seed,
            n,
            tier_thorough,
            ops: f("ops.txt"),
            imp: f("impl.txt"),
            oracle: f("oracle.txt"),
            out_dir,
            distinct: HashSet::new(),
            hist: BTreeMap::new(),
            samples: Vec::new(),
            evaluations: 0,
            oracle_failures: 0,
            panics: 0,
            cur_case: 0,
            pending_op: None,
            case_lines: Vec::new(),
            case_nontrivial: false,
        }
    }

    /// Cases to replay (from `VERIF_REPLAY=<file>`: op lines with `case <i>` separators; lines of the
    /// form `# ...` are ignored), if any.
    pub fn replay_cases() -> Option<Vec<(u64, Vec<String>)>> {
        let path = std::env::var("VERIF_REPLAY").ok()?;
        let text = std::fs::read_to_string(path).expect("read VERIF_REPLAY");
        let mut cases: Vec<(u64, Vec<String>)> = Vec::new();
        for line in text.lines() {
            let l = line.trim();
            if l.is_empty() || l.starts_with('#') {
                continue;
            }
            if let Some(rest) = l.strip_prefix("case ") {
                cases.push((rest.trim().parse().unwrap_or(0), Vec::new()));
            } else {
                if cases.is_empty() {
                    cases.push((0, Vec::new()));
                }
                cases.last_mut().unwrap().1.push(l.to_string());
            }
        }
        Some(cases)
    }

    pub fn rng_for(&self, idx: u64) -> Rng {
        Rng::derive(self.seed, &self.stream, idx)
    }

    pub fn begin_case(&mut self, idx: u64) {
        self.cur_case = idx;
        self.evaluations += 1;
        self.case_lines.clear();
        self.case_nontrivial = false;
        writeln!(self.ops, "case {}", idx).unwrap();
        writeln!(self.imp, "case {}", idx).unwrap();
    }

    /// announce the op about to be executed (so a panic can be attributed to it)
    pub fn begin_op(&mut self, op: &str) {
        self.pending_op = Some(op.to_string());
    }

    /// record the observation of the pending op (or of `op` given directly through `op()`)
    pub fn end_op(&mut self, obs: &str) {
        let op = self.pending_op.take().expect("end_op without begin_op");
        self.emit(&op, obs);
    }

    /// replace the pending op's text (used when the op line carries values read back from the
    /// implementation, e.g. `fresh=`) and record its observation
    pub fn end_op_as(&mut self, op: &str, obs: &str) {
        self.pending_op = None;
        self.emit(op, obs);
    }

    pub fn op(&mut self, op: &str, obs: &str) {
        self.pending_op = None;
        self.emit(op, obs);
    }

    fn emit(&mut self, op: &str, obs: &str) {
        debug_assert!(!op.contains('\n') && !obs.contains('\n'));
        writeln!(self.ops, "{}", op).unwrap();
        writeln!(self.imp, "{}", obs).unwrap();
        if self.samples.len() < 12 && self.case_lines.len() < 6 && self.cur_case % 97 < 3 {
            self.case_lines.push(format!("{} -> {}", op, obs));
        }
    }

    /// count a branch / decision arm / error kind reached
    pub fn hit(&mut self, branch: &str) {
        *self.hist.entry(branch.to_string()).or_insert(0) += 1;
    }

    /// mark the current case as non-trivial with the given canonical key (distinctness is by key)
    pub fn nontrivial(&mut self, key: &str) {
        self.case_nontrivial = true;
        self.distinct.insert(fnv(key));
    }

    /// a property failure observed on the implementation alone
    pub fn oracle_fail(&mut self, clause: &str, attrs: &str, text: &str) {
        self.oracle_failures += 1;
        writeln!(self.oracle, "case={} clause={} {} | {}", self.cur_case, clause, attrs, text.replace('\n', " ")).unwrap();
    }

    pub fn end_case(&mut self) {
        if !self.case_lines.is_empty() && self.samples.len() < 12 {
            let s = format!("case {}: {}", self.cur_case, self.case_lines.join(" ; "));
            self.samples.push(s);
        }
    }

    /// run `f` for one case under `catch_unwind`; a panic is recorded as observation `panic` of the
    /// pending op (the rest of the case is skipped on both sides).
    pub fn guarded_case<F: FnOnce(&mut Run)>(&mut self, idx: u64, f: F) {
        self.begin_case(idx);
        let r = catch_unwind(AssertUnwindSafe(|| f(self)));
        if r.is_err() {
            self.panics += 1;
            let msg = last_panic();
            self.hit("panic");
            let op = self.pending_op.take().unwrap_or_else(|| "# panic-outside-op".to_string());
            self.emit(&op, "panic");
            writeln!(self.oracle, "case={} clause=panic site={} | {}", self.cur_case,
                     json_str(&msg).replace(' ', "_"), msg.replace('\n', " ")).unwrap();
            self.oracle_failures += 1;
        }
        self.end_case();
    }

    /// like `guarded_case`, but a panic is an *expected, modelled* outcome: it is reported as the
    /// observation `panic` only (no oracle failure); the property-specific oracle decides.
    pub fn guarded_case_panic_is_obs<F: FnOnce(&mut Run)>(&mut self, idx: u64, f: F) {
        self.begin_case(idx);
        let r = catch_unwind(AssertUnwindSafe(|| f(self)));
        if r.is_err() {
            self.panics += 1;
            self.hit("panic");
            let op = self.pending_op.take().unwrap_or_else(|| "# panic-outside-op".to_string());
            self.emit(&op, "panic");
        }
        self.end_case();
    }

    pub fn finish(mut self, rule: &str) {
        self.ops.flush().unwrap();
        self.imp.flush().unwrap();
        self.oracle.flush().unwrap();
        let mut s = String::from("{");
        s.push_str(&format!("\"stream\":{},", json_str(&self.stream)));
        s.push_str(&format!("\"seed\":{},", self.seed));
        s.push_str(&format!("\"evaluations\":{},", self.evaluations));
        s.push_str(&format!("\"distinct_nontrivial\":{},", self.distinct.len()));
        s.push_str(&format!("\"oracle_failures\":{},", self.oracle_failures));
        s.push_str(&format!("\"panics\":{},", self.panics));
        s.push_str(&format!("\"rule\":{},", json_str(rule)));
        s.push_str("\"histogram\":{");
        let mut first = true;
        for (k, v) in &self.hist {
            if !first {
                s.push(',');
            }
            first = false;
            s.push_str(&format!("{}:{}", json_str(k), v));
        }
        s.push_str("},\"samples\":[");
        for (i, x) in self.samples.iter().enumerate() {
            if i > 0 {
                s.push(',');
            }
            s.push_str(&json_str(x));
        }
        s.push_str("]}");
        std::fs::write(format!("{}/stats.json", self.out_dir), s).unwrap();
    }
}

/// Standard driver for op-interpreting streams: `gen` produces the op lines of case `idx`, `exec`
/// executes op lines against the implementation, logging through `Run`.  With `VERIF_REPLAY` set the
/// op lines come from that file instead (used for replays and shrinking).
pub fn drive<G, E>(stream: &str, rule: &str, mut gen_case: G, mut exec: E)
where
    G: FnMut(&mut Rng, u64, &Run) -> Vec<String>,
    E: FnMut(&[String], &mut Run),
{
    let mut run = Run::from_env(stream);
    if let Some(cases) = Run::replay_cases() {
        for (idx, ops) in cases {
            run.guarded_case(idx, |r| exec(&ops, r));
        }
    } else {
        for idx in 0..run.n {
            let mut rng = run.rng_for(idx);
            let ops = gen_case(&mut rng, idx, &run);
            run.guarded_case(idx, |r| exec(&ops, r));
        }
    }
    run.finish(rule);
}
