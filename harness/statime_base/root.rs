//! verification harness module included into `statime-base/src/lib.rs` (guarded hook).
