//! verification harness dispatcher for hook `verif_time_types` of crate `statime_base` (guarded hook).
//! Add one line per property cluster:   #[path = "time_types_<cluster>.rs"] mod <cluster>;
//! Each sub-module has its own `#[test] fn entry()` selected by VERIF_STREAM and reaches the private
//! items of the module the hook sits in through `super::super::*`.

#[path = "time_types_c32.rs"]
mod c32;
