//! verification harness module included into `statime-base/src/time_types.rs` (guarded hook).
