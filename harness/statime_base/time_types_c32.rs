//! C32 harness (PTP part), included into `statime-base/src/time_types.rs` (guarded hook): grandchild of
//! `statime_base::time_types`, so the raw `u128` / `i128` fields of `Timestamp` / `Duration` are visible.
//! The crate is `#![no_std]` with `extern crate std` (default feature `std`), hence the explicit prelude.
//!
//! Stream c32_ptp: per case 1-8 independent operations on boundary / random 128-bit values, each under
//! its own `catch_unwind`.  The oracle evaluates the wrapping / saturating laws with checked 128-bit
//! arithmetic, independently of the Lean model.  Division by zero panics by Rust's own contract.
#![allow(clippy::all, clippy::pedantic)]

#[path = "../common/mod.rs"]
mod common;

use super::super::*;
use common::{Rng, Run};
use std::panic::{catch_unwind, AssertUnwindSafe};
use std::prelude::v1::*;
use std::{format, vec};

fn pts(x: u128) -> Timestamp<TAI> {
    Timestamp(x, PhantomData)
}

fn rnd128(rng: &mut Rng) -> u128 {
    ((rng.next_u64() as u128) << 64) | rng.next_u64() as u128
}

fn gen_i128(rng: &mut Rng) -> i128 {
    match rng.below(20) {
        0 => 0,
        1 => 1,
        2 => -1,
        3 => i128::MIN,
        4 => i128::MIN + 1,
        5 => i128::MAX,
        6 => i128::MAX - 1,
        7 => 1i128 << 64,
        8 => -(1i128 << 64),
        9 => (1i128 << 126) + rng.range(-2, 2) as i128,
        10 => -(1i128 << 126) + rng.range(-2, 2) as i128,
        11 => i128::MIN / 2 + rng.range(-2, 2) as i128,
        12 => i128::MAX - rng.next_u64() as i128,
        13 => i128::MIN + rng.next_u64() as i128,
        14 | 15 => rng.range(-1000, 1000) as i128,
        16 => (rng.next_u64() as i64 as i128) << 32, // seconds-scale values
        _ => rnd128(rng) as i128,
    }
}

fn gen_u128(rng: &mut Rng) -> u128 {
    match rng.below(10) {
        0 => 0,
        1 => u128::MAX,
        2 => 1u128 << 127,
        3 => (1u128 << 127) - 1,
        4 => rng.below(4) as u128,
        5 => u128::MAX - rng.below(4) as u128,
        6 => (1u128 << 127).wrapping_add(rng.range(-3, 3) as i128 as u128),
        7 => (rng.next_u64() as u128) << 64, // whole seconds
        _ => rnd128(rng),
    }
}

fn gen_scalar(rng: &mut Rng) -> (i128, &'static str) {
    let ty = *rng.pick(&["u8", "i8", "u16", "i16", "u32", "i32", "u64", "i64"]);
    let (lo, hi): (i128, i128) = match ty {
        "i8" => (i8::MIN as i128, i8::MAX as i128),
        "i16" => (i16::MIN as i128, i16::MAX as i128),
        "i32" => (i32::MIN as i128, i32::MAX as i128),
        "i64" => (i64::MIN as i128, i64::MAX as i128),
        "u8" => (0, u8::MAX as i128),
        "u16" => (0, u16::MAX as i128),
        "u32" => (0, u32::MAX as i128),
        _ => (0, u64::MAX as i128),
    };
    let k = match rng.below(10) {
        0 => 0,
        1 => 1,
        2 => -1,
        3 => lo,
        4 => hi,
        5 => 2,
        6 => -2,
        7 => rng.range(-10, 10) as i128,
        _ => (rng.next_u64() as i64 as i128).clamp(lo, hi),
    };
    (k.clamp(lo, hi), ty)
}

const CORPUS: &[&str] = &[
    "pd.div -170141183460469231731687303715884105728 -1 i8",
    "pd.sub -170141183460469231731687303715884105728 1",
    "pd.add 170141183460469231731687303715884105727 1",
    "pd.mul -170141183460469231731687303715884105728 -1 i64",
    "pt.sub 1 340282366920938463463374607431768211455",
    "pt.sub 0 170141183460469231731687303715884105728",
];

fn gen_op(rng: &mut Rng) -> String {
    match rng.below(12) {
        0 | 1 | 2 => {
            let a = gen_u128(rng);
            let b = if rng.chance(1, 3) { a.wrapping_add(gen_i128(rng) as u128) } else { gen_u128(rng) };
            format!("pt.sub {} {}", a, b)
        }
        3 => format!("pt.add {} {}", gen_u128(rng), gen_i128(rng)),
        4 => format!("pt.subd {} {}", gen_u128(rng), gen_i128(rng)),
        5 | 6 => format!("pd.add {} {}", gen_i128(rng), gen_i128(rng)),
        7 | 8 => format!("pd.sub {} {}", gen_i128(rng), gen_i128(rng)),
        9 | 10 => {
            let (k, ty) = gen_scalar(rng);
            format!("pd.mul {} {} {}", gen_i128(rng), k, ty)
        }
        _ => {
            let (k, ty) = gen_scalar(rng);
            format!("pd.div {} {} {}", gen_i128(rng), k, ty)
        }
    }
}

fn gen_case(rng: &mut Rng, idx: u64, _run: &Run) -> Vec<String> {
    if (idx as usize) < CORPUS.len() {
        return vec![CORPUS[idx as usize].to_string()];
    }
    let n = rng.usize(1, 8);
    (0..n).map(|_| gen_op(rng)).collect()
}

macro_rules! with_scalar {
    ($ty:expr, $k:expr, $f:ident, $d:expr) => {
        match $ty {
            "i8" => i8::try_from($k).ok().map(|k| $f!(k, $d)),
            "i16" => i16::try_from($k).ok().map(|k| $f!(k, $d)),
            "i32" => i32::try_from($k).ok().map(|k| $f!(k, $d)),
            "i64" => i64::try_from($k).ok().map(|k| $f!(k, $d)),
            "u8" => u8::try_from($k).ok().map(|k| $f!(k, $d)),
            "u16" => u16::try_from($k).ok().map(|k| $f!(k, $d)),
            "u32" => u32::try_from($k).ok().map(|k| $f!(k, $d)),
            "u64" => u64::try_from($k).ok().map(|k| $f!(k, $d)),
            _ => None,
        }
    };
}

macro_rules! mul_forms {
    ($k:expr, $d:expr) => {{
        let a = ($d * $k).0;
        let b = ($k * $d).0;
        let mut c = $d;
        c *= $k;
        if a == b && b == c.0 { Ok(a) } else { Err((a, b, c.0)) }
    }};
}

macro_rules! div_forms {
    ($k:expr, $d:expr) => {{
        let r: Result<i128, (i128, i128, i128)> = Ok(($d / $k).0);
        r
    }};
}

enum Obs {
    Val(String),
    Panic,
    Bad,
}

fn guarded<T>(f: impl FnOnce() -> T) -> Option<T> {
    catch_unwind(AssertUnwindSafe(f)).ok()
}

/// exact saturated sum / difference / product without wider integers
fn sat_add(a: i128, b: i128) -> i128 {
    a.checked_add(b).unwrap_or(if b > 0 { i128::MAX } else { i128::MIN })
}
fn sat_sub(a: i128, b: i128) -> i128 {
    a.checked_sub(b).unwrap_or(if b < 0 { i128::MAX } else { i128::MIN })
}
fn sat_mul(a: i128, b: i128) -> i128 {
    a.checked_mul(b).unwrap_or(if (a < 0) == (b < 0) { i128::MAX } else { i128::MIN })
}
/// shortest signed difference a - b of two u128 values, by cases (no wrapping primitive)
fn shortest(a: u128, b: u128) -> i128 {
    let half = 1u128 << 127;
    if a >= b {
        let d = a - b;
        if d < half { d as i128 } else { -((u128::MAX - d) as i128) - 1 }
    } else {
        let d = b - a;
        if d <= half { (-((d - 1) as i128)) - 1 } else { (u128::MAX - d) as i128 + 1 }
    }
}

fn exec_op(op: &str, run: &mut Run, interesting: &mut bool) -> Obs {
    let w: Vec<&str> = op.split_whitespace().collect();
    let name = w[0];
    let ty = w.last().copied().unwrap_or("");
    let fail = |run: &mut Run, clause: &str, text: String| {
        run.oracle_fail(clause, &format!("op={}", name), &format!("{}: {}", op, text));
    };
    macro_rules! need {
        ($e:expr) => {
            match $e {
                Some(v) => v,
                None => return Obs::Bad,
            }
        };
    }
    macro_rules! total {
        ($e:expr) => {
            match guarded(|| $e) {
                Some(v) => v,
                None => {
                    fail(run, "panic", format!("panicked: {}", common::last_panic()));
                    return Obs::Panic;
                }
            }
        };
    }
    let u = |k: usize| -> Option<u128> { w.get(k).and_then(|s| s.parse::<u128>().ok()) };
    let i = |k: usize| -> Option<i128> { w.get(k).and_then(|s| s.parse::<i128>().ok()) };
    match name {
        "pt.sub" => {
            let (a, b) = (need!(u(1)), need!(u(2)));
            let r = total!((pts(a) - pts(b)).0);
            let want = shortest(a, b);
            if r != want {
                fail(run, "ts_shortest_difference", format!("got {} want {}", r, want));
            }
            let back = total!((pts(b) + Duration(r)).0);
            let mut back2 = pts(b);
            back2 += Duration(r);
            let fwd = total!((pts(a) - Duration(r)).0);
            if back != a || back2.0 != a || fwd != b {
                fail(run, "ts_add_back", format!("b+(a-b) = {} / {}, a-(a-b) = {}", back, back2.0, fwd));
            }
            let wrapped = (a >= b) != (r >= 0);
            run.hit(if wrapped { "pt.sub-wrap" } else { "pt.sub-plain" });
            *interesting |= wrapped;
            Obs::Val(r.to_string())
        }
        "pt.add" | "pt.subd" => {
            let (a, d) = (need!(u(1)), need!(i(2)));
            let add = name == "pt.add";
            let r = total!(if add { (pts(a) + Duration(d)).0 } else { (pts(a) - Duration(d)).0 });
            let mut asg = pts(a);
            if add {
                asg += Duration(d);
            } else {
                asg -= Duration(d);
            }
            // the difference to the original is the duration again (shortest representative), and undoing restores
            let eff = if add { d } else { d.checked_neg().unwrap_or(i128::MIN) };
            if shortest(r, a) != eff || asg.0 != r {
                fail(run, "ts_wrapping", format!("result {} (assign form {}) differs from a by {}", r, asg.0, shortest(r, a)));
            }
            let undo = total!(if add { (pts(r) - Duration(d)).0 } else { (pts(r) + Duration(d)).0 });
            if undo != a {
                fail(run, "ts_add_back", format!("undo gives {}", undo));
            }
            let wrapped = if (eff >= 0) == true { r < a } else { r > a };
            run.hit(if wrapped { "pt.add-wrap" } else { "pt.add-plain" });
            *interesting |= wrapped;
            Obs::Val(r.to_string())
        }
        "pd.add" | "pd.sub" => {
            let (a, b) = (need!(i(1)), need!(i(2)));
            let add = name == "pd.add";
            let r = total!(if add { (Duration(a) + Duration(b)).0 } else { (Duration(a) - Duration(b)).0 });
            let mut asg = Duration(a);
            if add {
                asg += Duration(b);
            } else {
                asg -= Duration(b);
            }
            let want = if add { sat_add(a, b) } else { sat_sub(a, b) };
            if r != want || asg.0 != r {
                fail(run, "dur_saturating", format!("got {} / {} want {}", r, asg.0, want));
            }
            let s = if add { a.checked_add(b).is_none() } else { a.checked_sub(b).is_none() };
            run.hit(if s { "pd.addsub-saturated" } else { "pd.addsub-exact" });
            *interesting |= s;
            Obs::Val(r.to_string())
        }
        "pd.mul" => {
            let (a, k) = (need!(i(1)), need!(i(2)));
            let d = Duration(a);
            let r = total!(with_scalar!(ty, k, mul_forms, d));
            let r = need!(r);
            let r = match r {
                Ok(v) => v,
                Err(t) => {
                    fail(run, "dur_saturating", format!("d*k, k*d, d*=k disagree: {:?}", t));
                    t.0
                }
            };
            if r != sat_mul(a, k) {
                fail(run, "dur_saturating", format!("got {} want {}", r, sat_mul(a, k)));
            }
            let s = a.checked_mul(k).is_none();
            run.hit(if s { "pd.mul-saturated" } else { "pd.mul-exact" });
            *interesting |= s;
            Obs::Val(r.to_string())
        }
        "pd.div" => {
            let (a, k) = (need!(i(1)), need!(i(2)));
            let d = Duration(a);
            let r = guarded(|| with_scalar!(ty, k, div_forms, d));
            if k == 0 {
                run.hit("pd.div-by-zero");
                return match r {
                    None => Obs::Panic,
                    Some(None) => Obs::Bad,
                    Some(Some(v)) => {
                        fail(run, "dur_div_zero", format!("division by zero returned {:?}", v));
                        Obs::Val(format!("{:?}", v))
                    }
                };
            }
            let Some(r) = r else {
                fail(run, "panic", format!("panicked: {}", common::last_panic()));
                return Obs::Panic;
            };
            let r = need!(r).unwrap_or(0);
            let want = a.checked_div(k).unwrap_or(i128::MAX); // only MIN / -1 overflows: +2^127 saturates to MAX
            if r != want {
                fail(run, "dur_saturating", format!("got {} want {}", r, want));
            }
            let s = a.checked_div(k).is_none();
            run.hit(if s { "pd.div-saturated" } else { "pd.div-exact" });
            *interesting |= s || (a % k != 0 && (a < 0) != (k < 0));
            Obs::Val(r.to_string())
        }
        _ => Obs::Bad,
    }
}

fn exec_case(ops: &[String], run: &mut Run) {
    let mut interesting = false;
    for op in ops {
        run.begin_op(op);
        match exec_op(op, run, &mut interesting) {
            Obs::Val(v) => run.end_op(&v),
            Obs::Panic => {
                run.hit("panic-observed");
                run.end_op("panic")
            }
            Obs::Bad => run.end_op("bad-op"),
        }
    }
    if interesting {
        run.nontrivial(&ops.join("|"));
    }
}

#[test]
fn entry() {
    let stream = std::env::var("VERIF_STREAM").unwrap_or_default();
    match stream.as_str() {
        "c32_ptp" => common::drive(
            "c32_ptp",
            "1-8 independent operations per case on statime Timestamp (u128) / Duration (i128) with operands at 0, ±1, i128::MIN/MAX (±1), ±2^64, ±2^126, 2^127 ± 3 and random, scalars of all eight admitted types at their limits; non-trivial = a case that reached a wrap / saturation / negative-truncation arm; distinct by op text",
            gen_case,
            exec_case,
        ),
        other => std::panic!("unknown VERIF_STREAM {:?}", other),
    }
}
