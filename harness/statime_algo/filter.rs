//! verification harness module included into `statime-algo/src/filter.rs` (guarded hook).
