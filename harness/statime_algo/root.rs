//! verification harness module included into `statime-algo/src/lib.rs` (guarded hook).
