//! verification harness module included into `statime-algo/src/estimator.rs` (guarded hook).
//! Grandchild of `crate::estimator`, so it sees `EstimatorState`'s private fields and `link_delay`.
//!
//! Stream (selected with VERIF_STREAM):
//!   c42_est — random op sequences on a real `EstimatorState<StdKalmanStorage<()>>`: add/remove clocks,
//!             external clocks and links (fresh, duplicate and unknown ids), measurements, time steps,
//!             steer absorptions; `progressd d=<n>` = progress_time to (current time + n raw units of 2^-64 s),
//!             n = 0, ±1, ±2, … around ±4096 (= 2^-52 s = f64::EPSILON seconds), also after large forward steps and at
//!             huge absolute times.  After every op the full table `id ↦ (value, uncertainty)` of every
//!             pool clock (offset and frequency) and every pool link (delay) is dumped through the
//!             public queries; the Lean model must print the same bits.
//!   The oracle evaluates C42 on the implementation alone (tables before/after each op).
#![allow(clippy::all, clippy::pedantic)]

#[path = "../common/mod.rs"]
mod common;

#[allow(unused_imports)]
use std::prelude::v1::*;
#[allow(unused_imports)]
use std::{format, vec};

use super::super::*;
use crate::storage::StdKalmanStorage;
use common::{f64hex, f64unhex, kv, Rng, Run};

pub(crate) type Est = EstimatorState<StdKalmanStorage<()>>;

pub(crate) const NCLOCK: usize = 7;
pub(crate) const NLINK: usize = 8;

/// raw `i128` of a `Duration` (its field is private to statime-base): 32-bit chunks through the public
/// `/ u64`, `* u64`, `-` and the exact `as_seconds` of values below 2³²
pub(crate) fn dur_raw(d: Duration) -> i128 {
    let neg = d < Duration::ZERO;
    // |d|; `ZERO - MIN` saturates to MAX, recognisable by `MAX + MIN = -1 != 0`
    let mut m = if neg { Duration::ZERO - d } else { d };
    if neg && (m + d) != Duration::ZERO {
        return i128::MIN;
    }
    let two32: u64 = 1 << 32;
    let mut out: u128 = 0;
    for i in 0..4 {
        let hi = m / two32;
        let lo = m - hi * two32;
        let chunk = (lo.as_seconds() * 18446744073709551616.0) as u128;
        out |= chunk << (32 * i);
        m = hi;
    }
    if neg {
        -(out as i128)
    } else {
        out as i128
    }
}

/// the `Duration` with the given raw value (2^-64 s units), through public arithmetic only
pub(crate) fn raw_dur(raw: i128) -> Duration {
    let two32: u64 = 1 << 32;
    let unit = Duration::from_seconds_nanos(1, 0) / two32 / two32;
    let mag = raw.unsigned_abs();
    let mut acc = Duration::ZERO;
    for i in (0..4).rev() {
        let chunk = ((mag >> (32 * i)) & 0xffff_ffff) as u64;
        acc = acc * two32 + unit * chunk;
    }
    if raw < 0 {
        Duration::ZERO - acc
    } else {
        acc
    }
}

pub(crate) fn ts_raw(t: Timestamp<TAI>) -> u128 {
    dur_raw(t - Timestamp::UNIX_EPOCH) as u128
}

pub(crate) fn parse_ts(s: &str) -> Option<Timestamp<TAI>> {
    let (a, b) = s.split_once(':')?;
    let nanos: u32 = b.parse().ok()?;
    if nanos >= 1_000_000_000 {
        return None;
    }
    Some(Timestamp::from_seconds_nanos_since_unix_epoch(a.parse().ok()?, nanos))
}

pub(crate) fn err_name(e: &AlgoError) -> &'static str {
    match e {
        AlgoError::UnknownClock(_) => "err:UnknownClock",
        AlgoError::ClockAlreadyExists(_) => "err:ClockAlreadyExists",
        AlgoError::UnknownLink(_) => "err:UnknownLink",
        AlgoError::LinkAlreadyExists(_) => "err:LinkAlreadyExists",
        AlgoError::LinkNotExternal(_) => "err:LinkNotExternal",
        AlgoError::BothClocksExternal(_, _) => "err:BothClocksExternal",
        AlgoError::ClocksEqual(_) => "err:ClocksEqual",
        AlgoError::NonMonotonicTimeProgression { .. } => "err:NonMonotonic",
        AlgoError::CannotRemoveSystemClock(_) => "err:CannotRemoveSystemClock",
        AlgoError::MatrixError(crate::matrix::MatrixError::NotAVector) => "err:NotAVector",
        AlgoError::MatrixError(crate::matrix::MatrixError::NotSquare) => "err:NotSquare",
        AlgoError::MatrixError(crate::matrix::MatrixError::OutOfBounds) => "err:OutOfBounds",
        AlgoError::ClockError(_) => "err:ClockError",
        AlgoError::NotEnoughMeasurements(_) => "err:NotEnoughMeasurements",
        AlgoError::ClockInUse(_, _) => "err:ClockInUse",
    }
}

fn uv(r: Result<UncertainValue, AlgoError>) -> String {
    match r {
        Ok(v) => format!("{},{}", f64hex(v.value), f64hex(v.uncertainty)),
        Err(_) => "-".to_string(),
    }
}

/// one table row per pool clock / created pool link
#[derive(Clone, PartialEq, Debug)]
pub(crate) struct Table {
    pub clocks: Vec<String>,
    pub links: Vec<String>,
}

pub(crate) struct Pool {
    pub clocks: Vec<ClockId>,
    pub links: Vec<Option<(usize, usize, LinkId)>>,
}

impl Pool {
    pub fn new() -> Pool {
        Pool { clocks: (0..NCLOCK).map(|_| ClockId::new()).collect(), links: vec![None; NLINK] }
    }
    /// the `LinkId` named `l` between pool clocks `a`, `b` (created at first mention)
    pub fn link(&mut self, l: usize, a: usize, b: usize) -> Option<LinkId> {
        if l >= NLINK || a >= NCLOCK || b >= NCLOCK {
            return None;
        }
        match self.links[l] {
            Some((a0, b0, id)) => {
                if a0 == a && b0 == b {
                    Some(id)
                } else {
                    None
                }
            }
            None => {
                let id = LinkId::new(self.clocks[a], self.clocks[b])?;
                self.links[l] = Some((a, b, id));
                Some(id)
            }
        }
    }
}

fn table(st: &Est, pool: &Pool) -> Table {
    let clocks = pool
        .clocks
        .iter()
        .map(|&id| {
            if st.is_external_clock(id) {
                "x".to_string()
            } else {
                format!("{};{}", uv(st.clock_offset(id)), uv(st.clock_frequency(id)))
            }
        })
        .collect();
    let links = pool
        .links
        .iter()
        .map(|l| match l {
            Some((_, _, id)) => uv(st.link_delay(*id)),
            None => "-".to_string(),
        })
        .collect();
    Table { clocks, links }
}

fn table_str(st: &Est, t: &Table) -> String {
    format!("t={} c={} l={}", ts_raw(st.current_time()), t.clocks.join("|"), t.links.join("|"))
}

fn f(words: &[&str], key: &str) -> Option<f64> {
    f64unhex(kv(words, key)?)
}
fn u(words: &[&str], key: &str) -> Option<usize> {
    kv(words, key)?.parse().ok()
}

fn interesting_f64(rng: &mut Rng, scale: f64) -> f64 {
    match rng.below(24) {
        0 => 0.0,
        1 => -0.0,
        2 => scale,
        3 => -scale,
        4 => f64::from_bits(rng.next_u64()), // anything, NaN/inf included
        5 => f64::MIN_POSITIVE,
        6 => 1e300,
        _ => (rng.f64_unit() * 2.0 - 1.0) * scale,
    }
}

fn pos_f64(rng: &mut Rng, scale: f64) -> f64 {
    match rng.below(20) {
        0 => 0.0,
        1 => scale,
        2 => f64::from_bits(rng.next_u64()),
        _ => rng.f64_unit() * scale + scale * 1e-3,
    }
}

fn gen_case(rng: &mut Rng, idx: u64, _run: &Run) -> Vec<String> {
    let mut ops = vec![];
    // design-time style witnesses first: removal in the middle of clocks and links (index shifting)
    if idx == 0 {
        let one = f64hex(1.0);
        for k in 0..4 {
            ops.push(format!("addclock id={} off={} offu={} fr={} fru={} w={}", k, f64hex(k as f64 + 0.5), one, f64hex(k as f64 * 1e-6), f64hex(1e-6), f64hex(1e-8)));
        }
        ops.push(format!("addlink l=0 a=0 b=1 d={} du={} dec={}", f64hex(1e-4), f64hex(1e-5), f64hex(1e-3)));
        ops.push(format!("addlink l=1 a=1 b=2 d={} du={} dec={}", f64hex(2e-4), f64hex(1e-5), f64hex(1e-3)));
        ops.push("rmclock id=1".to_string());
        ops.push("rmlink l=0 a=0 b=1".to_string());
        ops.push("rmclock id=0".to_string());
        ops.push("rmclock id=0".to_string());
        ops.push("rmlink l=5 a=0 b=1".to_string());
        ops.push("progress t=10:0".to_string());
        ops.push("progress t=9:999999999".to_string());
        ops.push("progressd d=-1".to_string());
        ops.push("progressd d=-4096".to_string());
        ops.push("progressd d=-4097".to_string());
        ops.push("progressd d=1".to_string());
        ops.push("mid a=7fefffffffffffff b=0000000000000001".to_string());
        ops.push("mid a=7fefffffffffffff b=7fefffffffffffff".to_string());
        ops.push("mid a=0000000000000001 b=0000000000000001".to_string());
        ops.push("sum0".to_string());
        return ops;
    }
    let mut sec: u64 = if rng.chance(1, 30) { u64::MAX - 5 } else if rng.chance(1, 30) { (1u64 << 63) - 3 } else { rng.below(2_000_000_000) };
    let mut nanos: u32 = rng.below(1_000_000_000) as u32;
    ops.push(format!("init t={}:{}", sec, nanos));
    let n = rng.usize(5, 60);
    let small_pool = rng.chance(1, 3);
    let nc = if small_pool { 3 } else { NCLOCK };
    let nl = if small_pool { 3 } else { NLINK };
    // fixed endpoints per link name within a case
    let mut ends: Vec<(usize, usize)> = vec![];
    for _ in 0..NLINK {
        let a = rng.usize(0, nc - 1);
        let mut b = rng.usize(0, nc - 1);
        if a == b {
            b = (a + 1) % nc;
        }
        ends.push((a, b));
    }
    let build_first = rng.chance(2, 3);
    for i in 0..n {
        let r = if build_first && i < 6 { rng.below(30) } else { rng.below(100) };
        match r {
            0..=19 => ops.push(format!(
                "addclock id={} off={} offu={} fr={} fru={} w={}",
                rng.usize(0, nc - 1),
                f64hex(interesting_f64(rng, 1.0)),
                f64hex(pos_f64(rng, 1.0)),
                f64hex(interesting_f64(rng, 1e-4)),
                f64hex(pos_f64(rng, 1e-5)),
                f64hex(pos_f64(rng, 1e-7))
            )),
            20..=29 => {
                let l = rng.usize(0, nl - 1);
                ops.push(format!(
                    "addlink l={} a={} b={} d={} du={} dec={}",
                    l,
                    ends[l].0,
                    ends[l].1,
                    f64hex(interesting_f64(rng, 1e-3)),
                    f64hex(pos_f64(rng, 1e-4)),
                    f64hex(pos_f64(rng, 1e-2))
                ));
            }
            30..=41 => ops.push(format!("rmclock id={}", rng.usize(0, nc - 1))),
            42..=49 => {
                let l = rng.usize(0, nl - 1);
                ops.push(format!("rmlink l={} a={} b={}", l, ends[l].0, ends[l].1));
            }
            50..=54 => ops.push(format!("addext id={}", rng.usize(0, nc - 1))),
            55..=57 => ops.push(format!("rmext id={}", rng.usize(0, nc - 1))),
            58..=61 => {
                // time steps of a few raw Duration units (2^-64 s) around the 2^-52 s = 4096 units mark,
                // often right after a large forward step (the f64 view of such a difference is far below
                // the resolution of the absolute times)
                if rng.chance(1, 2) {
                    sec = sec.wrapping_add(if rng.chance(1, 2) { 1 << 40 } else { rng.below(100_000) });
                    ops.push(format!("progress t={}:{}", sec, nanos));
                }
                let k = rng.usize(1, 4);
                for _ in 0..k {
                    let mag: i128 = *rng.pick(&[1i128, 2, 3, 1 << 10, (1 << 11) - 1, 1 << 11, 4095, 4096, 4097, 1 << 13, 1 << 20, 1 << 32, 1 << 62]);
                    let d = match rng.below(8) {
                        0 => 0,
                        1 | 2 => mag,
                        _ => -mag,
                    };
                    ops.push(format!("progressd d={}", d));
                }
            }
            62..=69 => {
                // time step: mostly forward, sometimes equal, sometimes backwards by a hair or a lot
                match rng.below(10) {
                    0 => {}
                    1 => {
                        if nanos > 0 {
                            nanos -= 1
                        } else if sec > 0 {
                            sec -= 1;
                            nanos = 999_999_999
                        }
                    }
                    2 => sec = sec.wrapping_sub(rng.below(1000)),
                    3 => {
                        nanos = (nanos + 1) % 1_000_000_000;
                        if nanos == 0 {
                            sec = sec.wrapping_add(1)
                        }
                    }
                    4 => sec = sec.wrapping_add(1 << 62),
                    _ => {
                        sec = sec.wrapping_add(rng.below(20));
                        nanos = rng.below(1_000_000_000) as u32;
                    }
                }
                ops.push(format!("progress t={}:{}", sec, nanos));
            }
            70..=89 => {
                let l = rng.usize(0, nl - 1);
                ops.push(format!(
                    "meas l={} a={} b={} fwd={} v={} u={} dl={}",
                    l,
                    ends[l].0,
                    ends[l].1,
                    rng.below(2),
                    f64hex(interesting_f64(rng, 1e-2)),
                    f64hex(pos_f64(rng, 1e-5)),
                    rng.below(2)
                ));
            }
            90..=92 => ops.push(format!("absf id={} d={}", rng.usize(0, nc - 1), f64hex(interesting_f64(rng, 1e-5)))),
            93..=95 => ops.push(format!("abso id={} d={}", rng.usize(0, nc - 1), f64hex(interesting_f64(rng, 1e-2)))),
            96..=97 => ops.push(format!("abss id={} d={}", rng.usize(0, nc - 1), f64hex(interesting_f64(rng, 1e-2)))),
            98 => ops.push(format!("mid a={} b={}", f64hex(interesting_f64(rng, 1e308)), f64hex(interesting_f64(rng, 1.0)))),
            _ => ops.push(format!("durs x={}", f64hex(interesting_f64(rng, 1e6)))),
        }
    }
    ops
}

/// rows of `after` that differ from `before`, except those in `skip`
fn changed(before: &[String], after: &[String], skip: &[usize]) -> Vec<usize> {
    (0..before.len()).filter(|i| !skip.contains(i) && before[*i] != after[*i]).collect()
}

fn exec_case(ops: &[String], run: &mut Run) {
    let mut pool = Pool::new();
    let mut st: Est = EstimatorState::empty(Timestamp::UNIX_EPOCH);
    let mut key = String::new();
    let mut good_removals = 0;
    for op in ops {
        run.begin_op(op);
        let w: Vec<&str> = op.split_whitespace().collect();
        let before = table(&st, &pool);
        let time_before = ts_raw(st.current_time());
        // Some(result) for state ops; the estimator consumes `self`, so a failed op keeps the clone
        let mut touched_clock: Vec<usize> = vec![];
        let mut touched_link: Vec<usize> = vec![];
        let mut structural = false; // add/remove: others must be unchanged
        let mut must_fail = false; // duplicate / unknown id: must fail
        let res: Option<Result<Est, AlgoError>> = match w.as_slice() {
            ["init", rest @ ..] => {
                let Some(t) = kv(rest, "t").and_then(parse_ts) else {
                    run.end_op("bad-op");
                    continue;
                };
                Some(Ok(EstimatorState::empty(t)))
            }
            ["addclock", rest @ ..] => {
                let (Some(id), Some(off), Some(offu), Some(fr), Some(fru), Some(wd)) =
                    (u(rest, "id"), f(rest, "off"), f(rest, "offu"), f(rest, "fr"), f(rest, "fru"), f(rest, "w"))
                else {
                    run.end_op("bad-op");
                    continue;
                };
                if id >= NCLOCK {
                    run.end_op("bad-op");
                    continue;
                }
                structural = true;
                touched_clock.push(id);
                must_fail = st.is_known_clock(pool.clocks[id]);
                Some(st.clone().add_clock(pool.clocks[id], (off, offu).into(), (fr, fru).into(), wd))
            }
            ["rmclock", rest @ ..] => {
                let Some(id) = u(rest, "id").filter(|i| *i < NCLOCK) else {
                    run.end_op("bad-op");
                    continue;
                };
                structural = true;
                touched_clock.push(id);
                must_fail = !st.is_internal_clock(pool.clocks[id]);
                Some(st.clone().remove_clock(pool.clocks[id]))
            }
            ["addext", rest @ ..] => {
                let Some(id) = u(rest, "id").filter(|i| *i < NCLOCK) else {
                    run.end_op("bad-op");
                    continue;
                };
                structural = true;
                touched_clock.push(id);
                must_fail = st.is_known_clock(pool.clocks[id]);
                Some(st.clone().add_external_clock(pool.clocks[id]))
            }
            ["rmext", rest @ ..] => {
                let Some(id) = u(rest, "id").filter(|i| *i < NCLOCK) else {
                    run.end_op("bad-op");
                    continue;
                };
                structural = true;
                touched_clock.push(id);
                must_fail = !st.is_external_clock(pool.clocks[id]);
                Some(st.clone().remove_external_clock(pool.clocks[id]))
            }
            ["addlink", rest @ ..] => {
                let (Some(l), Some(a), Some(b), Some(d), Some(du), Some(dec)) =
                    (u(rest, "l"), u(rest, "a"), u(rest, "b"), f(rest, "d"), f(rest, "du"), f(rest, "dec"))
                else {
                    run.end_op("bad-op");
                    continue;
                };
                let Some(id) = pool.link(l, a, b) else {
                    run.end_op("bad-op");
                    continue;
                };
                structural = true;
                touched_link.push(l);
                must_fail = st.link_delay(id).is_ok()
                    || !st.is_known_clock(pool.clocks[a])
                    || !st.is_known_clock(pool.clocks[b]);
                Some(st.clone().add_link(id, (d, du).into(), dec))
            }
            ["rmlink", rest @ ..] => {
                let (Some(l), Some(a), Some(b)) = (u(rest, "l"), u(rest, "a"), u(rest, "b")) else {
                    run.end_op("bad-op");
                    continue;
                };
                let Some(id) = pool.link(l, a, b) else {
                    run.end_op("bad-op");
                    continue;
                };
                structural = true;
                touched_link.push(l);
                must_fail = st.link_delay(id).is_err();
                Some(st.clone().remove_link(id))
            }
            ["progress", rest @ ..] => {
                let Some(t) = kv(rest, "t").and_then(parse_ts) else {
                    run.end_op("bad-op");
                    continue;
                };
                let r = st.clone().progress_time(t);
                // oracle: fails iff t < time (both below 2^127: plain order), never decreases time
                let traw = ts_raw(t);
                if traw < (1u128 << 127) && time_before < (1u128 << 127) {
                    let back = traw < time_before;
                    if back != r.is_err() {
                        run.oracle_fail("monotone_time", "", &format!("progress_time from {} to {}: is_err={}", time_before, traw, r.is_err()));
                    }
                    run.hit(if back { "progress-backwards" } else if traw == time_before { "progress-equal" } else { "progress-forward" });
                }
                if let Ok(s2) = &r {
                    if ts_raw(s2.current_time()) != traw {
                        run.oracle_fail("monotone_time", "", &format!("time after progress_time({}) is {}", traw, ts_raw(s2.current_time())));
                    }
                }
                Some(r)
            }
            ["progressd", rest @ ..] => {
                // progress_time to (current time + d raw units)
                let Some(d) = kv(rest, "d").and_then(|x| x.parse::<i128>().ok()) else {
                    run.end_op("bad-op");
                    continue;
                };
                let t = st.current_time() + raw_dur(d);
                if dur_raw(raw_dur(d)) != d {
                    run.oracle_fail("harness_raw_dur", "", &format!("raw_dur({}) has raw value {}", d, dur_raw(raw_dur(d))));
                }
                let r = st.clone().progress_time(t);
                // oracle monotone_time, directly on the raw times: a step back (however small) must fail and
                // leave the time alone; otherwise the new time is the requested one, never an earlier one
                if (d < 0) != r.is_err() {
                    run.oracle_fail("monotone_time", "kind=raw_step", &format!("progress_time by {} raw units (2^-64 s): is_err={}", d, r.is_err()));
                }
                if let Ok(s2) = &r {
                    let after = ts_raw(s2.current_time());
                    if time_before < (1u128 << 127) && after < (1u128 << 127) && after < time_before {
                        run.oracle_fail("monotone_time", "kind=raw_step", &format!("time moved backwards: {} -> {} (step {} raw units)", time_before, after, d));
                    }
                    if after != ts_raw(t) {
                        run.oracle_fail("monotone_time", "kind=raw_step", &format!("time after progress_time({}) is {}", ts_raw(t), after));
                    }
                }
                run.hit(if d < 0 { if d >= -4096 { "progressd-back-tiny" } else { "progressd-back" } } else if d == 0 { "progressd-equal" } else { "progressd-forward" });
                Some(r)
            }
            ["meas", rest @ ..] => {
                let (Some(l), Some(a), Some(b), Some(fwd), Some(v), Some(un), Some(dl)) =
                    (u(rest, "l"), u(rest, "a"), u(rest, "b"), u(rest, "fwd"), f(rest, "v"), f(rest, "u"), u(rest, "dl"))
                else {
                    run.end_op("bad-op");
                    continue;
                };
                let Some(id) = pool.link(l, a, b) else {
                    run.end_op("bad-op");
                    continue;
                };
                let dir = if fwd == 1 { id.forward() } else { id.reverse() };
                Some(st.clone().measurement(dir, (v, un).into(), dl == 1))
            }
            ["absf", rest @ ..] | ["abso", rest @ ..] | ["abss", rest @ ..] => {
                let (Some(id), Some(d)) = (u(rest, "id").filter(|i| *i < NCLOCK), f(rest, "d")) else {
                    run.end_op("bad-op");
                    continue;
                };
                let c = pool.clocks[id];
                Some(match w[0] {
                    "absf" => st.clone().absorb_frequency_steer(c, d),
                    "abso" => st.clone().absorb_offset_change(c, d),
                    _ => st.clone().absorb_system_clock_offset_change(c, Duration::from_f64_seconds(d)),
                })
            }
            ["mid", rest @ ..] => {
                let (Some(a), Some(b)) = (f(rest, "a"), f(rest, "b")) else {
                    run.end_op("bad-op");
                    continue;
                };
                run.end_op(&format!("val {}", f64hex(f64::midpoint(a, b))));
                continue;
            }
            ["durs", rest @ ..] => {
                let Some(x) = f(rest, "x") else {
                    run.end_op("bad-op");
                    continue;
                };
                let d = Duration::from_f64_seconds(x);
                run.end_op(&format!("val {} {}", dur_raw(d), f64hex(d.as_seconds())));
                continue;
            }
            ["sum0"] => {
                let e: [f64; 0] = [];
                run.end_op(&format!("val {}", f64hex(e.iter().sum::<f64>())));
                continue;
            }
            _ => {
                run.end_op("bad-op");
                continue;
            }
        };
        let res = res.unwrap();
        let status = match &res {
            Ok(_) => "ok",
            Err(e) => err_name(e),
        };
        run.hit(&format!("{}-{}", w[0], status));
        let ok = res.is_ok();
        if let Ok(s2) = res {
            st = s2;
        }
        let after = table(&st, &pool);
        // ---- oracle: C42 on the implementation alone
        if must_fail && ok {
            run.oracle_fail("failed_ops_no_change", &format!("op={}", w[0]), &format!("{} on a duplicate/unknown id succeeded", op));
        }
        if !ok && (after != before || ts_raw(st.current_time()) != time_before) {
            run.oracle_fail("failed_ops_no_change", &format!("op={}", w[0]), &format!("failed op {} changed the estimator", op));
        }
        if structural && ok {
            let cc = changed(&before.clocks, &after.clocks, &touched_clock);
            let lc = changed(&before.links, &after.links, &touched_link);
            if !cc.is_empty() || !lc.is_empty() {
                run.oracle_fail(
                    "others_unchanged",
                    &format!("op={}", w[0]),
                    &format!("{} changed the estimates of other clocks {:?} / links {:?}: before {:?} after {:?}", op, cc, lc, before, after),
                );
            }
            // removal with something behind the removed block is the interesting arm
            if (w[0] == "rmclock" || w[0] == "rmlink")
                && before.clocks.iter().chain(before.links.iter()).filter(|r| r.len() > 1).count() >= 3
            {
                good_removals += 1;
            }
        }
        key.push_str(&format!("{}{};", &w[0][..3.min(w[0].len())], if ok { "+" } else { "-" }));
        if w[0].starts_with("rm") || w[0].starts_with("add") {
            key.push_str(w[1]);
        }
        run.end_op(&format!("{} {}", status, table_str(&st, &after)));
    }
    if good_removals > 0 {
        run.nontrivial(&key);
    }
}

#[test]
fn entry() {
    let stream = std::env::var("VERIF_STREAM").unwrap_or_default();
    match stream.as_str() {
        "c42_est" => common::drive(
            "c42_est",
            "op sequences (5-60 ops) on EstimatorState: add/remove clocks, external clocks, links (fresh/duplicate/unknown ids), measurements, time steps (forward/equal/backward/wrapping), steer absorptions; full (value,uncertainty) table dumped after every op; non-trivial = a removal succeeded with at least two other live entries; distinct by op-kind/outcome string",
            gen_case,
            exec_case,
        ),
        other => panic!("unknown VERIF_STREAM {:?}", other),
    }
}
