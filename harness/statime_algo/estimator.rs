//! verification harness dispatcher for hook `verif_estimator` of crate `statime_algo` (guarded hook).
//! Add one line per property cluster:   #[path = "estimator_<cluster>.rs"] mod <cluster>;
//! Each sub-module has its own `#[test] fn entry()` selected by VERIF_STREAM and reaches the private
//! items of the module the hook sits in through `super::super::*`.

#[path = "estimator_ptpalgo.rs"]
mod ptpalgo;
