//! verification harness module included into `statime-algo/src/estimator.rs` (guarded hook).
