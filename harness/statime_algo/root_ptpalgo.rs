//! verification harness module included into `statime-algo/src/lib.rs` (guarded hook): C43 (and the
//! controller-level part of C42).  Grandchild of the crate root, so it sees `KalmanController::state`,
//! `KalmanControllerState::{filter, clocks}`.
//!
//! Stream c43_ctrl: a real `KalmanController<StdKalmanStorage<Mock>, Mock>` with recording mock clocks,
//! untracked links, measurements, time ticks, clock additions/removals, queries.
//!   * before every `link.measurement` the harness computes, with the REAL filter code on a clone, the
//!     estimate `steer_clocks` will read (clone → progress_time(now) → measurement); after the call it
//!     emits, per steered clock, one line `steer sys= off= unc= fr= cur= max=` (values read back) whose
//!     observation is the action the controller performed on the mock clock plus the controller's own
//!     estimate afterwards.  The Lean kernel `PtpCtrl.steerOne` must print the same bits.
//!   * `query` lines carry the filter's frequency pair (private access); the observation is what the
//!     public `KalmanController::clock_frequency` returned.
//!   Oracle (implementation alone): frequency_query, steer_within_max, estimate_tracks_steer (rel 1e-9),
//!   failed_ops_no_change at controller level (table unchanged after a failed op).
#![allow(clippy::all, clippy::pedantic)]

#[path = "../common/mod.rs"]
mod common;

#[allow(unused_imports)]
use std::prelude::v1::*;
#[allow(unused_imports)]
use std::{format, vec};

use super::super::*;
use crate::filter::LinkFilterConfig;
use common::{f64hex, Rng, Run};
use std::sync::{Arc, Mutex};

#[derive(Debug, Clone)]
enum Act {
    SetFreq(f64),
    Step(Duration),
}

#[derive(Debug)]
struct MockState {
    now: Timestamp<TAI>,
    freq: f64,
    max: f64,
    log: Vec<Act>,
}

#[derive(Clone, Debug)]
struct Mock(Arc<Mutex<MockState>>);

impl Mock {
    fn new(now: Timestamp<TAI>, max: f64, freq: f64) -> Mock {
        Mock(Arc::new(Mutex::new(MockState { now, freq, max, log: vec![] })))
    }
}

impl Clock for Mock {
    fn now(&self) -> Result<Timestamp<TAI>, ClockError> {
        Ok(self.0.lock().unwrap().now)
    }
    fn set_frequency(&self, freq: f64) -> Result<Timestamp<TAI>, ClockError> {
        let mut s = self.0.lock().unwrap();
        s.freq = freq;
        s.log.push(Act::SetFreq(freq));
        Ok(s.now)
    }
    fn get_frequency(&self) -> Result<f64, ClockError> {
        Ok(self.0.lock().unwrap().freq)
    }
    fn max_frequency(&self) -> Result<f64, ClockError> {
        Ok(self.0.lock().unwrap().max)
    }
    fn step_clock(&self, offset: Duration) -> Result<Timestamp<TAI>, ClockError> {
        let mut s = self.0.lock().unwrap();
        s.log.push(Act::Step(offset));
        Ok(s.now)
    }
    fn error_estimate_update(&self, _e: Duration, _m: Duration) -> Result<(), ClockError> {
        Ok(())
    }
    fn leap_update(&self, _l: LeapStatus) -> Result<(), ClockError> {
        Ok(())
    }
    fn synchronization_update(&self, _s: bool) -> Result<(), ClockError> {
        Ok(())
    }
}

type Ctrl = KalmanController<StdKalmanStorage<Mock>, Mock>;

/// raw i128 of a Duration (see estimator_ptpalgo.rs)
fn dur_raw(d: Duration) -> i128 {
    let neg = d < Duration::ZERO;
    let mut m = if neg { Duration::ZERO - d } else { d };
    if neg && (m + d) != Duration::ZERO {
        return i128::MIN;
    }
    let two32: u64 = 1 << 32;
    let mut out: u128 = 0;
    for i in 0..4 {
        let hi = m / two32;
        let lo = m - hi * two32;
        let chunk = (lo.as_seconds() * 18446744073709551616.0) as u128;
        out |= chunk << (32 * i);
        m = hi;
    }
    if neg {
        -(out as i128)
    } else {
        out as i128
    }
}

fn cfg() -> LinkFilterConfig {
    LinkFilterConfig {
        select_offset_uncertainty_window: 3.0,
        select_link_uncertainty_window: 3.0,
        select_delay_uncertainty_window: 1.0,
        select_max_window_size: 1.0,
        minimum_agreeing_sources: 1,
    }
}

fn uvs(r: &Result<UncertainValue, AlgoError>) -> String {
    match r {
        Ok(v) => format!("{},{}", f64hex(v.value), f64hex(v.uncertainty)),
        Err(_) => "-".to_string(),
    }
}

fn rel_close(a: f64, b: f64) -> bool {
    if a == b || (a.is_nan() && b.is_nan()) {
        return true;
    }
    (a - b).abs() <= 1e-9 * a.abs().max(b.abs()).max(1e-300)
}

struct World {
    ctrl: Arc<Ctrl>,
    clocks: Vec<(ClockId, Mock)>,
    links: Vec<(usize, usize, KalmanLink<Arc<Ctrl>, StdKalmanStorage<Mock>, Mock>)>,
    ext_links: Vec<KalmanLink<Arc<Ctrl>, StdKalmanStorage<Mock>, Mock>>,
    now: (u64, u32),
}

fn ts(t: (u64, u32)) -> Timestamp<TAI> {
    Timestamp::from_seconds_nanos_since_unix_epoch(t.0, t.1)
}

fn table(w: &World) -> Vec<String> {
    w.clocks
        .iter()
        .map(|(id, _)| format!("{};{}", uvs(&w.ctrl.clock_offset(*id)), uvs(&w.ctrl.state.with_ref(|s| s.filter.clock_frequency(*id)))))
        .collect()
}

fn exec_case(rng: &mut Rng, idx: u64, run: &mut Run) {
    let now0 = (rng.below(2_000_000_000), rng.below(1_000_000_000) as u32);
    let max0 = match rng.below(6) {
        0 => 1e-6,
        1 => 0.0,
        _ => rng.f64_unit() * 1e-3 + 1e-6,
    };
    let sys = Mock::new(ts(now0), max0, 0.0);
    let (ctrl, id0) = Ctrl::new(sys.clone(), 1e-8, cfg()).expect("new");
    let mut w = World { ctrl: Arc::new(ctrl), clocks: vec![(id0, sys)], links: vec![], ext_links: vec![], now: now0 };
    let mut key = String::new();
    let mut steers = 0;
    // most scenarios get an external reference (untracked, usable link to the system clock), so that the
    // uncertainty shrinks and the frequency-steering arm is reached
    if idx != 0 && rng.chance(3, 4) {
        if let Ok(ext) = w.ctrl.add_external_clock() {
            if let Ok(l) = Ctrl::create_untracked_link(w.ctrl.clone(), ext, id0) {
                let _ = l.external_data_update(Duration::ZERO, Some(LeapStatus::None), true);
                w.ext_links.push(l);
            }
        }
    }
    // corpus case 0: the design-time witness of F-C43 — one extra clock, one measurement, then the query
    let n_ops = if idx == 0 { 6 } else { rng.usize(4, 40) };
    for step in 0..n_ops {
        let r = if idx == 0 { [0u64, 30, 50, 50, 90, 90][step] } else if step < 2 { rng.below(40) } else { rng.below(100) };
        match r {
            0..=19 => {
                // add a clock
                let max = match rng.below(8) {
                    0 => 0.0,
                    1 => 1e-9,
                    _ => rng.f64_unit() * 1e-3 + 1e-7,
                };
                let cur = if rng.chance(1, 3) { (rng.f64_unit() * 2.0 - 1.0) * max } else { 0.0 };
                let m = Mock::new(ts(w.now), max, cur);
                let before = table(&w);
                match w.ctrl.add_clock(m.clone(), 1e-8 * (1.0 + rng.f64_unit())) {
                    Ok(id) => {
                        w.clocks.push((id, m));
                        let after = table(&w);
                        if before[..] != after[..before.len()] {
                            run.oracle_fail("others_unchanged", "op=ctrl_add_clock", &format!("add_clock changed other estimates: {:?} -> {:?}", before, after));
                        }
                        run.hit("add_clock-ok");
                    }
                    Err(_) => run.hit("add_clock-err"),
                }
            }
            20..=39 => {
                if w.clocks.len() >= 2 {
                    let a = rng.usize(0, w.clocks.len() - 1);
                    let mut b = rng.usize(0, w.clocks.len() - 1);
                    if a == b {
                        b = (a + 1) % w.clocks.len();
                    }
                    match Ctrl::create_untracked_link(w.ctrl.clone(), w.clocks[a].0, w.clocks[b].0) {
                        Ok(l) => {
                            w.links.push((a, b, l));
                            run.hit("link-ok")
                        }
                        Err(_) => run.hit("link-err"),
                    }
                }
            }
            40..=79 => {
                if w.links.is_empty() && w.ext_links.is_empty() {
                    continue;
                }
                let use_ext = !w.ext_links.is_empty() && (w.links.is_empty() || rng.chance(1, 2));
                // advance time a little (or not), then measure
                if rng.chance(3, 4) {
                    w.now.0 += rng.below(4);
                    w.now.1 = rng.below(1_000_000_000) as u32;
                    for (_, m) in &w.clocks {
                        m.0.lock().unwrap().now = ts(w.now);
                    }
                }
                let li = if use_ext { 0 } else { rng.usize(0, w.links.len() - 1) };
                let fwd = rng.chance(1, 2);
                let off = match rng.below(6) {
                    0 => (rng.f64_unit() * 2.0 - 1.0) * 20.0,
                    1 => (rng.f64_unit() * 2.0 - 1.0) * 1e-6,
                    2 => 1e-3 + rng.f64_unit() * 1e-6,
                    3 => -1e-3 - rng.f64_unit() * 1e-6,
                    _ => (rng.f64_unit() * 2.0 - 1.0) * 1e-2,
                };
                let send = ts(w.now);
                let recv = send + Duration::from_f64_seconds(off);
                let unc = Duration::from_f64_seconds(rng.f64_unit() * 1e-4 + 1e-9);
                let m = Measurement { send_timestamp: send, recv_timestamp: recv, uncertainty: unc };
                let dir = if fwd { Direction::Forward } else { Direction::Reverse };
                // what steer_clocks will read: the REAL filter code on a clone
                let the_link = if use_ext { &w.ext_links[0] } else { &w.links[li].2 };
                let link_id = the_link.link_id;
                let pre = w.ctrl.state.with_ref(|s| {
                    s.filter.clone().progress_time(ts(w.now)).and_then(|f| {
                        f.measurement(
                            &s.filter_config,
                            DirectedLinkId::new(link_id, dir),
                            UncertainValue { value: (recv - send).as_seconds(), uncertainty: unc.as_seconds() },
                        )
                    })
                });
                let cur: Vec<(f64, f64)> = w.clocks.iter().map(|(_, m)| { let s = m.0.lock().unwrap(); (s.freq, s.max) }).collect();
                for (_, m) in &w.clocks {
                    m.0.lock().unwrap().log.clear();
                }
                let res = the_link.measurement(m, dir);
                let Ok(pre) = pre else {
                    run.hit("meas-pre-err");
                    continue;
                };
                if res.is_err() {
                    run.hit("meas-err");
                    continue;
                }
                run.hit("meas-ok");
                for (k, (id, mock)) in w.clocks.iter().enumerate() {
                    let o = pre.clock_offset(*id).unwrap();
                    let fr = pre.clock_frequency(*id).unwrap();
                    let log = mock.0.lock().unwrap().log.clone();
                    let post_o = w.ctrl.clock_offset(*id).unwrap();
                    let post_f = w.ctrl.state.with_ref(|s| s.filter.clock_frequency(*id)).unwrap();
                    let op = format!(
                        "steer sys={} off={} unc={} fr={} cur={} max={}",
                        if k == 0 { 1 } else { 0 },
                        f64hex(o.value),
                        f64hex(o.uncertainty),
                        f64hex(fr.value),
                        f64hex(cur[k].0),
                        f64hex(cur[k].1)
                    );
                    let obs = match log.as_slice() {
                        [Act::SetFreq(f)] => {
                            run.hit(if f.abs() == cur[k].1 { "steer-freq-clamped" } else { "steer-freq" });
                            key.push('f');
                            // oracle: within max; estimate changed by the applied change
                            if !(f.abs() <= cur[k].1) && !f.is_nan() {
                                run.oracle_fail("steer_within_max", "", &format!("set_frequency({}) with max_frequency {}", f, cur[k].1));
                            }
                            let applied = f - cur[k].0;
                            if !rel_close(post_f.value - fr.value, applied) && !rel_close(post_f.value, fr.value + applied) {
                                run.oracle_fail("estimate_tracks_steer", "kind=freq", &format!("frequency estimate {} -> {} but applied change {}", fr.value, post_f.value, applied));
                            }
                            format!("setfreq {} est={}", f64hex(*f), f64hex(post_f.value))
                        }
                        [Act::Step(d)] => {
                            run.hit("steer-step");
                            key.push('s');
                            let applied = d.as_seconds();
                            if !rel_close(post_o.value, o.value + applied) && !((post_o.value - (o.value + applied)).abs() <= 1e-18) {
                                run.oracle_fail("estimate_tracks_steer", &format!("kind=step sys={} sat={}", if k == 0 { 1 } else { 0 }, if o.value.abs() >= 9223372036854775808.0 { 1 } else { 0 }), &format!("offset estimate {} -> {} but applied step {}", o.value, post_o.value, applied));
                            }
                            format!("step {} est={}", dur_raw(*d), f64hex(post_o.value))
                        }
                        other => format!("unexpected {:?}", other),
                    };
                    steers += 1;
                    run.op(&op, &obs);
                }
            }
            80..=89 => {
                // removal of a non-system clock (fails while links use it) or of the system clock (must fail)
                let k = rng.usize(0, w.clocks.len() - 1);
                let before = table(&w);
                let r = w.ctrl.remove_clock(w.clocks[k].0);
                match r {
                    Ok(()) => {
                        w.clocks.remove(k);
                        let mut b2 = before.clone();
                        b2.remove(k);
                        if b2 != table(&w) {
                            run.oracle_fail("others_unchanged", "op=ctrl_remove_clock", &format!("remove_clock changed other estimates: {:?} -> {:?}", before, table(&w)));
                        }
                        run.hit("remove_clock-ok");
                    }
                    Err(_) => {
                        if before != table(&w) {
                            run.oracle_fail("failed_ops_no_change", "op=ctrl_remove_clock", "failed remove_clock changed the estimator");
                        }
                        run.hit("remove_clock-err");
                    }
                }
            }
            _ => {
                // queries: public controller API vs the filter's own entries
                let k = rng.usize(0, w.clocks.len() - 1);
                let id = w.clocks[k].0;
                let want = w.ctrl.state.with_ref(|s| s.filter.clock_frequency(id));
                let got = w.ctrl.clock_frequency(id);
                let off = w.ctrl.clock_offset(id);
                if uvs(&got) != uvs(&want) {
                    run.oracle_fail(
                        "frequency_query",
                        "",
                        &format!("clock_frequency returned {} but the estimated frequency is {} (offset is {})", uvs(&got), uvs(&want), uvs(&off)),
                    );
                }
                run.hit("query");
                run.op(&format!("query fr={}", uvs(&want)), &format!("freq {}", uvs(&got)));
            }
        }
    }
    if steers > 0 {
        run.nontrivial(&key);
    }
}

#[test]
fn entry() {
    let stream = std::env::var("VERIF_STREAM").unwrap_or_default();
    match stream.as_str() {
        "c43_ctrl" => {
            let mut run = Run::from_env("c43_ctrl");
            for idx in 0..run.n {
                let mut rng = run.rng_for(idx);
                run.guarded_case(idx, |r| exec_case(&mut rng, idx, r));
            }
            run.finish("scenarios (4-40 steps) on a real KalmanController with recording mock clocks: add/remove clocks, untracked links, measurements with time ticks, queries; per steered clock one `steer` line with the estimate steer_clocks read (computed by the real filter on a clone) and the action observed on the mock; non-trivial = at least one clock steered; distinct by action-kind string");
        }
        other => panic!("unknown VERIF_STREAM {:?}", other),
    }
}
