//! verification harness module included into `statime-algo/src/lib.rs` (guarded hook): C43 (and the
//! controller-level part of C42).  Grandchild of the crate root, so it sees `KalmanController::state`,
//! `KalmanControllerState::{filter, clocks, filter_config, root_delay}`.
//!
//! Stream c43_ctrl: op lines interpreted against a real `KalmanController<StdKalmanStorage<Mock>, Mock>`
//! with recording mock clocks:
//!   new t= max= w= ow= lw= dw= mw= ma=      controller with the system clock (clock 0) and a filter config
//!   tick dt=<f64>                           the mocks' `now()` advances by `Duration::from_f64_seconds(dt)`
//!   addclock max= cur= w= | addext | rmclock c= | rmext c=       (clocks are named by allocation order)
//!   link a= b= dec=<f64|->                  tracked (decay) / untracked link; handles named by creation order
//!   drop l= | extupd l= rd=<f64> leap=<-|0|59|61> usable=<0|1>
//!   meas l= fwd= d=<f64> u=<f64>            `KalmanLink::measurement` (recv − send = d, uncertainty u)
//! Observation after every op: result kind, everything the controller did to every mock clock during the
//! call (set_frequency / step_clock, leap_update, synchronization_update, error_estimate_update) and the
//! table (root delay, per clock offset and frequency estimate with uncertainties and the mock's frequency,
//! per link handle the active flag).  The Lean model (`PtpFilter.Ctrl`) computes ALL of it itself from the
//! op lines — link noise estimation, selection, consensus, Kalman update, steering — bit for bit.
//! Oracle (implementation alone): frequency_query, steer_within_max, estimate_tracks_steer (rel 1e-9),
//! others_unchanged / failed_ops_no_change at controller level, internal_untracked_active,
//! unusable_never_activates.
#![allow(clippy::all, clippy::pedantic)]

#[path = "../common/mod.rs"]
mod common;

#[allow(unused_imports)]
use std::prelude::v1::*;
#[allow(unused_imports)]
use std::{format, vec};

use super::super::*;
use crate::filter::LinkFilterConfig;
use common::{f64hex, f64unhex, kv, Rng, Run};
use std::sync::{Arc, Mutex};

#[derive(Debug, Clone)]
enum Act {
    SetFreq(f64),
    Step(Duration),
}

#[derive(Debug, Default)]
struct CallLog {
    act: Option<Act>,
    extra_acts: usize,
    leap: Option<LeapStatus>,
    sync: Option<bool>,
    ee: Option<(Duration, Duration)>,
}

#[derive(Debug)]
struct MockState {
    now: Timestamp<TAI>,
    freq: f64,
    max: f64,
    log: CallLog,
}

#[derive(Clone, Debug)]
struct Mock(Arc<Mutex<MockState>>);

impl Mock {
    fn new(now: Timestamp<TAI>, max: f64, freq: f64) -> Mock {
        Mock(Arc::new(Mutex::new(MockState { now, freq, max, log: CallLog::default() })))
    }
}

impl Clock for Mock {
    fn now(&self) -> Result<Timestamp<TAI>, ClockError> {
        Ok(self.0.lock().unwrap().now)
    }
    fn set_frequency(&self, freq: f64) -> Result<Timestamp<TAI>, ClockError> {
        let mut s = self.0.lock().unwrap();
        s.freq = freq;
        if s.log.act.is_some() {
            s.log.extra_acts += 1;
        }
        s.log.act = Some(Act::SetFreq(freq));
        Ok(s.now)
    }
    fn get_frequency(&self) -> Result<f64, ClockError> {
        Ok(self.0.lock().unwrap().freq)
    }
    fn max_frequency(&self) -> Result<f64, ClockError> {
        Ok(self.0.lock().unwrap().max)
    }
    fn step_clock(&self, offset: Duration) -> Result<Timestamp<TAI>, ClockError> {
        let mut s = self.0.lock().unwrap();
        if s.log.act.is_some() {
            s.log.extra_acts += 1;
        }
        s.log.act = Some(Act::Step(offset));
        s.now = s.now + offset;
        Ok(s.now)
    }
    fn error_estimate_update(&self, e: Duration, m: Duration) -> Result<(), ClockError> {
        self.0.lock().unwrap().log.ee = Some((e, m));
        Ok(())
    }
    fn leap_update(&self, l: LeapStatus) -> Result<(), ClockError> {
        self.0.lock().unwrap().log.leap = Some(l);
        Ok(())
    }
    fn synchronization_update(&self, s: bool) -> Result<(), ClockError> {
        self.0.lock().unwrap().log.sync = Some(s);
        Ok(())
    }
}

type Ctrl = KalmanController<StdKalmanStorage<Mock>, Mock>;
type Link = KalmanLink<Arc<Ctrl>, StdKalmanStorage<Mock>, Mock>;

/// raw i128 of a Duration (see estimator_ptpalgo.rs)
fn dur_raw(d: Duration) -> i128 {
    let neg = d < Duration::ZERO;
    let mut m = if neg { Duration::ZERO - d } else { d };
    if neg && (m + d) != Duration::ZERO {
        return i128::MIN;
    }
    let two32: u64 = 1 << 32;
    let mut out: u128 = 0;
    for i in 0..4 {
        let hi = m / two32;
        let lo = m - hi * two32;
        let chunk = (lo.as_seconds() * 18446744073709551616.0) as u128;
        out |= chunk << (32 * i);
        m = hi;
    }
    if neg {
        -(out as i128)
    } else {
        out as i128
    }
}

fn parse_ts(s: &str) -> Option<Timestamp<TAI>> {
    let (a, b) = s.split_once(':')?;
    Some(Timestamp::from_seconds_nanos_since_unix_epoch(a.parse().ok()?, b.parse().ok()?))
}

fn uvs(r: &Result<UncertainValue, AlgoError>) -> String {
    match r {
        Ok(v) => format!("{},{}", f64hex(v.value), f64hex(v.uncertainty)),
        Err(_) => "-".to_string(),
    }
}

fn err_name(e: &AlgoError) -> String {
    let k = match e {
        AlgoError::UnknownClock(_) => "UnknownClock",
        AlgoError::ClockAlreadyExists(_) => "ClockAlreadyExists",
        AlgoError::UnknownLink(_) => "UnknownLink",
        AlgoError::LinkAlreadyExists(_) => "LinkAlreadyExists",
        AlgoError::LinkNotExternal(_) => "LinkNotExternal",
        AlgoError::BothClocksExternal(..) => "BothClocksExternal",
        AlgoError::ClocksEqual(_) => "ClocksEqual",
        AlgoError::NonMonotonicTimeProgression { .. } => "NonMonotonic",
        AlgoError::CannotRemoveSystemClock(_) => "CannotRemoveSystemClock",
        AlgoError::MatrixError(_) => "MatrixError",
        AlgoError::ClockError(_) => "ClockError",
        AlgoError::NotEnoughMeasurements(_) => "NotEnoughMeasurements",
        AlgoError::ClockInUse(..) => "ClockInUse",
    };
    format!("err:{}", k)
}

fn leap_str(l: Option<LeapStatus>) -> &'static str {
    match l {
        None => "-",
        Some(LeapStatus::None) => "0",
        Some(LeapStatus::Leap59) => "59",
        Some(LeapStatus::Leap61) => "61",
    }
}

fn rel_close(a: f64, b: f64) -> bool {
    if a == b || (a.is_nan() && b.is_nan()) {
        return true;
    }
    (a - b).abs() <= 1e-9 * a.abs().max(b.abs()).max(1e-300)
}

struct Handle {
    uid: usize,
    link: Link,
    a: usize,
    b: usize,
    tracked: bool,
    external: bool,
    usable: bool,
}

struct World {
    ctrl: Arc<Ctrl>,
    /// every allocated clock id in allocation order, with its mock (None = external clock)
    ids: Vec<(ClockId, Option<Mock>)>,
    links: Vec<Handle>,
    n_links: usize,
}

impl World {
    fn sys_now(&self) -> Timestamp<TAI> {
        self.ids[0].1.as_ref().unwrap().0.lock().unwrap().now
    }
    fn seq(&self, id: ClockId) -> usize {
        self.ids.iter().position(|(i, _)| *i == id).unwrap_or(999)
    }
    /// (seq, offset, frequency (filter's own), mock freq) for the controller's clocks, in its order
    fn clock_rows(&self) -> Vec<(usize, Result<UncertainValue, AlgoError>, Result<UncertainValue, AlgoError>, f64, f64)> {
        let cids: Vec<ClockId> = self.ctrl.state.with_ref(|s| s.clocks.iter().map(|c| c.id).collect());
        cids.iter()
            .map(|id| {
                let seq = self.seq(*id);
                let (fr, mx) = match self.ids.get(seq).and_then(|x| x.1.as_ref()) {
                    Some(m) => {
                        let s = m.0.lock().unwrap();
                        (s.freq, s.max)
                    }
                    None => (f64::NAN, f64::NAN),
                };
                (seq, self.ctrl.clock_offset(*id), self.ctrl.state.with_ref(|s| s.filter.clock_frequency(*id)), fr, mx)
            })
            .collect()
    }
    fn table(&self) -> String {
        let rd = self.ctrl.state.with_ref(|s| dur_raw(s.root_delay));
        let cs: Vec<String> = self
            .clock_rows()
            .iter()
            .map(|(seq, o, f, cur, _)| format!("{}:{};{};{}", seq, uvs(o), uvs(f), f64hex(*cur)))
            .collect();
        let ls: Vec<String> = self
            .links
            .iter()
            .map(|h| match h.link.active() {
                Ok(b) => format!("{}:{}", h.uid, if b { 1 } else { 0 }),
                Err(_) => format!("{}:?", h.uid),
            })
            .collect();
        format!("rd={} c={} l={}", rd, cs.join("|"), ls.join("|"))
    }
    fn est_table(&self) -> Vec<(usize, String)> {
        self.clock_rows().iter().map(|(seq, o, f, _, _)| (*seq, format!("{};{}", uvs(o), uvs(f)))).collect()
    }
    fn clear_logs(&self) {
        for (_, m) in &self.ids {
            if let Some(m) = m {
                m.0.lock().unwrap().log = CallLog::default();
            }
        }
    }
}

fn pf(ws: &[&str], k: &str) -> Option<f64> {
    kv(ws, k).and_then(f64unhex)
}
fn pu(ws: &[&str], k: &str) -> Option<usize> {
    kv(ws, k).and_then(|s| s.parse().ok())
}

fn exec_case(ops: &[String], run: &mut Run) {
    // not dropped while a panic unwinds: dropping a KalmanLink locks the (then poisoned) controller mutex,
    // a second panic would abort the whole run instead of reporting the first one
    let mut world: std::mem::ManuallyDrop<Option<World>> = std::mem::ManuallyDrop::new(None);
    // once an estimated VALUE is NaN (NaN uncertainties = negative variances are deterministic) the comparison stops: what happens next depends on the signs of NaNs
    // (`total_cmp` in the consensus sort), which Rust leaves unspecified
    let mut nan_dead = false;
    let mut key = String::new();
    let mut steers = 0usize;
    for op in ops {
        run.begin_op(op);
        let ws: Vec<&str> = op.split_whitespace().collect();
        if ws.is_empty() {
            run.end_op("bad-op");
            continue;
        }
        if ws[0] == "wlaw" {
            // the arithmetic fact behind `consensus_never_panics` (Lean: `WindowLaw`): for finite h >= 0 the bound x - h
            // does not sort after x + h (total_cmp, Start before End on ties)
            match (pf(&ws, "x"), pf(&ws, "h")) {
                (Some(x), Some(h)) => {
                    let (lo, hi) = (x - h, x + h);
                    let ok = lo.total_cmp(&hi) != core::cmp::Ordering::Greater;
                    let applies = h >= 0.0 && h.is_finite();
                    let corner = x == 0.0 && x.is_sign_negative() && h == 0.0 && h.is_sign_negative();
                    if applies && !ok && !corner {
                        run.oracle_fail("window_law", "", &format!("x={} h={}: x-h sorts after x+h", f64hex(x), f64hex(h)));
                    }
                    run.hit(if !applies { "wlaw-na" } else if corner { "wlaw-corner" } else { "wlaw" });
                    run.end_op(&format!("wlaw {} {} {}", if lo.is_nan() || hi.is_nan() { "-" } else if ok { "1" } else { "0" }, if lo.is_nan() { "nan".to_string() } else { f64hex(lo) }, if hi.is_nan() { "nan".to_string() } else { f64hex(hi) }));
                }
                _ => run.end_op("bad-op"),
            }
            continue;
        }
        if nan_dead && ws[0] != "new" {
            run.end_op("nan-dead");
            continue;
        }
        if ws[0] == "new" {
            nan_dead = false;
            let (Some(t), Some(max), Some(w), Some(ow), Some(lw), Some(dw), Some(mw), Some(ma)) = (
                kv(&ws, "t").and_then(parse_ts),
                pf(&ws, "max"),
                pf(&ws, "w"),
                pf(&ws, "ow"),
                pf(&ws, "lw"),
                pf(&ws, "dw"),
                pf(&ws, "mw"),
                pu(&ws, "ma"),
            ) else {
                run.end_op("bad-op");
                continue;
            };
            let sys = Mock::new(t, max, 0.0);
            let cfg = LinkFilterConfig {
                select_offset_uncertainty_window: ow,
                select_link_uncertainty_window: lw,
                select_delay_uncertainty_window: dw,
                select_max_window_size: mw,
                minimum_agreeing_sources: ma,
            };
            match Ctrl::new(sys.clone(), w, cfg) {
                Ok((c, id0)) => {
                    let wd = World { ctrl: Arc::new(c), ids: vec![(id0, Some(sys))], links: vec![], n_links: 0 };
                    let obs = format!("ok [] {}", wd.table());
                    *world = Some(wd);
                    run.end_op(&obs);
                }
                Err(e) => {
                    *world = None;
                    run.end_op(&format!("{} [] none", err_name(&e)));
                }
            }
            continue;
        }
        let Some(w) = world.as_mut() else {
            run.end_op("no-ctrl");
            continue;
        };
        w.clear_logs();
        let before = w.est_table();
        let active_before: Vec<(usize, bool)> = w.links.iter().map(|h| (h.uid, h.link.active().unwrap_or(false))).collect();
        let mut log_str = String::new();
        let res: String = match ws[0] {
            "tick" => match pf(&ws, "dt") {
                Some(dt) => {
                    for (_, m) in &w.ids {
                        if let Some(m) = m {
                            let mut s = m.0.lock().unwrap();
                            s.now = s.now + Duration::from_f64_seconds(dt);
                        }
                    }
                    "ok".into()
                }
                None => "bad-op".into(),
            },
            "addclock" => match (pf(&ws, "max"), pf(&ws, "cur"), pf(&ws, "w")) {
                (Some(max), Some(cur), Some(wd)) => {
                    let m = Mock::new(w.sys_now(), max, cur);
                    match w.ctrl.add_clock(m.clone(), wd) {
                        Ok(id) => {
                            w.ids.push((id, Some(m)));
                            let after = w.est_table();
                            if before[..] != after[..before.len()] {
                                run.oracle_fail("others_unchanged", "op=ctrl_add_clock", &format!("add_clock changed other estimates: {:?} -> {:?}", before, after));
                            }
                            run.hit("add_clock-ok");
                            format!("ok:{}", w.ids.len() - 1)
                        }
                        Err(e) => err_name(&e),
                    }
                }
                _ => "bad-op".into(),
            },
            "addext" => match w.ctrl.add_external_clock() {
                Ok(id) => {
                    w.ids.push((id, None));
                    run.hit("add_ext-ok");
                    format!("ok:{}", w.ids.len() - 1)
                }
                Err(e) => err_name(&e),
            },
            "rmext" | "rmclock" => match pu(&ws, "c") {
                Some(c) => {
                    // an id that was never allocated: use a fresh one that the controller has never seen
                    let id = w.ids.get(c).map(|x| x.0);
                    match id {
                        None => "bad-clock".into(),
                        Some(id) => {
                            let r = if ws[0] == "rmext" { w.ctrl.remove_external_clock(id) } else { w.ctrl.remove_clock(id) };
                            match r {
                                Ok(()) => {
                                    let after = w.est_table();
                                    let expect: Vec<(usize, String)> = before.iter().filter(|(s, _)| *s != c).cloned().collect();
                                    if expect != after {
                                        run.oracle_fail("others_unchanged", &format!("op=ctrl_{}", ws[0]), &format!("{} changed other estimates: {:?} -> {:?}", ws[0], before, after));
                                    }
                                    run.hit(&format!("{}-ok", ws[0]));
                                    "ok".into()
                                }
                                Err(e) => {
                                    if before != w.est_table() {
                                        run.oracle_fail("failed_ops_no_change", &format!("op=ctrl_{}", ws[0]), "failed removal changed the estimator");
                                    }
                                    run.hit(&format!("{}-{}", ws[0], err_name(&e)));
                                    err_name(&e)
                                }
                            }
                        }
                    }
                }
                None => "bad-op".into(),
            },
            "link" => match (pu(&ws, "a"), pu(&ws, "b"), kv(&ws, "dec")) {
                (Some(a), Some(b), Some(dec)) => match (w.ids.get(a).map(|x| x.0), w.ids.get(b).map(|x| x.0)) {
                    (Some(ia), Some(ib)) => {
                        let tracked = dec != "-";
                        let r = if tracked {
                            match f64unhex(dec) {
                                Some(d) => Ctrl::create_tracked_link(w.ctrl.clone(), ia, ib, d),
                                None => {
                                    run.end_op("bad-op");
                                    continue;
                                }
                            }
                        } else {
                            Ctrl::create_untracked_link(w.ctrl.clone(), ia, ib)
                        };
                        match r {
                            Ok(l) => {
                                let uid = w.n_links;
                                w.n_links += 1;
                                let external = w.ids[a].1.is_none() || w.ids[b].1.is_none();
                                let act = l.active().unwrap_or(false);
                                // decision-logic oracle: an untracked internal link is active from creation
                                if !tracked && !external && !act {
                                    run.oracle_fail("internal_untracked_active", "at=create", "untracked internal link not active after creation");
                                }
                                if (tracked || external) && act {
                                    run.oracle_fail("unusable_never_activates", "at=create", "tracked or external link active at creation");
                                }
                                w.links.push(Handle { uid, link: l, a, b, tracked, external, usable: false });
                                run.hit(if tracked { "link-tracked" } else { "link-untracked" });
                                format!("ok:{}", uid)
                            }
                            Err(e) => {
                                run.hit(&format!("link-{}", err_name(&e)));
                                err_name(&e)
                            }
                        }
                    }
                    _ => "bad-clock".into(),
                },
                _ => "bad-op".into(),
            },
            "drop" => match pu(&ws, "l").and_then(|u| w.links.iter().position(|h| h.uid == u)) {
                Some(i) => {
                    let h = w.links.remove(i);
                    drop(h);
                    run.hit("drop");
                    "ok".into()
                }
                None => "nohandle".into(),
            },
            "extupd" => match (pu(&ws, "l"), pf(&ws, "rd"), kv(&ws, "leap"), pu(&ws, "usable")) {
                (Some(u), Some(rd), Some(leap), Some(usable)) => match w.links.iter().position(|h| h.uid == u) {
                    Some(i) => {
                        let leap = match leap {
                            "-" => None,
                            "0" => Some(LeapStatus::None),
                            "59" => Some(LeapStatus::Leap59),
                            "61" => Some(LeapStatus::Leap61),
                            _ => {
                                run.end_op("bad-op");
                                continue;
                            }
                        };
                        match w.links[i].link.external_data_update(Duration::from_f64_seconds(rd), leap, usable == 1) {
                            Ok(()) => {
                                w.links[i].usable = usable == 1;
                                run.hit("extupd-ok");
                                "ok".into()
                            }
                            Err(e) => err_name(&e),
                        }
                    }
                    None => "nohandle".into(),
                },
                _ => "bad-op".into(),
            },
            "meas" => match (pu(&ws, "l"), pu(&ws, "fwd"), pf(&ws, "d"), pf(&ws, "u")) {
                (Some(u), Some(fwd), Some(d), Some(unc)) => match w.links.iter().position(|h| h.uid == u) {
                    Some(li) => {
                        let send = w.sys_now();
                        let recv = send + Duration::from_f64_seconds(d);
                        let uncd = Duration::from_f64_seconds(unc);
                        let m = Measurement { send_timestamp: send, recv_timestamp: recv, uncertainty: uncd };
                        let dir = if fwd == 1 { Direction::Forward } else { Direction::Reverse };
                        let link_id = w.links[li].link.link_id;
                        // for the oracle: what steer_clocks will read, by the REAL filter code on a clone
                        let pre = w.ctrl.state.with_ref(|s| {
                            s.filter.clone().progress_time(send).and_then(|f| {
                                f.measurement(
                                    &s.filter_config,
                                    DirectedLinkId::new(link_id, dir),
                                    UncertainValue { value: (recv - send).as_seconds(), uncertainty: uncd.as_seconds() },
                                )
                            })
                        });
                        let rows_before = w.clock_rows();
                        let r = w.links[li].link.measurement(m, dir);
                        match r {
                            Ok(()) => {
                                run.hit("meas-ok");
                                let rd = w.ctrl.state.with_ref(|s| dur_raw(s.root_delay));
                                let rows_after = w.clock_rows();
                                let mut entries = vec![];
                                for (k, (seq, _, _, _, _)) in rows_after.iter().enumerate() {
                                    let mock = w.ids[*seq].1.as_ref().unwrap();
                                    let lg = mock.0.lock().unwrap();
                                    let Some(act) = lg.log.act.clone() else { continue };
                                    if lg.log.extra_acts > 0 {
                                        run.oracle_fail("steer_once", "", "a clock was steered more than once in one call");
                                    }
                                    let (cur, max) = (rows_before[k].3, rows_before[k].4);
                                    let id = w.ids[*seq].0;
                                    let a = match &act {
                                        Act::SetFreq(f) => {
                                            run.hit(if f.abs() == max { "steer-freq-clamped" } else { "steer-freq" });
                                            key.push('f');
                                            if !(f.abs() <= max) && !f.is_nan() {
                                                run.oracle_fail("steer_within_max", "", &format!("set_frequency({}) with max_frequency {}", f, max));
                                            }
                                            if let Ok(pre) = &pre {
                                                let fr = pre.clock_frequency(id).unwrap();
                                                let post_f = rows_after[k].2.as_ref().unwrap();
                                                let applied = f - cur;
                                                if !rel_close(post_f.value - fr.value, applied) && !rel_close(post_f.value, fr.value + applied) {
                                                    run.oracle_fail("estimate_tracks_steer", "kind=freq", &format!("frequency estimate {} -> {} but applied change {}", fr.value, post_f.value, applied));
                                                }
                                            }
                                            format!("setfreq {}", f64hex(*f))
                                        }
                                        Act::Step(dd) => {
                                            run.hit("steer-step");
                                            key.push('s');
                                            if let Ok(pre) = &pre {
                                                let o = pre.clock_offset(id).unwrap();
                                                let post_o = rows_after[k].1.as_ref().unwrap();
                                                let applied = dd.as_seconds();
                                                if !rel_close(post_o.value, o.value + applied) && !((post_o.value - (o.value + applied)).abs() <= 1e-18) {
                                                    run.oracle_fail(
                                                        "estimate_tracks_steer",
                                                        &format!("kind=step sys={} sat={}", if k == 0 { 1 } else { 0 }, if o.value.abs() >= 9223372036854775808.0 { 1 } else { 0 }),
                                                        &format!("offset estimate {} -> {} but applied step {}", o.value, post_o.value, applied),
                                                    );
                                                }
                                            }
                                            format!("step {}", dur_raw(*dd))
                                        }
                                    };
                                    steers += 1;
                                    let (ee, _m) = lg.log.ee.unwrap_or((Duration::ZERO, Duration::ZERO));
                                    entries.push(format!(
                                        "k={} {} leap={} sync={} ee={} rd={}",
                                        k,
                                        a,
                                        leap_str(lg.log.leap),
                                        match lg.log.sync {
                                            Some(true) => "1",
                                            Some(false) => "0",
                                            None => "?",
                                        },
                                        dur_raw(ee),
                                        lg.log.ee.map(|x| dur_raw(x.1)).unwrap_or(rd)
                                    ));
                                }
                                log_str = entries.join(" / ");
                                "ok".into()
                            }
                            Err(e) => {
                                run.hit(&format!("meas-{}", err_name(&e)));
                                err_name(&e)
                            }
                        }
                    }
                    None => "nohandle".into(),
                },
                _ => "bad-op".into(),
            },
            _ => "bad-op".into(),
        };
        if res == "bad-op" || res == "nohandle" || res == "bad-clock" {
            // the model answers the same word for lines it cannot interpret
            run.end_op(if res == "bad-clock" { "bad-op" } else { &res });
            continue;
        }
        // decision-logic oracles on the implementation alone
        for h in &w.links {
            let act = h.link.active().unwrap_or(false);
            if !h.tracked && !h.external && !act {
                run.oracle_fail("internal_untracked_active", "at=op", &format!("untracked internal link {} inactive after `{}`", h.uid, op));
            }
            let was = active_before.iter().find(|x| x.0 == h.uid).map(|x| x.1);
            if h.external && !h.usable && was == Some(false) && act {
                run.oracle_fail("unusable_never_activates", "at=op", &format!("external link {} not marked usable became active after `{}`", h.uid, op));
            }
            if was == Some(false) && act {
                run.hit(if h.external { "became-active-external" } else { "became-active-internal" });
            }
            if was == Some(true) && !act {
                run.hit("became-inactive");
            }
            if act {
                run.hit(if h.external { "active-external" } else if h.tracked { "active-tracked-internal" } else { "active-untracked-internal" });
            }
        }
        // queries: public controller API vs the filter's own entries
        for (seq, _, want, _, _) in w.clock_rows() {
            let got = w.ctrl.clock_frequency(w.ids[seq].0);
            if uvs(&got) != uvs(&want) {
                run.oracle_fail("frequency_query", "", &format!("clock_frequency returned {} but the estimated frequency is {}", uvs(&got), uvs(&want)));
            }
        }
        if w.clock_rows().iter().any(|(_, o, f, _, _)| {
            o.as_ref().map(|v| v.value.is_nan()).unwrap_or(false) || f.as_ref().map(|v| v.value.is_nan()).unwrap_or(false)
        }) {
            nan_dead = true;
            run.hit("nan-estimate");
        }
        if std::env::var("VERIF_DEBUG").is_ok() {
            w.ctrl.state.with_ref(|st| std::eprintln!("DEBUG after `{}`: {:?}", op, st.filter));
        }
        run.end_op(&format!("{} [{}] {}", res, log_str, w.table()));
    }
    if steers > 0 {
        run.nontrivial(&key);
    }
    unsafe { std::mem::ManuallyDrop::drop(&mut world) };
}

/// generator-side bookkeeping (approximate: it only has to make most op lines meaningful)
struct Gen {
    kinds: Vec<Option<bool>>, // per allocated clock: Some(true)=internal, Some(false)=external, None=removed
    links: Vec<(usize, usize, bool, bool, bool)>, // (a, b, tracked, external, alive) by uid
    bias: Vec<f64>, // persistent extra offset of a link (a falseticker once non-zero)
}

fn gen_case(rng: &mut Rng, idx: u64, _run: &Run) -> Vec<String> {
    let mut ops = vec![];
    let f = |x: f64| f64hex(x);
    {
        let specials = [0.0, -0.0, 1.0, -1.0, f64::INFINITY, f64::NEG_INFINITY, f64::NAN, f64::MAX, f64::MIN_POSITIVE, 5e-324, 1e300, -1e300, 1e-3];
        for _ in 0..3 {
            let x = if rng.chance(1, 2) { *rng.pick(&specials) } else { (rng.f64_unit() * 2.0 - 1.0) * 10f64.powi(rng.range(-20, 20) as i32) };
            let h = if rng.chance(1, 2) { *rng.pick(&specials) } else { rng.f64_unit() * 10f64.powi(rng.range(-20, 20) as i32) };
            ops.push(format!("wlaw x={} h={}", f(x), f(h)));
        }
    }
    let t0 = (rng.below(2_000_000_000), rng.below(1_000_000_000));
    let max0 = match rng.below(6) {
        0 => 1e-6,
        1 => 0.0,
        _ => rng.f64_unit() * 1e-3 + 1e-6,
    };
    let ma = match rng.below(5) {
        0 => 2,
        1 => 3,
        _ => 1,
    };
    let mw = if rng.chance(1, 5) { 1e-4 } else { 1.0 };
    let bookkeeping = idx == 2 || (idx > 2 && rng.chance(1, 4));
    let (ma, mw) = if bookkeeping { (1, 1.0) } else { (ma, mw) };
    // now and then a nonsensical (negative) weight: must neither panic nor select anything odd
    let (ow, lw, dw) = match if bookkeeping { 23 } else { rng.below(24) } {
        0 => (-3.0, 3.0, 1.0),
        1 => (3.0, -3.0, 1.0),
        2 => (3.0, 3.0, -1.0),
        _ => (3.0, 3.0, 1.0),
    };
    ops.push(format!("new t={}:{} max={} w={} ow={} lw={} dw={} mw={} ma={}", t0.0, t0.1, f(max0), f(1e-8), f(ow), f(lw), f(dw), f(mw), ma));
    let mut g = Gen { kinds: vec![Some(true)], links: vec![], bias: vec![] };
    let mut push_link = |g: &mut Gen, ops: &mut Vec<String>, rng: &mut Rng, a: usize, b: usize, tracked: bool| {
        let dec = if tracked { f64hex(0.01 * (1.0 + rng.f64_unit())) } else { "-".to_string() };
        ops.push(format!("link a={} b={} dec={}", a, b, dec));
        let (ka, kb) = (g.kinds.get(a).copied().flatten(), g.kinds.get(b).copied().flatten());
        if let (Some(ia), Some(ib)) = (ka, kb) {
            if a != b && (ia || ib) {
                g.links.push((a, b, tracked, !(ia && ib), true));
                g.bias.push(0.0);
                return Some(g.links.len() - 1);
            }
        }
        None
    };
    // corpus case 0: the design-time witness of F-C43 (one extra clock, a link, one measurement)
    if idx == 0 {
        ops.push(format!("addclock max={} cur={} w={}", f(1e-4), f(0.0), f(1e-8)));
        ops.push("link a=0 b=1 dec=-".to_string());
        ops.push(format!("meas l=0 fwd=1 d={} u={}", f(1e-3), f(1e-6)));
        ops.push(format!("tick dt={}", f(1.0)));
        ops.push(format!("meas l=0 fwd=0 d={} u={}", f(-1e-3), f(1e-6)));
        return ops;
    }
    // corpus case 1: the witness of F-C43c (negative window weight: the consensus sweep underflowed)
    if idx == 1 {
        return vec![
            format!("new t=100:0 max={} w={} ow={} lw={} dw={} mw={} ma=1", f(1e-4), f(1e-8), f(-3.0), f(3.0), f(1.0), f(1.0)),
            "addext".to_string(),
            "link a=0 b=1 dec=-".to_string(),
            format!("extupd l=0 rd={} leap=0 usable=1", f(0.0)),
            format!("meas l=0 fwd=1 d={} u={}", f(1e-3), f(1e-6)),
            format!("meas l=0 fwd=0 d={} u={}", f(-1e-3), f(1e-6)),
        ];
    }
    // corpus case 2 and every fourth case: estimator index bookkeeping under the controller.  The system clock
    // is put into frequency-steering mode by an external reference (offset +1 ms, sigma 1 us: no steps, so the
    // half pairs of a tracked link on it are not reset), a TRACKED link to a second external clock collects its
    // round trips and becomes active (its delay state enters the estimator), clocks and links are added AFTER
    // it, then it is dropped (everything stored behind it shifts by one), then measurements / steering go on
    if bookkeeping {
        ops.push("addext".to_string());
        g.kinds.push(Some(false));
        let e0 = g.kinds.len() - 1;
        if let Some(u0) = push_link(&mut g, &mut ops, rng, e0, 0, false) {
            ops.push(format!("extupd l={} rd={} leap=0 usable=1", u0, f(0.0)));
            ops.push(format!("meas l={} fwd=1 d={} u={}", u0, f(1e-3), f(1e-6)));
        }
        ops.push("addext".to_string());
        g.kinds.push(Some(false));
        let e1 = g.kinds.len() - 1;
        let t_uid = push_link(&mut g, &mut ops, rng, e1, 0, true);
        if let Some(uid) = t_uid {
            ops.push(format!("extupd l={} rd={} leap=0 usable=1", uid, f(0.0)));
            let pairs = if idx == 2 { 6 } else { rng.usize(4, 7) };
            for k in 0..pairs {
                let n = (k as f64) * 1e-8;
                ops.push(format!("meas l={} fwd=1 d={} u={}", uid, f(1e-3 + 1e-4 + n), f(1e-6)));
                ops.push(format!("meas l={} fwd=0 d={} u={}", uid, f(-1e-3 + 1e-4 - n), f(1e-6)));
            }
        }
        // things stored behind the tracked link's delay state
        let extra = if idx == 2 { 2 } else { rng.usize(1, 3) };
        let mut later_links = vec![];
        for _ in 0..extra {
            ops.push(format!("addclock max={} cur={} w={}", f(1e-4), f(0.0), f(1e-8)));
            g.kinds.push(Some(true));
            let b = g.kinds.len() - 1;
            if let Some(u2) = push_link(&mut g, &mut ops, rng, 0, b, false) {
                later_links.push(u2);
            }
        }
        for u2 in &later_links {
            ops.push(format!("meas l={} fwd=1 d={} u={}", u2, f(0.25), f(1e-6)));
        }
        ops.push(format!("tick dt={}", f(1.0)));
        for u2 in &later_links {
            ops.push(format!("meas l={} fwd=0 d={} u={}", u2, f(-0.2500031), f(1e-6)));
        }
        if let Some(uid) = t_uid {
            ops.push(format!("drop l={}", uid));
            g.links[uid].4 = false;
        }
        for u2 in &later_links {
            ops.push(format!("meas l={} fwd=1 d={} u={}", u2, f(1e-3), f(1e-6)));
        }
        if idx == 2 {
            return ops;
        }
    }
    // set-up phase: some external references with usable links to the system clock
    let n_ext = match rng.below(8) {
        0 => 0,
        1..=3 => 1,
        4..=5 => 2,
        _ => 3,
    };
    // sometimes a second internal clock that also gets external references (steps of a non-system clock
    // must shift the recorded external offsets)
    let second = rng.chance(1, 3);
    if second {
        ops.push(format!("addclock max={} cur={} w={}", f(1e-4), f(0.0), f(1e-8)));
        g.kinds.push(Some(true));
        push_link(&mut g, &mut ops, rng, 0, 1, false);
    }
    for _ in 0..n_ext {
        ops.push("addext".to_string());
        g.kinds.push(Some(false));
        let e = g.kinds.len() - 1;
        let tracked = rng.chance(1, 3);
        let host = if second && rng.chance(1, 2) { 1 } else { 0 };
        let (a, b) = if rng.chance(1, 2) { (e, host) } else { (host, e) };
        if let Some(uid) = push_link(&mut g, &mut ops, rng, a, b, tracked) {
            if rng.chance(7, 8) {
                let leap = *rng.pick(&["-", "0", "0", "59", "61"]);
                let rd = if rng.chance(1, 3) { 0.0 } else { rng.f64_unit() * 1e-3 };
                ops.push(format!("extupd l={} rd={} leap={} usable=1", uid, f(rd), leap));
            }
        }
    }
    let true_off: f64 = match rng.below(4) {
        0 => (rng.f64_unit() * 2.0 - 1.0) * 20.0,
        1 => 1e-3,
        _ => (rng.f64_unit() * 2.0 - 1.0) * 1e-2,
    };
    let n_ops = rng.usize(4, 45);
    for _ in 0..n_ops {
        match rng.below(100) {
            0..=9 => {
                let max = match rng.below(8) {
                    0 => 0.0,
                    1 => 1e-9,
                    _ => rng.f64_unit() * 1e-3 + 1e-7,
                };
                let cur = if rng.chance(1, 3) { (rng.f64_unit() * 2.0 - 1.0) * max } else { 0.0 };
                ops.push(format!("addclock max={} cur={} w={}", f(max), f(cur), f(1e-8 * (1.0 + rng.f64_unit()))));
                g.kinds.push(Some(true));
            }
            10..=12 => {
                ops.push("addext".to_string());
                g.kinds.push(Some(false));
            }
            13..=24 => {
                let n = g.kinds.len();
                let a = rng.usize(0, n - 1);
                let b = if rng.chance(1, 12) { a } else { rng.usize(0, n - 1) };
                let tracked = rng.chance(2, 5);
                push_link(&mut g, &mut ops, rng, a, b, tracked);
            }
            25..=30 => {
                if !g.links.is_empty() {
                    let uid = rng.usize(0, g.links.len() - 1);
                    let leap = *rng.pick(&["-", "0", "0", "59", "61"]);
                    let usable = if rng.chance(3, 4) { 1 } else { 0 };
                    let rd = if rng.chance(1, 6) { 2.0 } else { rng.f64_unit() * 1e-3 };
                    ops.push(format!("extupd l={} rd={} leap={} usable={}", uid, f(rd), leap, usable));
                }
            }
            31..=33 => {
                if !g.links.is_empty() {
                    let uid = rng.usize(0, g.links.len() - 1);
                    ops.push(format!("drop l={}", uid));
                    g.links[uid].4 = false;
                }
            }
            34..=37 => {
                let c = rng.usize(0, g.kinds.len() - 1);
                ops.push(format!("{} c={}", if rng.chance(1, 2) { "rmclock" } else { "rmext" }, c));
                // (whether it succeeds depends on links in use; the generator does not track that)
            }
            38..=49 => {
                let dt = match rng.below(7) {
                    0 => 0.0,
                    1 => 0.1,
                    2 => 0.6,
                    // the clock reads a hair EARLIER (1 .. 4097 units of 2^-64 s) or later: the next measurement
                    // must fail with NonMonotonic for every backwards reading, however small
                    3 => *rng.pick(&[-5.5e-20, -1.1e-19, -1e-17, -2.2e-16, -2.3e-16, 5.5e-20, 2.2e-16]),
                    _ => rng.f64_unit() * 4.0,
                };
                ops.push(format!("tick dt={}", f(dt)));
            }
            _ => {
                let alive: Vec<usize> = (0..g.links.len()).filter(|i| g.links[*i].4).collect();
                if alive.is_empty() {
                    continue;
                }
                let uid = *rng.pick(&alive);
                let (_, _, tracked, external, _) = g.links[uid];
                let base = if external { true_off } else { (rng.f64_unit() * 2.0 - 1.0) * 1e-2 };
                let delay = if tracked { 1e-4 } else { 0.0 };
                let jitter = || 0.0;
                let _ = jitter;
                // tracked links need both halves close in time: bursts of forward/reverse pairs
                let pairs = if tracked { rng.usize(2, 6) } else { 1 };
                // now and then an external source turns into a falseticker (or back)
                if external && rng.chance(1, 12) {
                    g.bias[uid] = if g.bias[uid] == 0.0 { if rng.chance(1, 2) { 0.3 } else { -0.3 } } else { 0.0 };
                }
                let base = base + g.bias[uid];
                for _ in 0..pairs {
                    let exact = rng.chance(1, 4);
                    let n1 = if exact { 0.0 } else { (rng.f64_unit() * 2.0 - 1.0) * 1e-6 };
                    let n2 = if exact { 0.0 } else { (rng.f64_unit() * 2.0 - 1.0) * 1e-6 };
                    let u = if external && !tracked && rng.chance(1, 8) { 0.0 } else { rng.f64_unit() * 1e-5 + 1e-9 };
                    let off = if rng.chance(1, 10) { base + (rng.f64_unit() * 2.0 - 1.0) * 0.5 } else { base };
                    let fwd_first = rng.chance(1, 2);
                    // sign convention: forward measures (to − from) + delay, reverse −(to − from) + delay
                    let mf = format!("meas l={} fwd=1 d={} u={}", uid, f(off + delay + n1), f(u));
                    let mr = format!("meas l={} fwd=0 d={} u={}", uid, f(-off + delay + n2), f(u));
                    if tracked || rng.chance(1, 2) {
                        if fwd_first {
                            ops.push(mf);
                            ops.push(mr);
                        } else {
                            ops.push(mr);
                            ops.push(mf);
                        }
                    } else if fwd_first {
                        ops.push(mf);
                    } else {
                        ops.push(mr);
                    }
                }
            }
        }
    }
    ops
}

#[test]
fn entry() {
    let stream = std::env::var("VERIF_STREAM").unwrap_or_default();
    match stream.as_str() {
        "c43_ctrl" => common::drive(
            "c43_ctrl",
            "op sequences (set-up of 0-3 external references with usable links, then 4-45 steps: clocks, external clocks, tracked/untracked links, external data updates, drops, removals, ticks, measurement bursts) on a real KalmanController with recording mock clocks; everything the controller did to the mocks plus the estimate table after every op; non-trivial = at least one clock steered; distinct by action-kind string",
            gen_case,
            exec_case,
        ),
        other => panic!("unknown VERIF_STREAM {:?}", other),
    }
}
