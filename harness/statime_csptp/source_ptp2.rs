//! C44 harness: included into `statime-csptp/src/source.rs` (guarded hook).
//!
//! Stream `c44_source`: one case = one call of the PUBLIC `CsptpSource::run` with a scripted
//! `ClientSocket`, an injected `sleep` (poll sleeps are ready at once, the response timeout fires when
//! the script has no more datagrams for the current request) and a fixed rng.  Ops:
//!   scfg domain=<d> active=<0|1>               source configuration / whether the source is the active one
//!   req send=<s:n|err>                        the next poll: result of `send_event`
//!   dg pkt=<hex> rx=<s:n|none>                a datagram handed out by `recv` (with/without rx timestamp)
//!   rxerr                                     `recv` returns an error
//! Observations: `sent <request bytes>`; per datagram `none` | `unread` (socket already dropped /
//! no request open) | `meas a=<sender>/<receiver> b=<sender>/<receiver> leap=<n> st=<state|->`.
#![allow(clippy::all, clippy::pedantic)]

#[path = "../common/mod.rs"]
mod common;
#[path = "ptp_util.rs"]
pub(crate) mod ptp_util;

#[allow(unused_imports)]
use std::prelude::rust_2021::*;
#[allow(unused_imports)]
use std::{format, vec};

use super::super::*;
use ::statime_wire as wire;
use common::{hex, kv, unhex, Rng, Run};
use ptp_util::*;
use std::cell::RefCell;
use std::sync::{Arc, Mutex};

type Mgr = CsptpManager<RefCell<crate::InternalState>>;

#[derive(Clone, Debug)]
enum Op {
    Req(Option<Timestamp>),
    Dg(Vec<u8>, Option<Timestamp>),
    RxErr,
}

#[derive(Default)]
struct Script {
    ops: Vec<Op>,
    cursor: usize,
    /// observation per op index
    obs: Vec<Option<String>>,
    /// index of the op a `req` was consumed at, and whether a request is open (socket alive)
    open: bool,
    last_consumed: Option<usize>,
    /// measurements seen since the last consumed op: (sender is local, sender_ts, receiver_ts, leap)
    meas: Vec<(usize, bool, u64, u64, u8)>,
    usable_calls: Vec<(usize, bool)>,
    /// op index whose state snapshot is still to be taken
    want_state: Option<usize>,
    state: Vec<Option<String>>,
    local: u64,
}

fn ntp_bits(t: NtpTimestamp) -> u64 {
    // `NtpTimestamp` has no public accessor outside ntp-proto; its Debug form is `NtpTimestamp(<u64>)`
    let s = format!("{:?}", t);
    s.trim_start_matches("NtpTimestamp(").trim_end_matches(')').parse().expect("NtpTimestamp debug form")
}

fn clock_bits(c: ClockId) -> u64 {
    let s = format!("{:?}", c);
    let digits: String = s.chars().filter(|c| c.is_ascii_digit()).collect();
    digits.parse().expect("ClockId debug form")
}

struct Ctl(Arc<Mutex<Script>>);

impl SourceController for Ctl {
    fn handle_measurement(&mut self, m: Measurement) {
        let mut s = self.0.lock().unwrap();
        let at = s.last_consumed.unwrap_or(usize::MAX);
        let local = clock_bits(m.sender_id) == s.local;
        let leap = match m.leap {
            NtpLeapIndicator::NoWarning => 0,
            NtpLeapIndicator::Leap61 => 1,
            NtpLeapIndicator::Leap59 => 2,
            NtpLeapIndicator::Unknown => 3,
            NtpLeapIndicator::Unsynchronized => 4,
        };
        s.meas.push((at, local, ntp_bits(m.sender_ts), ntp_bits(m.receiver_ts), leap));
        s.want_state = Some(at);
    }
    fn set_usable(&mut self, usable: bool) {
        let mut s = self.0.lock().unwrap();
        let at = s.last_consumed.unwrap_or(usize::MAX);
        s.usable_calls.push((at, usable));
    }
    fn desired_poll_interval(&self) -> ntp_proto::PollInterval {
        unimplemented!()
    }
    fn observe(&self) -> ntp_proto::ObservableSourceTimedata {
        unimplemented!()
    }
}

fn state_str(m: &Mgr) -> String {
    let st = m.observe();
    format!(
        "{}.{}.{}.{}.{}.{}.{}.{}.{}.{}",
        hex(&st.grandmaster_identity.0),
        st.grandmaster_priority_1,
        st.grandmaster_priority_2,
        st.grandmaster_clock_quality.clock_class,
        acc_str(st.grandmaster_clock_quality.clock_accuracy),
        st.grandmaster_clock_quality.offset_scaled_log_variance,
        st.steps_removed,
        st.ptp_timescale as u8,
        st.time_traceable as u8,
        st.frequency_traceable as u8
    )
}

fn snap_state(s: &mut Script, m: &Mgr) {
    if let Some(i) = s.want_state.take() {
        if i < s.state.len() {
            s.state[i] = Some(state_str(m));
        }
    }
}

struct Sock<'m>(Arc<Mutex<Script>>, &'m Mgr);

impl ClientSocket for Sock<'_> {
    type Error = ();

    async fn recv(&mut self, buf: &mut [u8]) -> Result<ClientRecvResult, ()> {
        loop {
            {
                let mut s = self.0.lock().unwrap();
                let i = s.cursor;
                match s.ops.get(i).cloned() {
                    Some(Op::Dg(d, rx)) => {
                        s.cursor += 1;
                        s.last_consumed = Some(i);
                        s.obs[i] = Some("none".to_string());
                        let n = d.len().min(buf.len());
                        buf[..n].copy_from_slice(&d[..n]);
                        return Ok(ClientRecvResult { bytes_read: n, timestamp: rx });
                    }
                    Some(Op::RxErr) => {
                        s.cursor += 1;
                        s.last_consumed = Some(i);
                        s.obs[i] = Some("none".to_string());
                        return Err(());
                    }
                    _ => {}
                }
            }
            // nothing (more) for this request: stay pending, the timeout future is ready
            std::future::pending::<()>().await;
        }
    }

    async fn send_event(&mut self, buf: &[u8]) -> Result<Timestamp, ()> {
        loop {
            {
                let mut s = self.0.lock().unwrap();
                snap_state(&mut s, self.1);
                // datagrams nobody is listening for
                loop {
                    let i = s.cursor;
                    match s.ops.get(i) {
                        Some(Op::Dg(..)) | Some(Op::RxErr) => {
                            s.obs[i] = Some("unread".to_string());
                            s.cursor += 1;
                        }
                        _ => break,
                    }
                }
                let i = s.cursor;
                if let Some(Op::Req(send)) = s.ops.get(i).cloned() {
                    s.cursor += 1;
                    s.last_consumed = Some(i);
                    s.obs[i] = Some(format!("sent {}", hex(buf)));
                    s.open = send.is_some();
                    return send.ok_or(());
                }
            }
            std::future::pending::<()>().await;
        }
    }
}

/// ready when the script is exhausted (polled first by `run`)
struct Exhausted(Arc<Mutex<Script>>);
impl std::future::Future for Exhausted {
    type Output = ();
    fn poll(self: std::pin::Pin<&mut Self>, _cx: &mut std::task::Context<'_>) -> std::task::Poll<()> {
        let s = self.0.lock().unwrap();
        if s.cursor >= s.ops.len() {
            std::task::Poll::Ready(())
        } else {
            std::task::Poll::Pending
        }
    }
}

/// the injected sleep: the response timeout is ready when the next op is not a datagram for the open
/// request; every other sleep is ready at once
struct Sleep(Arc<Mutex<Script>>, bool);
impl std::future::Future for Sleep {
    type Output = ();
    fn poll(self: std::pin::Pin<&mut Self>, _cx: &mut std::task::Context<'_>) -> std::task::Poll<()> {
        if !self.1 {
            return std::task::Poll::Ready(());
        }
        let s = self.0.lock().unwrap();
        match s.ops.get(s.cursor) {
            Some(Op::Dg(..)) | Some(Op::RxErr) => std::task::Poll::Pending,
            _ => std::task::Poll::Ready(()),
        }
    }
}

const RESPONSE_INTERVAL: core::time::Duration = core::time::Duration::from_millis(777);

// ---------------------------------------------------------------------------------------------
// generators

fn ts_bytes(t: Timestamp) -> [u8; 10] {
    let mut b = [0u8; 10];
    t.serialize(&mut b).unwrap();
    b
}

fn gen_corr_small(rng: &mut Rng) -> i64 {
    match rng.below(8) {
        0 => 0,
        1 => -65536,
        2 => 65536,
        3 => -(1i64 << 16) * 1_000_000_000,
        4 => (1i64 << 16) * 999_999_999,
        5 => gen_correction(rng),
        _ => rng.range(-5_000_000_000, 5_000_000_000) << 16,
    }
}

/// seconds near the edges where the corrected value leaves [0, 2^48)
fn gen_edge_secs(rng: &mut Rng) -> u64 {
    match rng.below(6) {
        0 => rng.below(3),
        1 => 140_737 + rng.below(3),
        2 => (1u64 << 48) - 1 - rng.below(3),
        3 => (1u64 << 48) - 140_739 + rng.below(4),
        _ => gen_secs(rng),
    }
}

fn hdr(rng: &mut Rng, ty: u8, domain: u8, seq: u16, two_step: bool, corr: i64) -> Hdr {
    let v = *rng.pick(&[0x12u8, 0x12, 0x02, 0xf2]);
    let mut h = Hdr::random(rng, ty, 0x300, v);
    h.domain = domain;
    h.seq = seq;
    h.correction = corr;
    h.flags[0] = (h.flags[0] & !2) | if two_step { 2 } else { 0 };
    h
}

fn response_tlv(ingress: [u8; 10], corr: i64) -> (u16, Vec<u8>) {
    let mut v = ingress.to_vec();
    v.extend_from_slice(&corr.to_be_bytes());
    (0xff01, v)
}

/// the datagram events of one request with id `seq`
fn gen_round(rng: &mut Rng, domain: u8, seq: u16, out: &mut Vec<String>) {
    let edge = rng.chance(1, 3);
    fn secs(rng: &mut Rng, edge: bool) -> u64 {
        if edge { gen_edge_secs(rng) } else { 1_700_000_000 + rng.below(1000) }
    }
    fn corr_e(rng: &mut Rng, edge: bool) -> i64 {
        if edge { gen_corr_small(rng) } else { rng.range(-1_000_000, 1_000_000) << 16 }
    }
    fn push_e(rng: &mut Rng, edge: bool, pkt: Vec<u8>, out: &mut Vec<String>) {
        let rx = if rng.chance(1, 12) {
            "none".to_string()
        } else {
            let s = secs(rng, edge);
            let n = gen_nanos_valid(rng);
            ts_str(Timestamp::new(s, n).unwrap())
        };
        out.push(format!("dg pkt={} rx={}", hex(&pkt), rx));
    }
    let n = rng.usize(0, 5);
    for _ in 0..n {
        // mostly matching ids, sometimes off by one / other domain
        let s = match rng.below(10) {
            0 => seq.wrapping_add(1),
            1 => seq.wrapping_sub(1),
            _ => seq,
        };
        let d = if rng.chance(1, 12) { domain.wrapping_add(1) } else { domain };
        let ingress = {
            let mut b = [0u8; 10];
            b[0..6].copy_from_slice(&secs(rng, edge).to_be_bytes()[2..8]);
            b[6..10].copy_from_slice(&gen_nanos_valid(rng).to_be_bytes());
            b
        };
        let origin = {
            let mut b = [0u8; 10];
            b[0..6].copy_from_slice(&secs(rng, edge).to_be_bytes()[2..8]);
            b[6..10].copy_from_slice(&gen_nanos_valid(rng).to_be_bytes());
            b
        };
        match rng.below(14) {
            0..=3 => {
                // one-step response
                let mut tlvs = vec![response_tlv(ingress, corr_e(rng, edge))];
                if rng.chance(1, 2) {
                    tlvs.push(gen_status_tlv(rng));
                }
                if rng.chance(1, 6) {
                    tlvs.insert(0, gen_other_tlv(rng));
                }
                let c = corr_e(rng, edge);
                let h = hdr(rng, 0, d, s, false, c);
                { let p = assemble(&h, &origin, &tlvs); push_e(rng, edge, p, out); }
            }
            4..=6 => {
                // two-step response, follow-up after (maybe)
                let mut tlvs = vec![response_tlv(ingress, corr_e(rng, edge))];
                if rng.chance(1, 2) {
                    tlvs.push(gen_status_tlv(rng));
                }
                let c = corr_e(rng, edge);
                let h = hdr(rng, 0, d, s, true, c);
                { let p = assemble(&h, &[0u8; 10], &tlvs); push_e(rng, edge, p, out); }
                if rng.chance(3, 4) {
                    let s2 = if rng.chance(1, 8) { s.wrapping_add(1) } else { s };
                    let c = corr_e(rng, edge);
                let h = hdr(rng, 8, d, s2, true, c);
                    { let p = assemble(&h, &origin, &[]); push_e(rng, edge, p, out); }
                }
            }
            7..=8 => {
                // follow-up first
                let c = corr_e(rng, edge);
                let h = hdr(rng, 8, d, s, true, c);
                { let p = assemble(&h, &origin, &[]); push_e(rng, edge, p, out); }
                if rng.chance(3, 4) {
                    let tlvs = vec![response_tlv(ingress, corr_e(rng, edge))];
                    let two = rng.chance(5, 6);
                    let c = corr_e(rng, edge);
                let h = hdr(rng, 0, d, s, two, c);
                    { let p = assemble(&h, &origin, &tlvs); push_e(rng, edge, p, out); }
                }
            }
            9 => {
                // somebody's request
                let h = hdr(rng, 0, d, s, false, 0);
                { let t = gen_request_tlv(rng); let p = assemble(&h, &origin, &[t]); push_e(rng, edge, p, out); }
            }
            10 => {
                // response TLV variants: wild timestamps, truncated
                let tlvs = vec![gen_response_tlv(rng, true)];
                let two = rng.chance(1, 2);
                let c = corr_e(rng, edge);
                let h = hdr(rng, 0, d, s, two, c);
                { let b = gen_ts_bytes(rng, true); let p = assemble(&h, &b, &tlvs); push_e(rng, edge, p, out); }
            }
            11 => out.push("rxerr".to_string()),
            12 => {
                let tlvs = vec![response_tlv(ingress, corr_e(rng, edge))];
                let two = rng.chance(1, 2);
                let c = corr_e(rng, edge);
                let h = hdr(rng, 0, d, s, two, c);
                let good = assemble(&h, &origin, &tlvs);
                { let p = mangle(rng, good); push_e(rng, edge, p, out); }
            }
            _ => {
                let pkt = gen_server_datagram(rng);
                { let p = pkt; push_e(rng, edge, p, out); }
            }
        }
        // duplicates
        if rng.chance(1, 8) {
            if let Some(l) = out.last().cloned() {
                if l.starts_with("dg") {
                    out.push(l);
                }
            }
        }
    }
}

fn witness(idx: u64) -> Option<Vec<String>> {
    let send = "1700000000:5";
    let z = [0u8; 10];
    let mk = |ty: u8, two: bool, corr: i64, body: &[u8; 10], tlvs: &[(u16, Vec<u8>)]| {
        let h = Hdr {
            ty,
            sdo: 0x300,
            version: 0x12,
            domain: 128,
            flags: [if two { 2 } else { 0 }, 0],
            correction: corr,
            reserved4: [0; 4],
            source: [0; 10],
            seq: 0,
            control: 0,
            log_interval: 0x7f,
        };
        hex(&assemble(&h, body, tlvs))
    };
    let top = ts_bytes(Timestamp::new((1 << 48) - 1, 999_999_999).unwrap());
    let mut status = vec![0u8; 18];
    status[6] = 0xff;
    status[7] = 0xff;
    match idx {
        // F-C44a: origin seconds 0 with a correction field of -1 ns
        0 => Some(vec![
            "scfg domain=128 active=1".into(),
            format!("req send={}", send),
            format!("dg pkt={} rx=1700000000:9", mk(0, false, -65536, &z, &[response_tlv(z, 0)])),
        ]),
        // F-C44a: origin seconds 2^48-1 with a positive correction
        1 => Some(vec![
            "scfg domain=128 active=1".into(),
            format!("req send={}", send),
            format!("dg pkt={} rx=1700000000:9", mk(0, false, 65536, &top, &[response_tlv(z, 0)])),
        ]),
        // F-C44a through the request direction: local send time early in the epoch, negative req correction
        2 => Some(vec![
            "scfg domain=128 active=0".into(),
            "req send=3:0".into(),
            format!("dg pkt={} rx=4:0", mk(0, false, 0, &z, &[response_tlv(z, -(1i64 << 16) * 4_000_000_000)])),
        ]),
        // F-C44c: status TLV with stepsRemoved 0xffff while this source is the active one
        3 => Some(vec![
            "scfg domain=128 active=1".into(),
            format!("req send={}", send),
            format!(
                "dg pkt={} rx=1700000000:9",
                mk(0, false, 0, &ts_bytes(Timestamp::new(1_700_000_000, 7).unwrap()), &[response_tlv(ts_bytes(Timestamp::new(1_700_000_000, 6).unwrap()), 0), (0xf002, status)])
            ),
        ]),
        // two-step via follow-up with saturating correction sum
        4 => Some(vec![
            "scfg domain=128 active=1".into(),
            format!("req send={}", send),
            format!("dg pkt={} rx=1700000000:9", mk(0, true, i64::MAX, &z, &[response_tlv(z, 0)])),
            format!("dg pkt={} rx=none", mk(8, true, i64::MAX, &ts_bytes(Timestamp::new(1_700_000_000, 7).unwrap()), &[])),
        ]),
        _ => None,
    }
}

fn gen_case(rng: &mut Rng, idx: u64, _run: &Run) -> Vec<String> {
    if let Some(w) = witness(idx) {
        return w;
    }
    let domain = *rng.pick(&[128u8, 128, 0, 255, 7]);
    let mut ops = vec![format!("scfg domain={} active={}", domain, rng.below(2))];
    // stray datagrams before the first request
    if rng.chance(1, 10) {
        gen_round(rng, domain, 0, &mut ops);
    }
    let rounds = rng.usize(1, 4);
    for r in 0..rounds {
        let send = if rng.chance(1, 8) {
            "err".to_string()
        } else if rng.chance(1, 4) {
            ts_str(Timestamp::new(gen_edge_secs(rng), gen_nanos_valid(rng)).unwrap())
        } else {
            ts_str(Timestamp::new(1_700_000_000 + rng.below(1000), gen_nanos_valid(rng)).unwrap())
        };
        ops.push(format!("req send={}", send));
        gen_round(rng, domain, r as u16, &mut ops);
    }
    ops
}

// ---------------------------------------------------------------------------------------------
// oracle: the property evaluated on bytes with independent arithmetic (no model, no library parser)

struct Raw {
    ty: u8,
    domain: u8,
    seq: u16,
    two_step: bool,
    leap61: bool,
    leap59: bool,
    corr: i64,
    body_ts: (u64, u32),
    /// first response TLV: ingress, correction
    resp: Option<((u64, u32), i64)>,
}

fn raw_ts(b: &[u8]) -> Option<(u64, u32)> {
    let mut s = [0u8; 8];
    s[2..8].copy_from_slice(&b[0..6]);
    let n = u32::from_be_bytes([b[6], b[7], b[8], b[9]]);
    (n < 1_000_000_000).then_some((u64::from_be_bytes(s), n))
}

/// byte-level view of a datagram that is a well-formed CSPTP Sync-with-response-TLV or Follow_Up
fn raw_view(pkt: &[u8]) -> Option<Raw> {
    let pkt = &pkt[..pkt.len().min(512)];
    if pkt.len() < 44 || pkt[0] >> 4 != 3 || pkt[5] != 0 || pkt[1] & 0x0f != 2 {
        return None;
    }
    let ty = pkt[0] & 0x0f;
    if ty != 0 && ty != 8 {
        return None;
    }
    let len = u16::from_be_bytes([pkt[2], pkt[3]]) as usize;
    if len < 44 || len > pkt.len() {
        return None;
    }
    let body_ts = raw_ts(&pkt[34..44])?;
    let mut off = 44;
    let mut tlvs: Vec<(u16, &[u8])> = vec![];
    while off < len {
        if off + 4 > len {
            return None;
        }
        let t = u16::from_be_bytes([pkt[off], pkt[off + 1]]);
        let l = u16::from_be_bytes([pkt[off + 2], pkt[off + 3]]) as usize;
        if l % 2 != 0 || off + 4 + l > len {
            return None;
        }
        tlvs.push((t, &pkt[off + 4..off + 4 + l]));
        off += 4 + l;
    }
    let mut resp = None;
    if ty == 0 {
        // a CSPTP Sync carries exactly one request-or-response TLV, and it must be well-formed
        let reqs: Vec<_> = tlvs.iter().filter(|t| t.0 == 0xff00).collect();
        let resps: Vec<_> = tlvs.iter().filter(|t| t.0 == 0xff01).collect();
        if reqs.len() + resps.len() != 1 || reqs.iter().any(|t| t.1.is_empty()) {
            return None;
        }
        for r in &resps {
            if r.1.len() < 18 {
                return None;
            }
            let ts = raw_ts(&r.1[0..10])?;
            resp = Some((ts, i64::from_be_bytes(r.1[10..18].try_into().unwrap())));
        }
    }
    Some(Raw {
        ty,
        domain: pkt[4],
        seq: u16::from_be_bytes([pkt[30], pkt[31]]),
        two_step: pkt[6] & 2 != 0,
        leap61: pkt[7] & 1 != 0,
        leap59: pkt[7] & 2 != 0,
        corr: i64::from_be_bytes(pkt[8..16].try_into().unwrap()),
        body_ts,
        resp,
    })
}

/// NTP-era timestamp bits of (seconds, nanos) on the PTP timescale, as `convert_to_ntp` defines it
fn ntp_of(ts: (u64, u32)) -> u64 {
    let secs = ((70u64 * 365 + 17) * 86400 + (ts.0 & 0xffff_ffff) + (1u64 << 32) - 37) & 0xffff_ffff;
    (secs << 32) + (((ts.1 as u64) << 32) / 1_000_000_000)
}

/// timestamp + correction (scaled ns >> 16), in exact arithmetic; None when outside [0, 2^48) s
fn corrected(ts: (u64, u32), corr: i64) -> Option<(u64, u32)> {
    let total = ts.0 as i128 * 1_000_000_000 + ts.1 as i128 + (corr >> 16) as i128;
    let s = total.div_euclid(1_000_000_000);
    let n = total.rem_euclid(1_000_000_000) as u32;
    (0..(1i128 << 48)).contains(&s).then_some((s as u64, n))
}

fn tsp(t: Timestamp) -> (u64, u32) {
    (t.seconds(), t.nanos())
}

// ---------------------------------------------------------------------------------------------

fn exec_case(ops: &[String], run: &mut Run) {
    let mut domain = 128u8;
    let mut active = false;
    let mut script_ops = vec![];
    let mut lines = vec![];
    for op in ops {
        let w: Vec<&str> = op.split_whitespace().collect();
        match w.as_slice() {
            ["scfg", rest @ ..] => {
                domain = kv(rest, "domain").unwrap().parse().unwrap();
                active = kv(rest, "active").unwrap() == "1";
                run.op(op, "ok");
            }
            ["req", rest @ ..] => {
                let s = kv(rest, "send").unwrap();
                script_ops.push(Op::Req(if s == "err" { None } else { Some(parse_ts(s).unwrap()) }));
                lines.push(op.clone());
            }
            ["dg", rest @ ..] => {
                let pkt = unhex(kv(rest, "pkt").unwrap()).unwrap();
                let rx = kv(rest, "rx").unwrap();
                script_ops.push(Op::Dg(pkt, if rx == "none" { None } else { Some(parse_ts(rx).unwrap()) }));
                lines.push(op.clone());
            }
            ["rxerr"] => {
                script_ops.push(Op::RxErr);
                lines.push(op.clone());
            }
            _ => {
                run.op(op, "bad-op");
                return;
            }
        }
    }
    let n = script_ops.len();
    let manager: Mgr = CsptpManager::new(crate::CsptpConfig::default());
    let local = ClockId::new();
    let remote = ClockId::new();
    if active {
        manager.state.with_mut(|s| s.active_source = Some(remote));
    }
    let script = Arc::new(Mutex::new(Script {
        ops: script_ops.clone(),
        obs: vec![None; n],
        state: vec![None; n],
        local: clock_bits(local),
        ..Default::default()
    }));
    let cfg = CsptpSourceConfig {
        poll_interval: core::time::Duration::from_millis(1000),
        response_interval: RESPONSE_INTERVAL,
        domain,
    };
    let mut source = CsptpSource::new(local, remote, cfg, &manager, Ctl(script.clone()));
    let res = std::panic::catch_unwind(std::panic::AssertUnwindSafe(|| {
        let sc = script.clone();
        let sc2 = script.clone();
        let mgr = &manager;
        block_on(source.run::<(), _, _, _>(
            Exhausted(script.clone()),
            move || Ok(Sock(sc.clone(), mgr)),
            move |d| Sleep(sc2.clone(), d == RESPONSE_INTERVAL),
            || rand::rngs::mock::StepRng::new(0x8000_0000_0000_0000, 0x1234_5678_9abc_def1),
        ))
    }));
    let panicked = res.is_err();
    let mut s = script.lock().unwrap_or_else(|e| e.into_inner());
    if !panicked {
        snap_state(&mut s, &manager);
    }
    // --- observations
    let mut n_meas = 0;
    let mut shape = String::new();
    let mut round_open = false;
    let mut round_id: u16 = 0;
    let mut next_id: u16 = 0;
    let mut round_send: Option<Timestamp> = None;
    let mut round_dgs: Vec<(Raw, Option<Timestamp>)> = vec![];
    let mut round_meas = 0;
    for i in 0..n {
        let consumed = s.obs[i].is_some();
        if !consumed {
            if panicked {
                break;
            }
            // not consumed although `run` ended: the harness's own invariant
            run.op(&lines[i], "harness-unconsumed");
            continue;
        }
        let ms: Vec<_> = s.meas.iter().filter(|m| m.0 == i).cloned().collect();
        let is_last_consumed = s.last_consumed == Some(i);
        let mut obs = s.obs[i].clone().unwrap();
        // bookkeeping of rounds for the oracle
        match &script_ops[i] {
            Op::Req(send) => {
                round_id = next_id;
                next_id = next_id.wrapping_add(1);
                round_open = send.is_some();
                round_send = *send;
                round_dgs.clear();
                round_meas = 0;
                shape.push('R');
                // the request on the wire: a CSPTP request with this round's id
                let want = {
                    let h = Hdr { ty: 0, sdo: 0x300, version: 0x12, domain, flags: [4, 0], correction: 0, reserved4: [0; 4], source: [0; 10], seq: round_id, control: 0, log_interval: 0x7f };
                    assemble(&h, &[0u8; 10], &[(0xff00, vec![1, 0, 0, 0])])
                };
                if obs != format!("sent {}", hex(&want)) {
                    run.oracle_fail("request_shape", "", &format!("request {} expected {}", obs, hex(&want)));
                }
            }
            Op::Dg(pkt, rx) => {
                if obs != "unread" {
                    if let Some(r) = raw_view(pkt) {
                        round_dgs.push((r, *rx));
                    }
                }
            }
            Op::RxErr => {}
        }
        if !ms.is_empty() {
            n_meas += 1;
            round_meas += 1;
            let a = ms.iter().find(|m| m.1);
            let b = ms.iter().find(|m| !m.1);
            let ok_shape = ms.len() == 2 && ms[0].1 && !ms[1].1 && s.usable_calls.iter().any(|u| u.0 == i && u.1);
            if !ok_shape {
                run.oracle_fail("measurement_shape", "", &format!("op {}: {:?}", i, ms));
            }
            let (a, b) = (a.cloned().unwrap_or(ms[0]), b.cloned().unwrap_or(ms[0]));
            let st = s.state[i].clone().unwrap_or_else(|| "-".to_string());
            obs = format!("meas a={:016x}/{:016x} b={:016x}/{:016x} leap={} st={}", a.2, a.3, b.2, b.3, a.4, st);
            shape.push('M');
            // ---- the property, on bytes: the measurement stems from matching answers of THIS request
            if !round_open || round_meas > 1 {
                run.oracle_fail("at_most_one_per_request", "", &format!("op {}: measurement without open request or second measurement", i));
            }
            let matching = |r: &Raw| r.domain == domain && r.seq == round_id;
            let explained = round_dgs.iter().any(|(sy, rx)| {
                let (Some((ingress, req_corr)), Some(rx), Some(send)) = (sy.resp, rx, round_send) else { return false };
                if sy.ty != 0 || !matching(sy) {
                    return false;
                }
                let leap = if sy.leap59 { 2 } else if sy.leap61 { 1 } else { 0 };
                let Some(a_s) = corrected(tsp(send), req_corr) else { return false };
                let base_ok = a.2 == ntp_of(a_s) && a.3 == ntp_of(ingress) && b.3 == ntp_of(tsp(*rx)) && a.4 == leap && b.4 == leap;
                if !base_ok {
                    return false;
                }
                if sy.two_step {
                    round_dgs.iter().any(|(fu, _)| {
                        fu.ty == 8 && matching(fu) && {
                            let c = (sy.corr as i128 + fu.corr as i128).clamp(i64::MIN as i128, i64::MAX as i128) as i64;
                            corrected(fu.body_ts, c).map(ntp_of) == Some(b.2)
                        }
                    })
                } else {
                    corrected(sy.body_ts, sy.corr).map(ntp_of) == Some(b.2)
                }
            });
            if !explained {
                run.oracle_fail("only_matching", "", &format!("op {}: measurement {} not explained by a matching response (+follow-up) of request {}", i, obs, round_id));
            }
        } else if matches!(script_ops[i], Op::Dg(..)) {
            shape.push(if obs == "unread" { 'u' } else { 'n' });
        }
        if panicked && is_last_consumed {
            run.oracle_fail("panic", &format!("site={}", common::last_panic().replace(' ', "_")), &format!("CsptpSource::run panicked at op {}: {}", i, lines[i]));
            run.hit("panic");
            run.op(&lines[i], "panic");
            break;
        }
        run.hit(match obs.split(' ').next().unwrap() {
            "meas" => "measurement",
            "sent" => "request",
            "unread" => "unread",
            _ => "ignored",
        });
        run.op(&lines[i], &obs);
    }
    if n_meas > 0 {
        run.nontrivial(&format!("{} {}", shape, active));
    }
}

#[test]
fn entry() {
    let stream = std::env::var("VERIF_STREAM").unwrap_or_default();
    match stream.as_str() {
        "c44_source" => common::drive(
            "c44_source",
            "one CsptpSource::run per case over a scripted ClientSocket: 1-4 requests, each followed by 0-10 datagrams (one-step / two-step responses, follow-ups before and after, duplicates, ids off by one, other domain, requests, wild timestamps, extreme seconds and correction fields, missing rx timestamps, recv errors, mangled and random datagrams); design-time witnesses first; non-trivial = at least one measurement; distinct by per-op outcome shape",
            gen_case,
            exec_case,
        ),
        other => panic!("unknown VERIF_STREAM {:?}", other),
    }
}
