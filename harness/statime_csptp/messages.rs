//! verification harness module included into `statime-csptp/src/messages.rs` (guarded hook).
