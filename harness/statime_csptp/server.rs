//! verification harness module included into `statime-csptp/src/server.rs` (guarded hook).
