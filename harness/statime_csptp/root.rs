//! verification harness module included into `statime-csptp/src/lib.rs` (guarded hook).
