//! Shared helpers of the PTP cluster harnesses (C41/C44/C45): a no-op-waker executor, a byte-level
//! PTP message builder (independent of the library's encoder), datagram generators, and byte-level
//! views used by the oracles.  The including module provides `common` and `wire` (= the statime-wire
//! crate) as siblings.
#![allow(dead_code)]

#[allow(unused_imports)]
use std::prelude::rust_2021::*;
#[allow(unused_imports)]
use std::{format, vec};

use super::common::Rng;
use super::wire::{ClockAccuracy, Timestamp};
use std::future::Future;
use std::pin::pin;
use std::task::{Context, Poll, Waker};

/// Drive a future to completion with a no-op waker (all our leaf futures are ready or flag-driven).
pub fn block_on<F: Future>(f: F) -> F::Output {
    let mut f = pin!(f);
    let mut cx = Context::from_waker(Waker::noop());
    let mut spins = 0u32;
    loop {
        if let Poll::Ready(v) = f.as_mut().poll(&mut cx) {
            return v;
        }
        spins += 1;
        assert!(spins < 1_000_000, "harness executor: future never completes");
    }
}

pub fn ts_str(t: Timestamp) -> String {
    format!("{}:{}", t.seconds(), t.nanos())
}

pub fn parse_ts(s: &str) -> Option<Timestamp> {
    let (a, b) = s.split_once(':')?;
    Timestamp::new(a.parse().ok()?, b.parse().ok()?).ok()
}

pub fn gen_secs(rng: &mut Rng) -> u64 {
    match rng.below(10) {
        0 => 0,
        1 => (1u64 << 48) - 1,
        2 => (1u64 << 32) - 1,
        3 => 1u64 << 32,
        4 => rng.below(4),
        5 => (1u64 << 48) - 1 - rng.below(4),
        6 => rng.next_u64() & ((1u64 << 48) - 1),
        _ => 1_700_000_000 + rng.below(100_000_000),
    }
}

pub fn gen_nanos_valid(rng: &mut Rng) -> u32 {
    match rng.below(6) {
        0 => 0,
        1 => 999_999_999,
        2 => 1,
        3 => 500_000_000,
        _ => rng.below(1_000_000_000) as u32,
    }
}

pub fn gen_ts(rng: &mut Rng) -> Timestamp {
    Timestamp::new(gen_secs(rng), gen_nanos_valid(rng)).unwrap()
}

/// 10 wire bytes of a timestamp; nanos may be out of range (10^9, 10^9+1, u32::MAX) when `wild`
pub fn gen_ts_bytes(rng: &mut Rng, wild: bool) -> [u8; 10] {
    let s = gen_secs(rng);
    let n: u32 = if wild && rng.chance(1, 3) {
        *rng.pick(&[1_000_000_000u32, 1_000_000_001, u32::MAX, 999_999_999, 0x4000_0000])
    } else {
        gen_nanos_valid(rng)
    };
    let mut b = [0u8; 10];
    b[0..6].copy_from_slice(&s.to_be_bytes()[2..8]);
    b[6..10].copy_from_slice(&n.to_be_bytes());
    b
}

pub fn gen_correction(rng: &mut Rng) -> i64 {
    match rng.below(12) {
        0 => 0,
        1 => i64::MAX,
        2 => i64::MIN,
        3 => -1,
        4 => 1,
        5 => (1_000_000_000i64 << 16) - 1,
        6 => -(1_000_000_000i64 << 16),
        7 => (rng.below(2_000_000_000) as i64) << 16,
        8 => -((rng.below(2_000_000_000) as i64) << 16),
        9 => rng.next_u64() as i64,
        _ => rng.range(-1_000_000, 1_000_000) << 8,
    }
}

pub fn parse_acc(s: &str) -> ClockAccuracy {
    match s.as_bytes()[0] {
        b'R' => ClockAccuracy::Reserved,
        b'U' => ClockAccuracy::Unknown,
        b'P' => ClockAccuracy::ProfileSpecific(s[1..].parse().unwrap()),
        _ => ClockAccuracy::from_primitive(s[1..].parse().unwrap()),
    }
}

pub fn acc_str(a: ClockAccuracy) -> String {
    match a {
        ClockAccuracy::Reserved => "R".to_string(),
        ClockAccuracy::Unknown => "U".to_string(),
        ClockAccuracy::ProfileSpecific(v) => format!("P{}", v),
        other => format!("N{}", other.to_primitive()),
    }
}

/// header fields a generator may want to pin
#[derive(Clone, Debug)]
pub struct Hdr {
    pub ty: u8,
    pub sdo: u16,
    pub version: u8, // byte 1: minor<<4 | major
    pub domain: u8,
    pub flags: [u8; 2],
    pub correction: i64,
    pub reserved4: [u8; 4],
    pub source: [u8; 10],
    pub seq: u16,
    pub control: u8,
    pub log_interval: u8,
}

impl Hdr {
    pub fn random(rng: &mut Rng, ty: u8, sdo: u16, version: u8) -> Hdr {
        let clean = rng.chance(3, 4);
        Hdr {
            ty,
            sdo,
            version,
            domain: *rng.pick(&[128u8, 0, 255, 127, 129]),
            flags: if clean {
                [rng.next_u64() as u8 & 0x67, rng.next_u64() as u8 & 0x7f]
            } else {
                [rng.next_u64() as u8, rng.next_u64() as u8]
            },
            correction: gen_correction(rng),
            reserved4: if clean { [0; 4] } else { rng.bytes(4).try_into().unwrap() },
            source: if rng.chance(1, 2) { [0; 10] } else { rng.bytes(10).try_into().unwrap() },
            seq: *rng.pick(&[0u16, 1, 2, 3, 0xffff, 0x8000, 0x1234]),
            control: if clean { 0 } else { rng.next_u64() as u8 },
            log_interval: *rng.pick(&[0x7fu8, 0, 0x80, 0xff, 1]),
        }
    }

    /// 34 header bytes with the given total message length
    pub fn bytes(&self, message_length: u16) -> Vec<u8> {
        let mut b = vec![0u8; 34];
        b[0] = (((self.sdo >> 8) as u8) << 4) | (self.ty & 0x0f);
        b[1] = self.version;
        b[2..4].copy_from_slice(&message_length.to_be_bytes());
        b[4] = self.domain;
        b[5] = self.sdo as u8;
        b[6] = self.flags[0];
        b[7] = self.flags[1];
        b[8..16].copy_from_slice(&self.correction.to_be_bytes());
        b[16..20].copy_from_slice(&self.reserved4);
        b[20..30].copy_from_slice(&self.source);
        b[30..32].copy_from_slice(&self.seq.to_be_bytes());
        b[32] = self.control;
        b[33] = self.log_interval;
        b
    }
}

pub fn tlv_bytes(tlvs: &[(u16, Vec<u8>)]) -> Vec<u8> {
    let mut out = vec![];
    for (t, v) in tlvs {
        out.extend_from_slice(&t.to_be_bytes());
        out.extend_from_slice(&(v.len() as u16).to_be_bytes());
        out.extend_from_slice(v);
    }
    out
}

pub fn assemble(h: &Hdr, body: &[u8], tlvs: &[(u16, Vec<u8>)]) -> Vec<u8> {
    let t = tlv_bytes(tlvs);
    let len = 34 + body.len() + t.len();
    let mut b = h.bytes(len as u16);
    b.extend_from_slice(body);
    b.extend_from_slice(&t);
    b
}

/// a message with random (mostly clean) header fields
pub fn mk_msg(rng: &mut Rng, ty: u8, sdo: u16, version: u8, body: &[u8], tlvs: &[(u16, Vec<u8>)]) -> Vec<u8> {
    let h = Hdr::random(rng, ty, sdo, version);
    assemble(&h, body, tlvs)
}

pub fn gen_other_tlv(rng: &mut Rng) -> (u16, Vec<u8>) {
    let ty = *rng.pick(&[0x8008u16, 0x0003, 0x0008, 0x2004, 0x7f00, 0xf002, 0xff02, 0xfeff, 0x0000]);
    let len = *rng.pick(&[0usize, 2, 4, 6, 18, 20]);
    (ty, rng.bytes(len))
}

pub fn gen_request_tlv(rng: &mut Rng) -> (u16, Vec<u8>) {
    let len = match rng.below(10) {
        0 => 0,
        1 => 2,
        2 => 6,
        _ => 4,
    };
    let mut v = vec![0u8; len];
    if len > 0 {
        v[0] = match rng.below(6) {
            0 => 0,
            1 => 2,
            2 => 3,
            3 => rng.next_u64() as u8,
            _ => 1,
        };
    }
    (0xff00, v)
}

pub fn gen_response_tlv(rng: &mut Rng, wild: bool) -> (u16, Vec<u8>) {
    let mut v = gen_ts_bytes(rng, wild).to_vec();
    v.extend_from_slice(&gen_correction(rng).to_be_bytes());
    match rng.below(12) {
        0 => v.truncate(16),
        1 => v.extend_from_slice(&[0, 0]),
        _ => {}
    }
    (0xff01, v)
}

pub fn gen_status_tlv(rng: &mut Rng) -> (u16, Vec<u8>) {
    let mut v = rng.bytes(18);
    match rng.below(8) {
        0 => v.truncate(16),
        1 => {
            v[6] = 0xff;
            v[7] = 0xff;
        }
        2 => {
            v[6] = 0xff;
            v[7] = 0xfe;
        }
        3 => {
            v[6] = 0;
            v[7] = 0;
        }
        _ => {}
    }
    (0xf002, v)
}

/// malformations applied to an otherwise well-formed datagram
pub fn mangle(rng: &mut Rng, mut b: Vec<u8>) -> Vec<u8> {
    match rng.below(9) {
        0 => {
            let n = rng.usize(0, b.len());
            b.truncate(n);
        }
        1 => {
            // length field lies
            if b.len() >= 4 {
                let l = u16::from_be_bytes([b[2], b[3]]);
                let l2 = match rng.below(6) {
                    0 => l.wrapping_add(1),
                    1 => l.wrapping_sub(1),
                    2 => l.wrapping_add(2),
                    3 => l.wrapping_sub(2),
                    4 => rng.below(40) as u16,
                    _ => l.wrapping_sub(4),
                };
                b[2..4].copy_from_slice(&l2.to_be_bytes());
            }
        }
        2 => {
            // trailing padding after messageLength (must be ignored)
            let n = rng.usize(1, 9);
            b.extend(rng.bytes(n));
        }
        3 => {
            if !b.is_empty() {
                let i = rng.usize(0, b.len() - 1);
                b[i] ^= 1 << rng.below(8);
            }
        }
        4 => {
            // lie in a TLV length
            if b.len() >= 48 {
                let i = 46 + rng.usize(0, 1);
                b[i] = b[i].wrapping_add(*rng.pick(&[1u8, 2, 0xff, 0xfe]));
            }
        }
        5 => {
            if !b.is_empty() {
                b[0] = (b[0] & 0xf0) | rng.below(16) as u8;
            }
        }
        6 => {
            if b.len() > 1 {
                b[1] = rng.next_u64() as u8;
            }
        }
        7 => {
            if b.len() > 5 {
                if rng.chance(1, 2) {
                    b[5] = rng.next_u64() as u8;
                } else {
                    b[0] = (b[0] & 0x0f) | ((rng.below(16) as u8) << 4);
                }
            }
        }
        _ => {
            // cut to header + body + one TLV header exactly (4 trailing bytes)
            if b.len() >= 48 {
                b.truncate(48);
                b[2..4].copy_from_slice(&48u16.to_be_bytes());
            }
        }
    }
    b
}

/// datagrams aimed at the CSPTP server
pub fn gen_server_datagram(rng: &mut Rng) -> Vec<u8> {
    let version = *rng.pick(&[0x12u8, 0x12, 0x12, 0x02, 0xf2, 0x22]);
    let body: Vec<u8> = gen_ts_bytes(rng, true).to_vec();
    let b = match rng.below(16) {
        0..=5 => {
            // well-formed request, possibly with other TLVs around it
            let mut tlvs = vec![];
            for _ in 0..rng.below(3) {
                if rng.chance(1, 2) {
                    tlvs.push(gen_other_tlv(rng));
                }
            }
            let mut r = gen_request_tlv(rng);
            if rng.chance(4, 5) && r.1.is_empty() {
                r.1 = vec![1, 0, 0, 0];
            }
            tlvs.push(r);
            for _ in 0..rng.below(3) {
                if rng.chance(1, 2) {
                    tlvs.push(gen_other_tlv(rng));
                }
            }
            mk_msg(rng, 0, 0x300, version, &body, &tlvs)
        }
        6 => {
            // two request TLVs / request + response
            let mut tlvs = vec![gen_request_tlv(rng)];
            if rng.chance(1, 2) {
                tlvs.push(gen_request_tlv(rng));
            } else {
                tlvs.push(gen_response_tlv(rng, true));
            }
            mk_msg(rng, 0, 0x300, version, &body, &tlvs)
        }
        7 => {
            // a response (must not be answered)
            let mut tlvs = vec![gen_response_tlv(rng, true)];
            if rng.chance(1, 2) {
                tlvs.push(gen_status_tlv(rng));
            }
            mk_msg(rng, 0, 0x300, version, &body, &tlvs)
        }
        8 => mk_msg(rng, 8, 0x300, version, &body, &[]),
        9 => {
            // request in a non-Sync message / no TLV at all
            let ty = *rng.pick(&[1u8, 8, 9, 0xb, 0xc, 0xd, 0]);
            let blen = match ty {
                9 => 20,
                0xb => 30,
                0xd => 14,
                _ => 10,
            };
            let mut body = rng.bytes(blen);
            body[6] &= 0x3f; // mostly valid nanos
            let tlvs = if ty == 0 { vec![] } else { vec![gen_request_tlv(rng)] };
            mk_msg(rng, ty, 0x300, version, &body, &tlvs)
        }
        10 => {
            // wrong sdoId / wrong major version
            let sdo = *rng.pick(&[0x000u16, 0x301, 0x200, 0x3ff, 0xf00, 0x030]);
            let v = *rng.pick(&[0x12u8, 0x11, 0x13, 0x10]);
            let sdo = if rng.chance(1, 2) { sdo } else { 0x300 };
            let r = gen_request_tlv(rng);
            mk_msg(rng, 0, sdo, v, &body, &[r])
        }
        11 => {
            let n = rng.usize(0, 100);
            rng.bytes(n)
        }
        _ => {
            let mut r = gen_request_tlv(rng);
            if r.1.is_empty() {
                r.1 = vec![1, 0];
            }
            let good = mk_msg(rng, 0, 0x300, 0x12, &body, &[r]);
            mangle(rng, good)
        }
    };
    b
}

pub struct ReqView {
    pub status: bool,
}

/// Byte-level, library-independent test "is this datagram a well-formed CSPTP request?"
/// (sdoId 0x300, versionPTP 2, Sync, consistent lengths, valid origin timestamp, a TLV suffix of
/// even-length TLVs containing exactly one request TLV with a non-empty value and no response TLV).
pub fn raw_request_view(pkt: &[u8]) -> Option<ReqView> {
    if pkt.len() < 44 || pkt[0] != 0x30 || pkt[5] != 0 || pkt[1] & 0x0f != 2 {
        return None;
    }
    let len = u16::from_be_bytes([pkt[2], pkt[3]]) as usize;
    if len < 44 || len > pkt.len() {
        return None;
    }
    if u32::from_be_bytes([pkt[40], pkt[41], pkt[42], pkt[43]]) >= 1_000_000_000 {
        return None;
    }
    let mut off = 44;
    let mut reqs = vec![];
    while off < len {
        if off + 4 > len {
            return None;
        }
        let ty = u16::from_be_bytes([pkt[off], pkt[off + 1]]);
        let l = u16::from_be_bytes([pkt[off + 2], pkt[off + 3]]) as usize;
        if l % 2 != 0 || off + 4 + l > len {
            return None;
        }
        if ty == 0xff01 {
            return None;
        }
        if ty == 0xff00 {
            if l == 0 {
                return None;
            }
            reqs.push(pkt[off + 4]);
        }
        off += 4 + l;
    }
    if reqs.len() != 1 {
        return None;
    }
    Some(ReqView { status: reqs[0] & 1 != 0 })
}
