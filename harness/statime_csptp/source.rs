//! verification harness module included into `statime-csptp/src/source.rs` (guarded hook).
