//! verification harness dispatcher for hook `verif_source` of crate `statime_csptp` (guarded hook).
//! Add one line per property cluster:   #[path = "source_<cluster>.rs"] mod <cluster>;
//! Each sub-module has its own `#[test] fn entry()` selected by VERIF_STREAM and reaches the private
//! items of the module the hook sits in through `super::super::*`.

#[path = "source_ptp2.rs"]
mod ptp2;
