//! C45 harness: included into `statime-csptp/src/server.rs` (guarded hook), so it sees `handle_packet`,
//! `serve` and the crate-private manager state.
//!
//! Stream `c45_server`: one op = one datagram handed to the public `serve` loop through a scripted
//! `ServerSocket` (receive timestamp, result of `send_event` scripted); observation = the datagrams
//! given to `send_event` / `send_general`.
#![allow(clippy::all, clippy::pedantic)]

#[path = "../common/mod.rs"]
mod common;
#[path = "ptp_util.rs"]
pub(crate) mod ptp_util;

#[allow(unused_imports)]
use std::prelude::rust_2021::*;
#[allow(unused_imports)]
use std::{format, vec};

use super::super::*;
use ::statime_wire as wire;
use common::{hex, kv, unhex, Rng, Run};
use ptp_util::*;
use std::cell::RefCell;
use std::rc::Rc;

#[derive(Default)]
struct Rec {
    datagram: Option<Vec<u8>>,
    rx: Option<Timestamp>,
    ev: Option<Timestamp>,
    done: bool,
    event: Option<Vec<u8>>,
    general: Option<Vec<u8>>,
    order_violation: bool,
}

struct ScriptSocket(Rc<RefCell<Rec>>);

impl ServerSocket for ScriptSocket {
    type Addr = u8;
    type Error = ();

    async fn recv(&mut self, buf: &mut [u8]) -> Result<ServerRecvResult<u8>, ()> {
        let next = self.0.borrow_mut().datagram.take();
        match next {
            Some(d) => {
                let n = d.len().min(buf.len());
                buf[..n].copy_from_slice(&d[..n]);
                let rx = self.0.borrow().rx.unwrap();
                Ok(ServerRecvResult { bytes_read: n, remote_addr: 7, local_addr: 9, timestamp: rx })
            }
            None => {
                self.0.borrow_mut().done = true;
                std::future::pending::<()>().await;
                unreachable!()
            }
        }
    }

    async fn send_event(&mut self, buf: &[u8], from: u8, to: u8) -> Result<Timestamp, ()> {
        let mut r = self.0.borrow_mut();
        if r.event.is_some() || r.general.is_some() || from != 9 || to != 7 {
            r.order_violation = true;
        }
        r.event = Some(buf.to_vec());
        r.ev.ok_or(())
    }

    async fn send_general(&mut self, buf: &[u8], from: u8, to: u8) -> Result<(), ()> {
        let mut r = self.0.borrow_mut();
        if r.event.is_none() || r.general.is_some() || from != 9 || to != 7 {
            r.order_violation = true;
        }
        r.general = Some(buf.to_vec());
        Ok(())
    }
}

struct DoneFlag(Rc<RefCell<Rec>>);
impl std::future::Future for DoneFlag {
    type Output = ();
    fn poll(self: std::pin::Pin<&mut Self>, _cx: &mut std::task::Context<'_>) -> std::task::Poll<()> {
        if self.0.borrow().done {
            std::task::Poll::Ready(())
        } else {
            std::task::Poll::Pending
        }
    }
}

pub(crate) fn gen_cfg(rng: &mut Rng) -> String {
    let acc = match rng.below(6) {
        0 => "R".to_string(),
        1 => "U".to_string(),
        2 => format!("P{}", rng.below(0x80)),
        _ => format!("N{}", 0x17 + rng.below(0x1b)),
    };
    format!(
        "cfg leap={} p1={} class={} acc={} var={} p2={} steps={} gm={} ptp={} tt={} ft={}",
        rng.below(5),
        rng.below(256),
        rng.below(256),
        acc,
        rng.below(65536),
        rng.below(256),
        *rng.pick(&[0u64, 1, 2, 255, 256, 65534, 65535]),
        hex(&rng.bytes(8)),
        rng.below(2),
        rng.below(2),
        rng.below(2)
    )
}

pub(crate) fn apply_cfg(manager: &CsptpManager<RefCell<crate::InternalState>>, w: &[&str]) {
    use ntp_proto::NtpLeapIndicator as L;
    let n = |k: &str| kv(w, k).and_then(|v| v.parse::<u64>().ok()).expect("cfg field");
    let acc = parse_acc(kv(w, "acc").unwrap());
    let gm: [u8; 8] = unhex(kv(w, "gm").unwrap()).unwrap().try_into().unwrap();
    manager.state.with_mut(|s| {
        s.time_snapshot.leap_indicator = match n("leap") {
            0 => L::NoWarning,
            1 => L::Leap61,
            2 => L::Leap59,
            3 => L::Unknown,
            _ => L::Unsynchronized,
        };
        s.csptp_state.grandmaster_priority_1 = n("p1") as u8;
        s.csptp_state.grandmaster_priority_2 = n("p2") as u8;
        s.csptp_state.grandmaster_clock_quality = statime_wire::ClockQuality {
            clock_class: n("class") as u8,
            clock_accuracy: acc,
            offset_scaled_log_variance: n("var") as u16,
        };
        s.csptp_state.steps_removed = n("steps") as u16;
        s.csptp_state.grandmaster_identity = statime_wire::ClockIdentity(gm);
        s.csptp_state.ptp_timescale = n("ptp") == 1;
        s.csptp_state.time_traceable = n("tt") == 1;
        s.csptp_state.frequency_traceable = n("ft") == 1;
    });
}

fn gen_case(rng: &mut Rng, idx: u64, _run: &Run) -> Vec<String> {
    let mut ops = vec![gen_cfg(rng)];
    let n = rng.usize(1, 6);
    for k in 0..n {
        let pkt = if idx < 4 && k == 0 {
            // design-time witnesses first: a request whose LAST TLV has an empty value (F-C41), plain request
            let mut tlvs = vec![(0xff00u16, vec![1, 0, 0, 0])];
            if idx % 2 == 0 {
                tlvs.push((0x8008, vec![]));
            }
            mk_msg(rng, 0, 0x300, 0x12, &[0u8; 10], &tlvs)
        } else {
            gen_server_datagram(rng)
        };
        let rx = gen_ts(rng);
        let ev = if rng.chance(1, 5) { "err".to_string() } else { ts_str(gen_ts(rng)) };
        ops.push(format!("srv pkt={} rx={} ev={}", hex(&pkt), ts_str(rx), ev));
    }
    ops
}

/// the property evaluated directly on bytes (no model, no library parser)
fn oracle(run: &mut Run, pkt: &[u8], rx: Timestamp, ev: Option<Timestamp>, rec: &Rec, status_cfg: &[u8; 18]) {
    let req = raw_request_view(pkt);
    if rec.order_violation {
        run.oracle_fail("send_order", "", "general sent before / without event, or wrong addresses");
    }
    if rec.general.is_some() && ev.is_none() {
        run.oracle_fail("general_only_after_event", "", "follow-up sent although send_event failed");
    }
    let Some(event) = &rec.event else {
        if req.is_some() {
            run.oracle_fail("answers_requests", "", "well-formed CSPTP request got no answer");
        }
        return;
    };
    let Some(req) = req else {
        run.oracle_fail("answers_only_requests", "", &format!("answered a datagram that is not a well-formed CSPTP request: {}", hex(pkt)));
        return;
    };
    // response Sync
    let want_len = 44 + 22 + if req.status { 22 } else { 0 };
    let mut want_tlv = vec![0xff, 0x01, 0, 18];
    let mut tsb = [0u8; 10];
    rx.serialize(&mut tsb).unwrap();
    want_tlv.extend_from_slice(&tsb);
    want_tlv.extend_from_slice(&pkt[8..16]);
    let ok = event.len() == want_len
        && event[0] == 0x30
        && event[1] & 0x0f == 2
        && u16::from_be_bytes([event[2], event[3]]) as usize == want_len
        && event[4] == pkt[4]
        && event[5] == 0
        && event[6] & 2 == 2
        && event[30..32] == pkt[30..32]
        && event[44..66] == want_tlv[..];
    if !ok {
        run.oracle_fail("response_echoes", "", &format!("response {} does not echo request {} rx={}", hex(event), hex(pkt), ts_str(rx)));
    }
    if req.status {
        let ok = event.len() == want_len && event[66..70] == [0xf0, 0x02, 0, 18] && event[70..88] == status_cfg[..];
        if !ok {
            run.oracle_fail("status_iff_requested", "", &format!("status TLV wrong/missing in {}", hex(event)));
        }
    }
    match (&rec.general, ev) {
        (Some(g), Some(evts)) => {
            let mut tsb = [0u8; 10];
            evts.serialize(&mut tsb).unwrap();
            let ok = g.len() == 44
                && g[0] == 0x38
                && g[1] & 0x0f == 2
                && u16::from_be_bytes([g[2], g[3]]) == 44
                && g[4] == pkt[4]
                && g[5] == 0
                && g[30..32] == pkt[30..32]
                && g[34..44] == tsb;
            if !ok {
                run.oracle_fail("follow_up_send_time", "", &format!("follow-up {} for ev={}", hex(g), ts_str(evts)));
            }
        }
        (None, Some(_)) => run.oracle_fail("follow_up_send_time", "", "two-step answer without follow-up"),
        _ => {}
    }
}

fn exec_case(ops: &[String], run: &mut Run) {
    let manager: CsptpManager<RefCell<crate::InternalState>> = CsptpManager::new(crate::CsptpConfig::default());
    let mut key = String::new();
    let mut answered = 0;
    for op in ops {
        run.begin_op(op);
        let w: Vec<&str> = op.split_whitespace().collect();
        match w.as_slice() {
            ["cfg", rest @ ..] => {
                apply_cfg(&manager, rest);
                run.end_op("ok");
            }
            ["srv", rest @ ..] => {
                let pkt = unhex(kv(rest, "pkt").unwrap()).unwrap();
                let rx = parse_ts(kv(rest, "rx").unwrap()).unwrap();
                let ev = match kv(rest, "ev").unwrap() {
                    "err" => None,
                    s => Some(parse_ts(s).unwrap()),
                };
                let rec = Rc::new(RefCell::new(Rec { datagram: Some(pkt.clone()), rx: Some(rx), ev, ..Default::default() }));
                block_on(serve(ScriptSocket(rec.clone()), DoneFlag(rec.clone()), &manager));
                let rec = rec.borrow();
                // status TLV content the property requires, straight from the state
                let st = manager.observe();
                let mut status = [0u8; 18];
                status[0] = st.grandmaster_priority_1;
                status[1] = st.grandmaster_clock_quality.clock_class;
                status[2] = st.grandmaster_clock_quality.clock_accuracy.to_primitive();
                status[3..5].copy_from_slice(&st.grandmaster_clock_quality.offset_scaled_log_variance.to_be_bytes());
                status[5] = st.grandmaster_priority_2;
                status[6..8].copy_from_slice(&st.steps_removed.to_be_bytes());
                status[10..18].copy_from_slice(&st.grandmaster_identity.0);
                oracle(run, &pkt, rx, ev, &rec, &status);
                let obs = match (&rec.event, &rec.general) {
                    (None, _) => {
                        run.hit("no-answer");
                        key.push('n');
                        "none".to_string()
                    }
                    (Some(e), None) => {
                        run.hit("event-only");
                        answered += 1;
                        key.push_str(&format!("e{}", e.len()));
                        format!("event {}", hex(e))
                    }
                    (Some(e), Some(g)) => {
                        run.hit("event+general");
                        answered += 1;
                        key.push_str(&format!("g{}", e.len()));
                        format!("event {} general {}", hex(e), hex(g))
                    }
                };
                key.push_str(&format!("{:x}", pkt.len()));
                run.end_op(&obs);
            }
            _ => run.end_op("bad-op"),
        }
    }
    if answered > 0 {
        run.nontrivial(&format!("{} {}", key, ops.len()));
    }
}

#[test]
fn entry() {
    let stream = std::env::var("VERIF_STREAM").unwrap_or_default();
    match stream.as_str() {
        "c45_server" => common::drive(
            "c45_server",
            "random server state + 1-6 datagrams (valid CSPTP requests with perturbed flags/correction/extra TLVs/padding, responses, follow-ups, wrong sdoId/version/type, length lies, truncations, random bytes) through the public serve() with a scripted ServerSocket; non-trivial = at least one datagram answered; distinct by answer-shape string",
            gen_case,
            exec_case,
        ),
        other => panic!("unknown VERIF_STREAM {:?}", other),
    }
}
