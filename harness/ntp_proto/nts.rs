//! verification harness module included into `ntp-proto/src/nts/mod.rs` (guarded hook).
