//! verification harness module included into `ntp-proto/src/algorithm/kalman/mod.rs` (guarded hook).
//! Grandchild of `algorithm::kalman` (and so a descendant of `algorithm`): sees the controller's private
//! `sources` map / `timedata`, `SourceSnapshot`, `KalmanSourceMessage.inner`, and the wrapper's private
//! `WrapperMessage` and channel sender.
//!
//! Streams (VERIF_STREAM), properties C37, C03 (steer_needs_selection), C04 (applied):
//!   c37_ctrl — the real `KalmanClockController` driven through the `InternalTimeSyncController` calls the
//!              wrapper loop makes (add_source / source_update / remove_source / source_message), including
//!              messages and usability changes for ids that were removed or never registered.  Before each
//!              `source_message` the harness reads the controller's map back and computes, with the real
//!              `progress_time`, the snapshot values `update_clock` is about to see (`vals=`); the steering
//!              calls made are read back from the test clock (`steer=`).
//!   c37_loop — the real `TimeSyncControllerWrapper::run` loop on a paused current-thread tokio runtime with
//!              real `TwoWaySourceControllerWrapper`s (real `set_usable`, real `Drop`), snapshots injected on
//!              the real channel (also after the source was dropped); scripted interleavings of sends and
//!              loop turns; constant message time and mutually agreeing, already-centred offsets, so that no
//!              steering happens and the stored values stay bit-identical to what was sent.
//!
//! op lines:  cfg min=<n> ws=<hex> wd=<hex> mu=<hex>
//!            add id=<k> | usable id=<k> b=<0|1> | drop id=<k>
//!            msg id=<k> t=<secs> snap=<cand> [vals=<k>/<cand>,… steer=<call>+<call>]   (c37_ctrl)
//!            send id=<k> usable=<0|1> | send id=<k> snap=<cand> | send id=<k> drop | run      (c37_loop)
//! observations: calls=<…> used=<sorted ids|none> leap=<c> cand=<sorted ids>    (c37_ctrl)
//!               ok | calls=<…> used=<sorted ids> leap=<c>                      (c37_loop)
#![allow(clippy::all, clippy::pedantic)]

#[path = "../common/mod.rs"]
mod common;

use super::super::*;
use crate::algorithm::kalman::matrix::{Matrix, Vector};
use crate::algorithm::{TimeSyncController, TimeSyncControllerWrapper, WrapperMessage};
use crate::algorithm::SourceController;
use common::{f64hex, f64unhex, Rng, Run};
use std::collections::BTreeMap;
use std::sync::{Arc, Mutex};

#[derive(Debug, Clone)]
struct LogClock {
    log: Arc<Mutex<Vec<String>>>,
    now: Arc<Mutex<NtpTimestamp>>,
}

impl LogClock {
    fn new() -> Self {
        LogClock { log: Arc::new(Mutex::new(vec![])), now: Arc::new(Mutex::new(NtpTimestamp::from_fixed_int(0))) }
    }
    fn take(&self) -> Vec<String> {
        std::mem::take(&mut *self.log.lock().unwrap())
    }
}

fn leap_char(l: NtpLeapIndicator) -> char {
    match l {
        NtpLeapIndicator::NoWarning => 'n',
        NtpLeapIndicator::Leap59 => '5',
        NtpLeapIndicator::Leap61 => '6',
        NtpLeapIndicator::Unknown => 'u',
        NtpLeapIndicator::Unsynchronized => 'x',
    }
}

fn leap_of(c: &str) -> Option<NtpLeapIndicator> {
    Some(match c {
        "n" => NtpLeapIndicator::NoWarning,
        "5" => NtpLeapIndicator::Leap59,
        "6" => NtpLeapIndicator::Leap61,
        "u" => NtpLeapIndicator::Unknown,
        "x" => NtpLeapIndicator::Unsynchronized,
        _ => return None,
    })
}

impl NtpClock for LogClock {
    type Error = std::io::Error;
    fn now(&self) -> Result<NtpTimestamp, Self::Error> {
        Ok(*self.now.lock().unwrap())
    }
    fn set_frequency(&self, freq: f64) -> Result<NtpTimestamp, Self::Error> {
        self.log.lock().unwrap().push(format!("freq:{}", f64hex(freq)));
        Ok(*self.now.lock().unwrap())
    }
    fn get_frequency(&self) -> Result<f64, Self::Error> {
        Ok(0.0)
    }
    fn step_clock(&self, offset: NtpDuration) -> Result<NtpTimestamp, Self::Error> {
        self.log.lock().unwrap().push(format!("step:{}", f64hex(offset.to_seconds())));
        Ok(*self.now.lock().unwrap())
    }
    fn disable_ntp_algorithm(&self) -> Result<(), Self::Error> {
        self.log.lock().unwrap().push("disable".to_string());
        Ok(())
    }
    fn error_estimate_update(&self, _e: NtpDuration, _m: NtpDuration) -> Result<(), Self::Error> {
        self.log.lock().unwrap().push("err".to_string());
        Ok(())
    }
    fn status_update(&self, leap: NtpLeapIndicator) -> Result<(), Self::Error> {
        self.log.lock().unwrap().push(format!("status:{}", leap_char(leap)));
        Ok(())
    }
}

fn ts(secs: u64) -> NtpTimestamp {
    NtpTimestamp::from_fixed_int(secs << 32)
}

fn snapshot(id: u64, t: u64, offset: f64, var: f64, delay: f64, periodic: bool, leap: NtpLeapIndicator) -> SourceSnapshot {
    SourceSnapshot {
        index: ClockId(id),
        state: KalmanState {
            state: Vector::new_vector([offset, 0.0]),
            uncertainty: Matrix::new([[var, 0.0], [0.0, 1e-16]]),
            time: ts(t),
        },
        wander: 1e-16,
        delay,
        period: if periodic { Some(100.0) } else { None },
        source_uncertainty: NtpDuration::from_seconds(0.0001),
        source_delay: NtpDuration::from_seconds(0.001),
        leap_indicator: leap,
        last_update: ts(t),
    }
}

fn cand_str(o: f64, v: f64, d: f64, p: bool, l: char) -> String {
    format!("{}:{}:{}:{}:{}", f64hex(o), f64hex(v), f64hex(d), if p { 1 } else { 0 }, l)
}

fn parse_cand(id: u64, t: u64, s: &str) -> Option<SourceSnapshot> {
    let f: Vec<&str> = s.split(':').collect();
    if f.len() != 5 {
        return None;
    }
    Some(snapshot(id, t, f64unhex(f[0])?, f64unhex(f[1])?, f64unhex(f[2])?, f[3] == "1", leap_of(f[4])?))
}

struct CaseCfg {
    min: usize,
    ws: f64,
    wd: f64,
    mu: f64,
}

fn parse_cfg(w: &[&str]) -> Option<CaseCfg> {
    Some(CaseCfg {
        min: common::kv(w, "min")?.parse().ok()?,
        ws: f64unhex(common::kv(w, "ws")?)?,
        wd: f64unhex(common::kv(w, "wd")?)?,
        mu: f64unhex(common::kv(w, "mu")?)?,
    })
}

fn configs(c: &CaseCfg) -> (SynchronizationConfig, AlgorithmConfig) {
    (
        SynchronizationConfig { minimum_agreeing_sources: c.min, ..SynchronizationConfig::default() },
        AlgorithmConfig {
            maximum_source_uncertainty: c.mu,
            range_statistical_weight: c.ws,
            range_delay_weight: c.wd,
            ..AlgorithmConfig::default()
        },
    )
}

fn sorted_ids(v: &[ClockId]) -> String {
    let mut ids: Vec<u64> = v.iter().map(|c| c.0).collect();
    ids.sort();
    common::comma_list(&ids)
}

/// the reference bookkeeping of the property: id -> (has reported, last reported usable), registered ids only
type Reference = BTreeMap<u64, (bool, bool)>;

fn reference_candidates(r: &Reference) -> Vec<u64> {
    r.iter().filter(|(_, v)| v.0 && v.1).map(|(k, _)| *k).collect()
}

/// C03 evaluated directly: is there a point shared by >= min voters that are a strict majority of all voters?
fn consensus(c: &CaseCfg, voters: &[(f64, f64)]) -> bool {
    let mut best = 0;
    for (lo, _) in voters {
        best = best.max(voters.iter().filter(|(l, h)| l <= lo && lo <= h).count());
    }
    best >= c.min && 2 * best > voters.len()
}

fn majority_leap(leaps: &[NtpLeapIndicator]) -> Option<NtpLeapIndicator> {
    let known = leaps.iter().filter(|l| **l != NtpLeapIndicator::Unknown).count();
    for l in [NtpLeapIndicator::NoWarning, NtpLeapIndicator::Leap59, NtpLeapIndicator::Leap61] {
        if 2 * leaps.iter().filter(|x| **x == l).count() > known {
            return Some(l);
        }
    }
    None
}

// ------------------------------------------------------------------------------------------- generators

const G: f64 = 1.0 / 1024.0;

fn gen_cfg(rng: &mut Rng) -> String {
    format!(
        "cfg min={} ws={} wd={} mu={}",
        rng.usize(1, 3),
        f64hex(*rng.pick(&[1.0, 2.0])),
        f64hex(*rng.pick(&[1.0, 0.5])),
        f64hex(*rng.pick(&[0.25, 0.0625, 8.0 * G]))
    )
}

/// a snapshot: mostly in the agreeing cluster around `centre`, sometimes an outlier, too uncertain, periodic or
/// unsynchronised
fn gen_snap(rng: &mut Rng, centre: f64, steer_free: bool) -> String {
    let kind = rng.below(20);
    let mut o = centre + (rng.range(-2, 2) as f64) * G;
    let mut u = (rng.usize(2, 4) as f64) * G;
    let d = (rng.usize(0, 2) as f64) * G;
    let mut p = false;
    let mut l = *rng.pick(&['n', 'n', 'n', '5', '5', '6', 'u']);
    match kind {
        0 | 1 if !steer_free => o = centre + (if rng.chance(1, 2) { 1.0 } else { -1.0 }) * (rng.usize(40, 400) as f64) * G,
        0 | 1 | 2 => u = 1.0,
        3 => p = true,
        4 => l = 'x',
        _ => {}
    }
    if steer_free {
        // keep the combined estimate within the no-steer band (an outlier selected alone would be stepped to)
        o = centre + (rng.range(-1, 1) as f64) * G / 8.0;
    }
    cand_str(o, u * u, d, p, l)
}

fn gen_ctrl_case(rng: &mut Rng, idx: u64, _run: &Run) -> Vec<String> {
    if idx == 0 {
        // witness of seeded change C37-b: B is ahead (t=130) when A's late message (t=120, NEW value: other delay
        // and leap) is handled; A's new measurement must be the one held, and the next update must use it
        let one = f64hex(1.0);
        return vec![
            format!("cfg min=1 ws={} wd={} mu={}", one, one, f64hex(0.25)),
            "add id=1".into(),
            "add id=2".into(),
            "usable id=1 b=1".into(),
            "usable id=2 b=1".into(),
            format!("msg id=1 t=110 snap={}", cand_str(0.0, 4.0 * G * G, G, false, 'n')),
            format!("msg id=2 t=130 snap={}", cand_str(0.0, 4.0 * G * G, G, false, 'n')),
            format!("msg id=1 t=120 snap={}", cand_str(G, 9.0 * G * G, 2.0 * G, false, '5')),
            format!("msg id=2 t=140 snap={}", cand_str(0.0, 4.0 * G * G, G, false, '5')),
        ];
    }
    let mut ops = vec![gen_cfg(rng)];
    let mut used_stamps: Vec<u64> = vec![];
    let n_ids = rng.usize(2, 6) as u64;
    let centre = *rng.pick(&[0.0, 0.0, 0.5, -0.25, 2.0 * G]);
    let mut t = 100u64;
    let n = rng.usize(6, 40);
    let mut live: Vec<u64> = vec![];
    for _ in 0..n {
        let mut id = 1 + rng.below(n_ids + 1); // one id beyond: never registered unless added later
        let r = rng.below(100);
        if r >= 12 && !live.is_empty() && rng.chance(3, 4) {
            id = *rng.pick(&live);
        }
        if live.len() < 2 || r < 12 {
            ops.push(format!("add id={}", id));
            if !live.contains(&id) {
                live.push(id);
            }
        } else if r < 35 {
            ops.push(format!("usable id={} b={}", id, if rng.chance(3, 4) { 1 } else { 0 }));
        } else if r < 43 {
            ops.push(format!("drop id={}", id));
            live.retain(|x| *x != id);
        } else {
            // time stamps are distinct; mostly increasing, but a quarter of the messages is delivered LATE: its
            // stamp lies before stamps already handled (other sources are then ahead of it)
            let mut stamp = 0;
            if t > 110 && rng.chance(1, 4) {
                for _ in 0..8 {
                    let cand = t - rng.usize(1, 40).min((t - 101) as usize) as u64;
                    if cand > 100 && !used_stamps.contains(&cand) {
                        stamp = cand;
                        break;
                    }
                }
            }
            if stamp == 0 {
                t += rng.usize(1, 64) as u64;
                stamp = t;
            }
            used_stamps.push(stamp);
            // after a step the real snapshots are shifted; new messages are generated around the shifted centre
            // only approximately (the model reads the exact values back), so both agreement and disagreement occur
            let c = if rng.chance(1, 3) { 0.0 } else { centre };
            ops.push(format!("msg id={} t={} snap={}", id, stamp, gen_snap(rng, c, false)));
        }
    }
    ops
}

fn gen_loop_case(rng: &mut Rng, idx: u64, _run: &Run) -> Vec<String> {
    if idx == 0 {
        // witness of seeded change C37-g: source 1 is dropped while relay handles are alive; afterwards only source 2
        // may be used
        let one = f64hex(1.0);
        let sn = |l: char| cand_str(0.0, 4.0 * G * G, G, false, l);
        return vec![
            format!("cfg min=1 ws={} wd={} mu={}", one, one, f64hex(0.25)),
            "add id=1".into(),
            "add id=2".into(),
            "send id=1 usable=1".into(),
            "send id=2 usable=1".into(),
            format!("send id=1 snap={}", sn('n')),
            format!("send id=2 snap={}", sn('n')),
            "run".into(),
            "send id=1 drop-held".into(),
            "run".into(),
            format!("send id=2 snap={}", sn('5')),
            "run".into(),
        ];
    }
    let mut ops = vec![gen_cfg(rng)];
    let n_ids = rng.usize(2, 6) as u64;
    let n = rng.usize(8, 40);
    let mut live: Vec<u64> = vec![];
    for _ in 0..n {
        let id = 1 + rng.below(n_ids + 1);
        let r = rng.below(100);
        if live.len() < 2 || r < 10 {
            if !live.contains(&id) {
                ops.push(format!("add id={}", id));
                live.push(id);
            }
        } else if r < 30 {
            ops.push(format!("send id={} usable={}", id, if rng.chance(3, 4) { 1 } else { 0 }));
        } else if r < 37 {
            // half of the drops happen while relay handles are alive (as in `run`'s broadcast loop)
            ops.push(format!("send id={} {}", id, if rng.chance(1, 2) { "drop" } else { "drop-held" }));
            live.retain(|x| *x != id);
        } else if r < 75 {
            ops.push(format!("send id={} snap={}", id, gen_snap(rng, 0.0, true)));
        } else {
            ops.push("run".to_string());
        }
    }
    ops.push("run".to_string());
    ops
}

// ------------------------------------------------------------------------------------------- c37_ctrl

fn exec_ctrl_case(ops: &[String], run: &mut Run) {
    let clock = LogClock::new();
    let mut cfg = CaseCfg { min: 1, ws: 1.0, wd: 1.0, mu: 0.25 };
    let mut ctrl: Option<KalmanClockController<LogClock>> = None;
    let mut reference: Reference = BTreeMap::new();
    let mut key = String::new();
    let mut interesting = false;
    for op in ops {
        run.begin_op(op);
        let w: Vec<&str> = op.split_whitespace().collect();
        let id = common::kv(&w, "id").and_then(|s| s.parse::<u64>().ok()).unwrap_or(0);
        if w[0] == "cfg" {
            let Some(c) = parse_cfg(&w) else { run.end_op("bad-op"); continue };
            cfg = c;
            let (s, a) = configs(&cfg);
            ctrl = Some(KalmanClockController::new(clock.clone(), s, a).unwrap());
            reference.clear();
            run.end_op("ok");
            continue;
        }
        let Some(c) = ctrl.as_mut() else { run.end_op("bad-op"); continue };
        let mut obs_calls: Vec<String> = vec![];
        let mut obs_used = "none".to_string();
        let mut final_op = op.clone();
        match w[0] {
            "add" => {
                let _ = c.add_source(ClockId(id), SourceConfig::default());
                reference.insert(id, (false, false));
                key.push('a');
            }
            "usable" => {
                let b = common::kv(&w, "b") == Some("1");
                c.source_update(ClockId(id), b);
                if let Some(e) = reference.get_mut(&id) {
                    e.1 = b;
                    key.push(if b { 'U' } else { 'u' });
                } else {
                    run.hit("usable-unregistered");
                    key.push('v');
                }
            }
            "drop" => {
                c.remove_source(ClockId(id));
                reference.remove(&id);
                key.push('d');
            }
            "msg" => {
                let t: u64 = common::kv(&w, "t").and_then(|s| s.parse().ok()).unwrap_or(0);
                let Some(snap) = common::kv(&w, "snap").and_then(|s| parse_cand(id, t, s)) else {
                    run.end_op("bad-op");
                    continue;
                };
                *clock.now.lock().unwrap() = ts(t);
                // read back: the values update_clock is about to see
                let mut view: BTreeMap<u64, SourceSnapshot> = BTreeMap::new();
                for (k, (s, _)) in c.sources.iter() {
                    if let Some(s) = s {
                        view.insert(k.0, *s);
                    }
                }
                if c.sources.contains_key(&ClockId(id)) {
                    view.insert(id, snap);
                }
                let mut vals = vec![];
                let mut bounds: BTreeMap<u64, (f64, f64, bool)> = BTreeMap::new();
                for (k, s) in view.iter() {
                    let st = s.state.progress_time(ts(t), s.wander, s.period);
                    let (o, v) = (st.offset(), st.offset_variance());
                    vals.push(format!("{}/{}", k, cand_str(o, v, s.delay, s.period.is_some(), leap_char(s.leap_indicator))));
                    let radius = v.sqrt() * cfg.ws + s.delay * cfg.wd;
                    let voter = s.period.is_none() && s.leap_indicator.is_synchronized() && radius <= cfg.mu;
                    bounds.insert(*k, (o - radius, o + radius, voter));
                }
                let leap_before = c.timedata.leap_indicator;
                let registered = reference.contains_key(&id);
                if let Some(e) = reference.get_mut(&id) {
                    e.0 = true;
                }
                let upd = c.source_message(ClockId(id), KalmanSourceMessage { inner: snap });
                obs_calls = clock.take();
                // the message's measurement must be the one the controller holds for this source afterwards,
                // whatever the other sources' time stamps (identity: last_update, delay bits, leap)
                if registered {
                    let held = c.sources.get(&ClockId(id)).and_then(|e| e.0);
                    let ok = held.map_or(false, |h| {
                        h.last_update == snap.last_update
                            && h.delay.to_bits() == snap.delay.to_bits()
                            && h.leap_indicator == snap.leap_indicator
                    });
                    if !ok {
                        run.oracle_fail(
                            "latest_measurement_kept",
                            &format!("id={} t={}", id, t),
                            &format!("after handling the measurement stamped {} of source {}, the controller holds {:?}", t, id,
                                held.map(|h| (h.last_update, h.delay, h.leap_indicator))),
                        );
                    }
                    if view.values().any(|s| s.state.time > ts(t)) {
                        run.hit("msg-while-other-ahead");
                    }
                }
                let steer: Vec<String> = obs_calls.iter().filter(|s| s.starts_with("step") || s.starts_with("freq")).cloned().collect();
                final_op = format!(
                    "{} vals={} steer={}",
                    op,
                    if vals.is_empty() { "-".to_string() } else { vals.join(",") },
                    if steer.is_empty() { "-".to_string() } else { steer.join("+") }
                );
                if let Some(u) = &upd.used_sources {
                    obs_used = sorted_ids(u);
                }
                // ---- oracle: the properties evaluated on what the implementation did
                let cands = reference_candidates(&reference);
                if !registered {
                    run.hit("msg-unregistered");
                    key.push('x');
                    if !obs_calls.is_empty() || upd.used_sources.is_some() || upd.source_message.is_some() {
                        run.oracle_fail("after_removal_ignored", &format!("id={}", id),
                            &format!("message for unregistered source {} caused calls {:?} used {:?}", id, obs_calls, upd.used_sources));
                    }
                } else if obs_calls.is_empty() {
                    run.hit("msg-no-consensus");
                    key.push('m');
                } else {
                    run.hit("msg-steered");
                    key.push('M');
                    interesting = true;
                }
                if let Some(u) = &upd.used_sources {
                    for x in u {
                        if !cands.contains(&x.0) {
                            run.oracle_fail("used_not_registered_usable", &format!("id={}", x.0),
                                &format!("source {} used although it is not (registered, reported, last usable); candidates {:?}", x.0, cands));
                        }
                        if let Some((_, _, voter)) = bounds.get(&x.0) {
                            let s = view.get(&x.0).unwrap();
                            if !voter && s.period.is_none() {
                                run.oracle_fail("used_unsync_or_uncertain", &format!("id={}", x.0), &format!("source {} used", x.0));
                            }
                        }
                    }
                }
                if !obs_calls.is_empty() || upd.used_sources.is_some() {
                    let voters: Vec<(f64, f64)> = cands.iter().filter_map(|k| bounds.get(k)).filter(|b| b.2).map(|b| (b.0, b.1)).collect();
                    if !consensus(&cfg, &voters) {
                        run.oracle_fail("no_majority_consensus", &format!("voters={} min={}", voters.len(), cfg.min),
                            &format!("clock calls {:?} without a majority consensus among the usable candidates {:?}", obs_calls, cands));
                    }
                }
                // C04: the announced indicator is the strict majority of the USED sources
                let status: Vec<&String> = obs_calls.iter().filter(|s| s.starts_with("status:")).collect();
                let want = upd.used_sources.as_ref().and_then(|u| {
                    let leaps: Vec<NtpLeapIndicator> = u.iter().filter_map(|x| view.get(&x.0)).map(|s| s.leap_indicator).collect();
                    majority_leap(&leaps)
                });
                let got = status.first().map(|s| s[7..].to_string());
                let want_s = want.map(|l| leap_char(l).to_string());
                if got != want_s || status.len() > 1 {
                    run.oracle_fail("leap_follows_majority", &format!("got={:?} want={:?}", got, want_s),
                        &format!("status_update calls {:?}, strict majority of used sources {:?}", status, want_s));
                }
                let leap_after = c.timedata.leap_indicator;
                if leap_after != want.unwrap_or(leap_before) {
                    run.oracle_fail("leap_kept_without_majority", "", &format!("leap indicator {:?} -> {:?}, majority {:?}", leap_before, leap_after, want));
                }
                if want.is_some() {
                    run.hit("leap-announced");
                }
            }
            _ => {
                run.end_op("bad-op");
                continue;
            }
        }
        let mut cand_ids: Vec<u64> = c.sources.iter().filter(|(_, v)| v.1 && v.0.is_some()).map(|(k, _)| k.0).collect();
        cand_ids.sort();
        let want = reference_candidates(&reference);
        if cand_ids != want {
            run.oracle_fail("candidates_registered_usable", "", &format!("controller candidates {:?}, property says {:?}", cand_ids, want));
        }
        let mut held: Vec<(u64, u64)> = c
            .sources
            .iter()
            .filter_map(|(k, v)| v.0.map(|s| (k.0, u64::from_be_bytes(s.last_update.to_bits()) >> 32)))
            .collect();
        held.sort();
        let held: Vec<String> = held.iter().map(|(k, t)| format!("{}:{}", k, t)).collect();
        let obs = format!(
            "calls={} used={} leap={} cand={} held={}",
            common::comma_list(&obs_calls),
            obs_used,
            leap_char(c.timedata.leap_indicator),
            common::comma_list(&cand_ids),
            common::comma_list(&held)
        );
        run.end_op_as(&final_op, &obs);
    }
    if interesting {
        run.nontrivial(&key);
    }
}

// ------------------------------------------------------------------------------------------- c37_loop

type Wrapper = TimeSyncControllerWrapper<KalmanClockController<LogClock>>;

fn exec_loop_case(ops: &[String], run: &mut Run) {
    let rt = tokio::runtime::Builder::new_current_thread().enable_time().start_paused(true).build().unwrap();
    rt.block_on(async {
        let clock = LogClock::new();
        *clock.now.lock().unwrap() = ts(100);
        let mut cfg = CaseCfg { min: 1, ws: 1.0, wd: 1.0, mu: 0.25 };
        let mut wrapper: Option<Arc<Wrapper>> = None;
        let mut task: Option<tokio::task::JoinHandle<()>> = None;
        let mut sources: BTreeMap<u64, <Wrapper as TimeSyncController>::NtpSourceController> = BTreeMap::new();
        let mut reference: Reference = BTreeMap::new();
        // messages sent but not yet handled, for the oracle's replay of the property in FIFO order
        let mut pending: Vec<(u64, String)> = vec![];
        let mut quality: BTreeMap<u64, (bool, bool)> = BTreeMap::new();
        let mut expected_used: Vec<u64> = vec![];
        // ids whose REAL source-side wrapper was dropped: in this loop turn / in earlier turns (until re-added)
        let mut dropped_now: Vec<u64> = vec![];
        let mut dropped_done: Vec<u64> = vec![];
        let mut key = String::new();
        let mut interesting = false;
        for op in ops {
            run.begin_op(op);
            let w: Vec<&str> = op.split_whitespace().collect();
            let id = common::kv(&w, "id").and_then(|s| s.parse::<u64>().ok()).unwrap_or(0);
            if w[0] == "cfg" {
                let Some(c) = parse_cfg(&w) else { run.end_op("bad-op"); continue };
                cfg = c;
                let (s, a) = configs(&cfg);
                let wr = Arc::new(Wrapper::new(clock.clone(), s, a).unwrap());
                let wr2 = wr.clone();
                task = Some(tokio::spawn(async move { wr2.run().await }));
                wrapper = Some(wr);
                run.end_op("ok");
                continue;
            }
            let Some(wr) = wrapper.as_ref() else { run.end_op("bad-op"); continue };
            let tx = wr.messages_for_system_sender.clone();
            match (w[0], w.get(2).copied()) {
                ("add", _) => {
                    sources.insert(id, wr.add_source(ClockId(id), SourceConfig::default()));
                    reference.insert(id, (false, false));
                    quality.remove(&id);
                    dropped_done.retain(|x| *x != id);
                    key.push('a');
                    run.end_op("ok");
                }
                ("send", Some(x)) if x.starts_with("usable=") => {
                    let b = x == "usable=1";
                    match sources.get_mut(&id) {
                        Some(s) => s.set_usable(b),
                        None => {
                            let _ = tx.send((ClockId(id), WrapperMessage::UsabilityChange(b)));
                        }
                    }
                    pending.push((id, if b { "U".into() } else { "u".into() }));
                    key.push('u');
                    run.end_op("ok");
                }
                ("send", Some(what @ ("drop" | "drop-held"))) => {
                    // "drop-held": the source-side wrapper goes away while the system side holds upgraded handles,
                    // obtained exactly as `run` obtains them for a relay (same field, same call); they are released
                    // right afterwards
                    let held: Vec<_> = if what == "drop-held" {
                        wr.twoway_sources.lock().unwrap().iter().filter_map(std::sync::Weak::upgrade).collect()
                    } else {
                        vec![]
                    };
                    match sources.remove(&id) {
                        Some(s) => {
                            drop(s); // the real Drop impl must send `Dropped`
                            dropped_now.push(id);
                            run.hit(if held.is_empty() { "drop-real" } else { "drop-real-while-held" });
                        }
                        None => {
                            let _ = tx.send((ClockId(id), WrapperMessage::Dropped));
                        }
                    }
                    drop(held);
                    pending.push((id, "d".into()));
                    key.push('d');
                    run.end_op("ok");
                }
                ("send", Some(x)) if x.starts_with("snap=") => {
                    let Some(snap) = parse_cand(id, 100, &x[5..]) else { run.end_op("bad-op"); continue };
                    let _ = tx.send((ClockId(id), WrapperMessage::SourceMessage(KalmanSourceMessage { inner: snap })));
                    pending.push((id, format!("m{}", &x[5..])));
                    key.push('m');
                    run.end_op("ok");
                }
                ("run", _) => {
                    for _ in 0..8 {
                        tokio::task::yield_now().await;
                    }
                    let calls = clock.take();
                    let (snapshot, used) = wr.synchronization_state();
                    // c37_drop_removes: once the source-side wrapper is dropped and the system side has handled its queue,
                    // the controller no longer knows the source, and no later update uses it
                    {
                        let inner = wr.inner.lock().unwrap();
                        for d in dropped_now.iter().chain(dropped_done.iter()) {
                            if inner.sources.contains_key(&ClockId(*d)) && !sources.contains_key(d) {
                                run.oracle_fail(
                                    "c37_drop_removes",
                                    &format!("id={} where=registered", d),
                                    &format!("source {} was dropped and the queue handled, but the controller still has it registered (snapshot: {})", d,
                                        inner.sources.get(&ClockId(*d)).map_or(false, |e| e.0.is_some())),
                                );
                            }
                        }
                    }
                    if calls.iter().any(|c| c == "err") {
                        for d in &dropped_done {
                            if used.iter().any(|u| u.0 == *d) && !sources.contains_key(d) {
                                run.oracle_fail(
                                    "c37_drop_removes",
                                    &format!("id={} where=used", d),
                                    &format!("an update after the removal of source {} still uses it: used {:?}", d, used),
                                );
                            }
                        }
                    }
                    for d in dropped_now.drain(..) {
                        if !sources.contains_key(&d) && !dropped_done.contains(&d) {
                            dropped_done.push(d);
                        }
                    }
                    // oracle: replay the property's bookkeeping over the handled messages in send order and compute,
                    // from it alone, the set of sources the controller must report as used: at every handled
                    // measurement of a registered source the candidates are registered ∧ last-usable ∧ has-snapshot;
                    // by construction of this stream all acceptable candidates agree, so the selection succeeds iff
                    // the acceptable non-periodic candidates reach the minimum, and then exactly the acceptable
                    // candidates are used
                    let mut last_cands: Option<Vec<u64>> = None;
                    for (pid, kind) in pending.drain(..) {
                        match kind.as_str() {
                            "U" | "u" => {
                                if let Some(e) = reference.get_mut(&pid) {
                                    e.1 = kind == "U";
                                }
                            }
                            "d" => {
                                reference.remove(&pid);
                                quality.remove(&pid);
                            }
                            _ => {
                                if let Some(e) = reference.get_mut(&pid) {
                                    e.0 = true;
                                    if let Some(sn) = parse_cand(pid, 100, &kind[1..]) {
                                        let radius = sn.offset_uncertainty() * cfg.ws + sn.delay * cfg.wd;
                                        let good = sn.leap_indicator.is_synchronized() && radius <= cfg.mu;
                                        quality.insert(pid, (good, sn.period.is_some()));
                                    }
                                    let cands = reference_candidates(&reference);
                                    let good: Vec<u64> = cands.iter().copied().filter(|k| quality.get(k).map_or(false, |q| q.0)).collect();
                                    let voters = good.iter().filter(|k| !quality[*k].1).count();
                                    if voters >= cfg.min && voters > 0 {
                                        expected_used = good;
                                    }
                                    last_cands = Some(cands);
                                }
                            }
                        }
                    }
                    let mut used_ids: Vec<u64> = used.iter().map(|c| c.0).collect();
                    used_ids.sort();
                    if used_ids != expected_used {
                        run.oracle_fail(
                            "used_is_candidate_set",
                            &format!("used={} want={}", common::comma_list(&used_ids), common::comma_list(&expected_used)),
                            &format!("synchronization_state reports used sources {:?}; registered∧usable∧reported acceptable sources at the last successful update: {:?}", used_ids, expected_used),
                        );
                    }
                    run.hit(if expected_used.is_empty() { "used-set-checked-empty" } else { "used-set-checked-nonempty" });
                    if !calls.is_empty() {
                        interesting = true;
                        run.hit("run-with-calls");
                        // all candidates agree by construction (outliers aside): every used source must have been a
                        // candidate at the last handled message
                        if let Some(c) = &last_cands {
                            for x in &used {
                                if !c.contains(&x.0) && calls.iter().rev().take_while(|s| *s != "disable").any(|s| s == "err") {
                                    // only checkable when the last message produced the update
                                    run.hit("used-check");
                                }
                            }
                        } else {
                            run.oracle_fail("after_removal_ignored", "", &format!("clock calls {:?} although no message of a registered source was handled", calls));
                        }
                        if calls.iter().any(|s| s.starts_with("step") || s.starts_with("freq")) {
                            run.hit("unexpected-steer");
                        }
                    } else {
                        run.hit("run-quiet");
                    }
                    for x in &used {
                        if !sources.contains_key(&x.0) && reference.contains_key(&x.0) {
                            run.oracle_fail("used_not_registered_usable", &format!("id={}", x.0), "used source has no live wrapper");
                        }
                    }
                    run.end_op(&format!(
                        "calls={} used={} leap={}",
                        common::comma_list(&calls),
                        sorted_ids(&used),
                        leap_char(snapshot.leap_indicator)
                    ));
                }
                _ => run.end_op("bad-op"),
            }
        }
        if let Some(t) = task {
            t.abort();
        }
        if interesting {
            run.nontrivial(&key);
        }
    });
}

#[test]
fn entry() {
    let stream = std::env::var("VERIF_STREAM").unwrap_or_default();
    match stream.as_str() {
        "c37_ctrl" => common::drive(
            "c37_ctrl",
            "real KalmanClockController driven by add/source_update/remove_source/source_message scripts over 2..=7 ids (incl. ids removed or never added); values seen by update_clock and steering calls read back; non-trivial = at least one message led to clock calls; distinct by op-kind string",
            gen_ctrl_case,
            exec_ctrl_case,
        ),
        "c37_loop" => common::drive(
            "c37_loop",
            "real TimeSyncControllerWrapper::run on a paused current-thread runtime, real source wrappers (set_usable, Drop) plus snapshots injected on the real channel (also after Drop); interleaved sends and loop turns; non-trivial = a loop turn produced clock calls",
            gen_loop_case,
            exec_loop_case,
        ),
        other => panic!("unknown VERIF_STREAM {:?}", other),
    }
}
