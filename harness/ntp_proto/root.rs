//! verification harness dispatcher for hook `verif_root` of crate `ntp_proto` (guarded hook).
//! Add one line per property cluster:   #[path = "root_<cluster>.rs"] mod <cluster>;

#[path = "root_f64.rs"]
mod f64base;
