//! verification harness module included into `ntp-proto/src/lib.rs` (guarded hook).
