//! verification harness dispatcher for hook `verif_packet_v5_server_reference_id` of crate `ntp_proto` (guarded hook).
//! Add one line per property cluster:   #[path = "packet_v5_server_reference_id_<cluster>.rs"] mod <cluster>;
//! Each sub-module has its own `#[test] fn entry()` selected by VERIF_STREAM and reaches the private
//! items of the module the hook sits in through `super::super::*`.

#[path = "packet_v5_server_reference_id_bloom.rs"]
mod bloom;
