//! verification harness module included into `ntp-proto/src/packet/v5/server_reference_id.rs` (guarded hook).
