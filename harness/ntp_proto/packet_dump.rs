//! verification harness module included into `ntp-proto/src/packet/mod.rs` (guarded hook), cluster `srcsm`.
//!
//! Bridge for the NtpSource state-machine harness (`source_sm.rs`), which lives in another module and cannot
//! name the private items of `crate::packet`.  Trait impls have no visibility, so the bridge is two `From`
//! impls on std types:
//!   * `BTreeMap<String,String>  from  &NtpPacket`  — the abstract packet record (canonical text per field)
//!     of a packet parsed by the REAL `NtpPacket::deserialize`;
//!   * `NtpPacket<'static>  from  &BTreeMap<String,String>` — a packet built from a concrete description with
//!     the crate's own header / extension-field types (serialised by the caller with the real serialiser).
#![allow(clippy::all, clippy::pedantic)]

use super::super::extension_fields::ExtensionFieldData;
use super::super::v5::extension_fields::ReferenceIdResponse;
use super::super::*;
use std::collections::BTreeMap;

fn hexs(bs: &[u8]) -> String {
    if bs.is_empty() {
        return "e".to_string();
    }
    bs.iter().map(|b| format!("{:02x}", b)).collect()
}

fn unhex(s: &str) -> Vec<u8> {
    if s == "e" || s == "-" {
        return vec![];
    }
    (0..s.len() / 2).map(|i| u8::from_str_radix(&s[2 * i..2 * i + 2], 16).expect("hex")).collect()
}

fn list(xs: Vec<String>) -> String {
    if xs.is_empty() { "-".to_string() } else { xs.join(",") }
}

fn uids(efs: &[ExtensionField<'_>]) -> String {
    list(efs.iter().filter_map(|ef| match ef {
        ExtensionField::UniqueIdentifier(b) => Some(hexs(b)),
        _ => None,
    }).collect())
}

fn cookies(efs: &[ExtensionField<'_>]) -> String {
    list(efs.iter().filter_map(|ef| match ef {
        ExtensionField::NtsCookie(b) => Some(hexs(b)),
        _ => None,
    }).collect())
}

fn has_rr(efs: &[ExtensionField<'_>]) -> String {
    let b = efs.iter().any(|ef| matches!(ef, ExtensionField::ReferenceIdResponse(_)));
    (b as u8).to_string()
}

/// f64 bits of `to_seconds()` as a decimal integer: an opaque, injective-enough name for the duration
pub(crate) fn durkey(d: crate::NtpDuration) -> String {
    d.to_seconds().to_bits().to_string()
}

impl<'a> From<&NtpPacket<'a>> for BTreeMap<String, String> {
    fn from(p: &NtpPacket<'a>) -> Self {
        let mut m = BTreeMap::new();
        let mut put = |k: &str, v: String| {
            m.insert(k.to_string(), v);
        };
        put("v", p.version().as_u8().to_string());
        put("m", p.mode().to_bits().to_string());
        put("st", p.stratum().to_string());
        put("pl", p.poll().as_log().to_string());
        let kc = p.kiss_code();
        put("kc", (if kc.is_deny() { "deny" } else if kc.is_rate() { "rate" } else if kc.is_rstr() { "rstr" }
                   else if kc.is_ntsn() { "ntsn" } else { "other" }).to_string());
        put("rid", u32::from_be_bytes(p.reference_id().to_bytes()).to_string());
        let (rts, org, an) = match p.header {
            NtpHeader::V3(h) | NtpHeader::V4(h) => (h.reference_timestamp.to_bits(), h.origin_timestamp.to_bits(), false),
            NtpHeader::V5(h) => ([0u8; 8], h.client_cookie.0, h.flags.authnak),
        };
        put("rts", format!("{:016x}", u64::from_be_bytes(rts)));
        put("org", format!("{:016x}", u64::from_be_bytes(org)));
        put("an", (an as u8).to_string());
        put("ua", uids(&p.efdata.authenticated));
        put("ue", uids(&p.efdata.encrypted));
        put("uu", uids(&p.efdata.untrusted));
        put("ca", cookies(&p.efdata.authenticated));
        put("ce", cookies(&p.efdata.encrypted));
        put("cu", cookies(&p.efdata.untrusted));
        put("ra", has_rr(&p.efdata.authenticated));
        put("ru", has_rr(&p.efdata.untrusted));
        put("lp", (match p.leap() {
            NtpLeapIndicator::NoWarning => 0,
            NtpLeapIndicator::Leap61 => 1,
            NtpLeapIndicator::Leap59 => 2,
            NtpLeapIndicator::Unknown => 3,
            NtpLeapIndicator::Unsynchronized => 4,
        } as u8).to_string());
        put("pr", p.precision().to_string());
        put("rd", durkey(p.root_delay()));
        put("rdp", durkey(p.root_dispersion()));
        put("rx", format!("{:016x}", u64::from_be_bytes(p.receive_timestamp().to_bits())));
        put("tx", format!("{:016x}", u64::from_be_bytes(p.transmit_timestamp().to_bits())));
        m
    }
}

fn efs(desc: Option<&String>) -> Vec<ExtensionField<'static>> {
    let mut out = vec![];
    let Some(s) = desc else { return out };
    if s == "-" {
        return out;
    }
    for item in s.split(',') {
        let parts: Vec<&str> = item.split(':').collect();
        match parts.as_slice() {
            ["uid", h] => out.push(ExtensionField::UniqueIdentifier(unhex(h).into())),
            ["ck", h] => out.push(ExtensionField::NtsCookie(unhex(h).into())),
            ["ph", n] => out.push(ExtensionField::NtsCookiePlaceholder { cookie_length: n.parse().expect("ph") }),
            ["draft"] => out.push(ExtensionField::DraftIdentification(std::borrow::Cow::Borrowed(v5::DRAFT_VERSION))),
            ["baddraft"] => out.push(ExtensionField::DraftIdentification(std::borrow::Cow::Borrowed("draft-ietf-ntp-ntpv5-00"))),
            ["rr", h] => out.push(ExtensionField::ReferenceIdResponse(
                ReferenceIdResponse::new(&unhex(h)).expect("rr chunk").into_owned(),
            )),
            ["unk", t, h] => out.push(ExtensionField::Unknown {
                type_id: u16::from_str_radix(t, 16).expect("unk type"),
                data: unhex(h).into(),
            }),
            other => panic!("bad ef item {:?}", other),
        }
    }
    out
}

impl From<&BTreeMap<String, String>> for NtpPacket<'static> {
    fn from(d: &BTreeMap<String, String>) -> Self {
        let num = |k: &str, dflt: u64| -> u64 { d.get(k).map(|v| v.parse().expect("num")).unwrap_or(dflt) };
        let hx = |k: &str| -> [u8; 8] {
            u64::from_str_radix(d.get(k).map(|s| s.as_str()).unwrap_or("0"), 16).expect("hex64").to_be_bytes()
        };
        let version = num("v", 4);
        let leap = NtpLeapIndicator::from_bits(num("lp", 0) as u8 & 3);
        let stratum = num("st", 2) as u8;
        let poll = PollInterval::from_byte(num("pl", 6) as u8);
        let precision = num("pr", 0xe8) as u8 as i8;
        let rid = (num("rid", 0) as u32).to_be_bytes();
        let efdata = ExtensionFieldData {
            authenticated: efs(d.get("A")),
            encrypted: efs(d.get("E")),
            untrusted: efs(d.get("U")),
        };
        let header = if version == 5 {
            let mut server_cookie = [0x5a; 8];
            server_cookie[..4].copy_from_slice(&rid);
            NtpHeader::V5(v5::NtpHeaderV5 {
                leap,
                mode: if num("mode", 4) == 3 { v5::NtpMode::Request } else { v5::NtpMode::Response },
                stratum,
                poll,
                precision,
                timescale: v5::NtpTimescale::Utc,
                era: v5::NtpEra(0),
                flags: v5::NtpFlags {
                    synchronized: num("sync", 1) != 0,
                    interleaved_mode: false,
                    authnak: num("an", 0) != 0,
                },
                root_delay: NtpDuration::from_bits_time32((num("rd", 0x100) as u32).to_be_bytes()),
                root_dispersion: NtpDuration::from_bits_time32((num("rdp", 0x200) as u32).to_be_bytes()),
                server_cookie: v5::NtpServerCookie(server_cookie),
                client_cookie: v5::NtpClientCookie(hx("org")),
                receive_timestamp: NtpTimestamp::from_bits(hx("rx")),
                transmit_timestamp: NtpTimestamp::from_bits(hx("tx")),
            })
        } else {
            let h = NtpHeaderV3V4 {
                leap,
                mode: NtpAssociationMode::from_bits(num("mode", 4) as u8 & 7),
                stratum,
                poll,
                precision,
                root_delay: NtpDuration::from_bits_short((num("rd", 0x100) as u32).to_be_bytes()),
                root_dispersion: NtpDuration::from_bits_short((num("rdp", 0x200) as u32).to_be_bytes()),
                reference_id: ReferenceId::from_bytes(rid),
                reference_timestamp: NtpTimestamp::from_bits(hx("rts")),
                origin_timestamp: NtpTimestamp::from_bits(hx("org")),
                receive_timestamp: NtpTimestamp::from_bits(hx("rx")),
                transmit_timestamp: NtpTimestamp::from_bits(hx("tx")),
            };
            if version == 3 { NtpHeader::V3(h) } else { NtpHeader::V4(h) }
        };
        NtpPacket { header, efdata, mac: None }
    }
}
