//! verification harness module included into `ntp-proto/src/algorithm/kalman/select.rs` (guarded hook).
//! Grandchild of `algorithm::kalman::select`: calls the real `select` on generated `SourceSnapshot` lists.
//!
//! Streams (VERIF_STREAM), property C03:
//!   c03_select_grid  — 0..=12 candidates, offsets / uncertainties / delays on a power-of-two grid (exact
//!                      arithmetic, so touching and coincident interval bounds are frequent), radii around
//!                      `maximum_source_uncertainty`, periodic and unsynchronised members, minimum 1..=5
//!   c03_select_rand  — random finite doubles (rounded arithmetic)
//!   c03_select_edge  — the panic sites: negative delays / weights (End sorts before Start), `-0.0`, canonical
//!                      NaN members, infinite `maximum_source_uncertainty`; a panic is a modelled outcome here
//!
//! op line:  select min=<n> ws=<f64hex> wd=<f64hex> mu=<f64hex> c=<cand>,<cand>,…   (`c=-` = no candidate)
//!           cand = <offset hex>:<offset variance hex>:<delay hex>:<periodic 0|1>:<leap char>
//! observation: sel:<i>,<j>,…  (positions of the selected candidates, in output order; `sel:-` = empty) | panic
#![allow(clippy::all, clippy::pedantic)]

#[path = "../common/mod.rs"]
mod common;

use super::super::*;
use crate::algorithm::kalman::matrix::{Matrix, Vector};
use crate::algorithm::kalman::source::KalmanState;
use crate::packet::NtpLeapIndicator;
use crate::time_types::{NtpDuration, NtpTimestamp};
use crate::ClockId;
use common::{f64hex, f64unhex, Rng, Run};
use std::panic::{catch_unwind, AssertUnwindSafe};

fn leap_of_char(c: &str) -> Option<NtpLeapIndicator> {
    Some(match c {
        "n" => NtpLeapIndicator::NoWarning,
        "5" => NtpLeapIndicator::Leap59,
        "6" => NtpLeapIndicator::Leap61,
        "u" => NtpLeapIndicator::Unknown,
        "x" => NtpLeapIndicator::Unsynchronized,
        _ => return None,
    })
}

pub(super) fn snapshot(i: usize, offset: f64, var: f64, delay: f64, periodic: bool, leap: NtpLeapIndicator) -> SourceSnapshot {
    SourceSnapshot {
        index: ClockId(i as u64),
        state: KalmanState {
            state: Vector::new_vector([offset, 0.0]),
            uncertainty: Matrix::new([[var, 0.0], [0.0, 1e-12]]),
            time: NtpTimestamp::from_fixed_int(0),
        },
        wander: 1e-16,
        delay,
        period: if periodic { Some(1.0) } else { None },
        source_uncertainty: NtpDuration::from_seconds(0.001),
        source_delay: NtpDuration::from_seconds(0.01),
        leap_indicator: leap,
        last_update: NtpTimestamp::from_fixed_int(0),
    }
}

struct Parsed {
    min: usize,
    ws: f64,
    wd: f64,
    mu: f64,
    cands: Vec<SourceSnapshot>,
}

fn parse(w: &[&str]) -> Option<Parsed> {
    let min = common::kv(w, "min")?.parse().ok()?;
    let ws = f64unhex(common::kv(w, "ws")?)?;
    let wd = f64unhex(common::kv(w, "wd")?)?;
    let mu = f64unhex(common::kv(w, "mu")?)?;
    let c = common::kv(w, "c")?;
    let mut cands = vec![];
    if c != "-" {
        for (i, item) in c.split(',').enumerate() {
            let f: Vec<&str> = item.split(':').collect();
            if f.len() != 5 {
                return None;
            }
            cands.push(snapshot(
                i,
                f64unhex(f[0])?,
                f64unhex(f[1])?,
                f64unhex(f[2])?,
                f[3] == "1",
                leap_of_char(f[4])?,
            ));
        }
    }
    Some(Parsed { min, ws, wd, mu, cands })
}

fn cand_str(o: f64, v: f64, d: f64, p: bool, l: char) -> String {
    format!("{}:{}:{}:{}:{}", f64hex(o), f64hex(v), f64hex(d), if p { 1 } else { 0 }, l)
}

fn pick_leap(rng: &mut Rng, p_unsync: u64) -> char {
    if rng.below(100) < p_unsync {
        'x'
    } else {
        *rng.pick(&['n', 'n', 'n', '5', '6', 'u'])
    }
}

const G: f64 = 1.0 / 1024.0;


/// the "one wide + two disjoint narrow" family (seeded change C03-f): W = [c-rw, c+rw], N1 and N2 inside W and
/// disjoint from each other, so there are TWO regions of equal maximal overlap {W,N1} and {W,N2}; with
/// `aligned` the narrow ones share W's outer edges exactly (ties on the Start / End bounds).  Unit weights, zero
/// delay, so radius = sqrt(variance).  Candidate order is shuffled; sometimes a non-voting extra is appended.
fn disjoint_pair_family(rng: &mut Rng, c: f64, rw: f64, rn: f64, gap: f64, aligned: bool) -> Vec<String> {
    let d = if aligned { rw - rn } else { rn + gap };
    let mut cs = vec![
        cand_str(c, rw * rw, 0.0, false, 'n'),
        cand_str(c - d, rn * rn, 0.0, false, *rng.pick(&['n', '5'])),
        cand_str(c + d, rn * rn, 0.0, false, *rng.pick(&['n', 'u'])),
    ];
    match rng.below(4) {
        0 => cs.push(cand_str(c, rn * rn, 0.0, true, 'n')),  // periodic: not a voter
        1 => cs.push(cand_str(c, rn * rn, 0.0, false, 'x')), // unsynchronised: not a voter
        _ => {}
    }
    for i in (1..cs.len()).rev() {
        let j = rng.usize(0, i);
        cs.swap(i, j);
    }
    vec![format!(
        "select min={} ws={} wd={} mu={} c={}",
        rng.usize(1, 2),
        f64hex(1.0),
        f64hex(1.0),
        f64hex(4.0 * rw),
        cs.join(",")
    )]
}

fn gen_grid_case(rng: &mut Rng, idx: u64, _run: &Run) -> Vec<String> {
    if idx == 1 {
        // tie witness on the REAL code: F = [-5,0] touches the consensus region [0,10] of A, B, C from the left,
        // E = [10,15] from the right; both are selected although F and E share no point with each other
        let iv = |o: f64, r: f64| cand_str(o * G, r * G * r * G, 0.0, false, 'n');
        return vec![format!(
            "select min=1 ws={} wd={} mu={} c={},{},{},{},{}",
            f64hex(1.0), f64hex(1.0), f64hex(16.0 * G),
            iv(-2.5, 2.5), iv(5.0, 5.0), iv(5.0, 5.0), iv(5.0, 5.0), iv(12.5, 2.5)
        )];
    }
    if idx % 16 == 5 {
        // fixed 1/16 share: one wide + two disjoint narrow, on the grid
        let rw = (rng.usize(4, 8) as f64) * G;
        let rn = (rng.usize(1, 2) as f64) * G * 0.5;
        let c = (rng.range(-8, 8) as f64) * G;
        let aligned = rng.chance(1, 2);
        return disjoint_pair_family(rng, c, rw, rn, G * 0.5, aligned);
    }
    let n = match rng.below(12) {
        0 => 0,
        1 => 1,
        2 => 2,
        _ => rng.usize(2, 12),
    };
    let min = rng.usize(1, 5);
    let ws = *rng.pick(&[1.0, 2.0, 0.5, 1.0]);
    let wd = *rng.pick(&[1.0, 0.5, 0.0, 1.0]);
    let mu = (rng.usize(1, 8) as f64) * G * *rng.pick(&[1.0, 1.0, 0.5, 2.0]);
    let spread = *rng.pick(&[2i64, 4, 8, 16]);
    let p_periodic = *rng.pick(&[0u64, 10, 30]);
    let p_unsync = *rng.pick(&[0u64, 10, 30]);
    let mut cs = vec![];
    for _ in 0..n {
        let o = (rng.range(-spread, spread) as f64) * G;
        let u = (rng.usize(0, 5) as f64) * G;
        let d = (rng.usize(0, 4) as f64) * G;
        cs.push(cand_str(o, u * u, d, rng.below(100) < p_periodic, pick_leap(rng, p_unsync)));
    }
    vec![format!(
        "select min={} ws={} wd={} mu={} c={}",
        min,
        f64hex(ws),
        f64hex(wd),
        f64hex(mu),
        if cs.is_empty() { "-".to_string() } else { cs.join(",") }
    )]
}

fn gen_rand_case(rng: &mut Rng, idx: u64, _run: &Run) -> Vec<String> {
    if idx % 16 == 5 {
        // fixed 1/16 share: one wide + two disjoint narrow, random doubles
        let rw = 0.02 + 0.05 * rng.f64_unit();
        let rn = rw * (0.1 + 0.2 * rng.f64_unit());
        let c = 10.0 * (rng.f64_unit() - 0.5);
        let gap = rw * 0.1 * rng.f64_unit();
        return disjoint_pair_family(rng, c, rw, rn, gap, false);
    }
    let n = rng.usize(1, 12);
    let min = rng.usize(1, 4);
    let ws = 0.5 + 2.5 * rng.f64_unit();
    let wd = rng.f64_unit();
    let mu = 0.05 + 0.3 * rng.f64_unit();
    let centre = 10.0 * (rng.f64_unit() - 0.5);
    let mut cs = vec![];
    for _ in 0..n {
        let outlier = rng.chance(1, 4);
        let o = centre + if outlier { 2.0 * (rng.f64_unit() - 0.5) } else { 0.05 * (rng.f64_unit() - 0.5) };
        let u = 0.1 * rng.f64_unit();
        let d = 0.1 * rng.f64_unit();
        cs.push(cand_str(o, u * u, d, rng.chance(1, 10), pick_leap(rng, 8)));
    }
    vec![format!("select min={} ws={} wd={} mu={} c={}", min, f64hex(ws), f64hex(wd), f64hex(mu), cs.join(","))]
}

fn gen_edge_case(rng: &mut Rng, idx: u64, _run: &Run) -> Vec<String> {
    // fixed witnesses first
    let nz = -0.0f64;
    match idx {
        // offset = -0.0, variance = -0.0, delay = -0.0: radius = -0.0, lo = +0.0, hi = -0.0: the End bound sorts
        // (total_cmp) before the Start bound and `cur -= 1` underflows
        0 => {
            return vec![format!(
                "select min=1 ws={} wd={} mu={} c={}",
                f64hex(1.0), f64hex(1.0), f64hex(1.0), cand_str(nz, nz, nz, false, 'n')
            )]
        }
        // negative delay: inverted interval between two proper ones
        1 => {
            return vec![format!(
                "select min=1 ws={} wd={} mu={} c={},{},{}",
                f64hex(1.0), f64hex(1.0), f64hex(1.0),
                cand_str(3.0 * G, 0.0, -2.0 * G, false, 'n'),
                cand_str(0.0, 25.0 * G * G, 0.0, false, 'n'),
                cand_str(0.0, 25.0 * G * G, 0.0, false, 'n')
            )]
        }
        _ => {}
    }
    let n = rng.usize(1, 6);
    let min = rng.usize(1, 3);
    let kind = rng.below(6);
    let ws = if kind == 0 { -1.0 } else { 1.0 };
    let wd = if kind == 1 { -1.0 } else { 1.0 };
    let mu = match kind {
        2 => f64::INFINITY,
        3 => f64::NAN,
        _ => 8.0 * G,
    };
    let mut cs = vec![];
    for _ in 0..n {
        let o = if rng.chance(1, 6) { nz } else { (rng.range(-4, 4) as f64) * G };
        let u = if rng.chance(1, 6) { nz } else { (rng.usize(0, 3) as f64) * G };
        let mut d = (rng.range(if kind == 4 { -3 } else { 0 }, 3) as f64) * G;
        if rng.chance(1, 6) {
            d = nz;
        }
        let mut v = u * u;
        if u == 0.0 && u.is_sign_negative() {
            v = nz;
        }
        let mut o = o;
        if kind == 5 {
            // canonical (positive, quiet) NaN members only: the sign of a NaN produced by an invalid operation
            // is platform specific and outside the model
            match rng.below(4) {
                0 => o = f64::from_bits(0x7ff8000000000000),
                1 => v = f64::from_bits(0x7ff8000000000000),
                2 => d = f64::from_bits(0x7ff8000000000000),
                _ => {}
            }
        }
        cs.push(cand_str(o, v, d, rng.chance(1, 10), pick_leap(rng, 5)));
    }
    vec![format!("select min={} ws={} wd={} mu={} c={}", min, f64hex(ws), f64hex(wd), f64hex(mu), cs.join(","))]
}

fn exec_case(ops: &[String], run: &mut Run) {
    for op in ops {
        run.begin_op(op);
        let w: Vec<&str> = op.split_whitespace().collect();
        if w.first() != Some(&"select") {
            run.end_op("bad-op");
            continue;
        }
        let Some(p) = parse(&w[1..]) else {
            run.end_op("bad-op");
            continue;
        };
        let sync = SynchronizationConfig {
            minimum_agreeing_sources: p.min,
            ..SynchronizationConfig::default()
        };
        let algo = AlgorithmConfig {
            maximum_source_uncertainty: p.mu,
            range_statistical_weight: p.ws,
            range_delay_weight: p.wd,
            ..AlgorithmConfig::default()
        };
        // the quantities the property talks about, computed here (oracle side)
        let radius = |s: &SourceSnapshot| s.offset_uncertainty() * p.ws + s.delay * p.wd;
        let lo = |s: &SourceSnapshot| s.offset() - radius(s);
        let hi = |s: &SourceSnapshot| s.offset() + radius(s);
        let voters: Vec<&SourceSnapshot> = p
            .cands
            .iter()
            .filter(|s| s.period.is_none() && s.leap_indicator.is_synchronized() && radius(s) <= p.mu)
            .collect();
        let well_formed = p
            .cands
            .iter()
            .all(|s| !radius(s).is_nan() && !s.offset().is_nan() && lo(s).total_cmp(&hi(s)).is_le())
            && !p.mu.is_nan();

        let r = catch_unwind(AssertUnwindSafe(|| select(&sync, &algo, &p.cands)));
        match r {
            Err(_) => {
                run.hit("panic");
                if well_formed {
                    run.oracle_fail(
                        "panic",
                        "wellformed=1",
                        &format!("select panicked although every interval has lo <= hi and nothing is NaN: {}", common::last_panic()),
                    );
                }
                run.end_op("panic");
            }
            Ok(out) => {
                let ids: Vec<u64> = out.iter().map(|s| s.index.0).collect();
                // members: synchronised, acceptable uncertainty, drawn from the candidates
                for s in &out {
                    if !s.leap_indicator.is_synchronized() {
                        run.oracle_fail("member_unsynchronised", "", &format!("candidate {} selected", s.index.0));
                    }
                    if !(radius(s) <= p.mu) {
                        run.oracle_fail("member_too_uncertain", "", &format!("candidate {} selected with radius {} > {}", s.index.0, radius(s), p.mu));
                    }
                    if s.index.0 as usize >= p.cands.len() {
                        run.oracle_fail("member_not_candidate", "", &format!("candidate {} selected", s.index.0));
                    }
                }
                if !out.is_empty() {
                    // a common point shared by >= min voters that are a strict majority of all voters
                    let mut best = 0usize;
                    for v in &voters {
                        let x = lo(v);
                        let k = voters.iter().filter(|c| lo(c) <= x && x <= hi(c)).count();
                        best = best.max(k);
                    }
                    if best < p.min || 2 * best <= voters.len() {
                        run.oracle_fail(
                            "no_majority_consensus",
                            &format!("best={} voters={} min={}", best, voters.len(), p.min),
                            &format!("selection {:?} although at most {} of {} voters share a point (minimum {})", ids, best, voters.len(), p.min),
                        );
                    }
                    // "agreeing ⊆ output": some point whose containing voters are >= min, a strict majority, and
                    // ALL selected (the sources that form the consensus must be the ones that are used)
                    if well_formed {
                        let mut found = false;
                        for v in &voters {
                            let x = lo(v);
                            let agreeing: Vec<u64> =
                                voters.iter().filter(|c| lo(c) <= x && x <= hi(c)).map(|c| c.index.0).collect();
                            if agreeing.len() >= p.min
                                && 2 * agreeing.len() > voters.len()
                                && agreeing.iter().all(|i| ids.contains(i))
                            {
                                found = true;
                                break;
                            }
                        }
                        if !found {
                            run.oracle_fail(
                                "agreeing_not_selected",
                                &format!("voters={} min={}", voters.len(), p.min),
                                &format!("selection {:?}: no common point whose agreeing voters are a sufficient majority and all selected", ids),
                            );
                        }
                        run.hit("agreeing-checked");
                    }
                    // c03_selected_share_point: the selected sources must hang together through ONE common region.
                    // Evaluated with the code's own comparisons (IEEE <=, closed intervals, so touching counts): there
                    // must be a region [a,b], a = some voter's lower bound <= b = some voter's upper bound, such that
                    // (1) the voters covering all of [a,b] are >= minimum, a strict majority of all voters, and all
                    // selected, and (2) EVERY selected source's interval meets [a,b].  (Two selected sources that each
                    // only touch opposite ends of the region need not meet each other: see grid case 1.)
                    if well_formed {
                        let sel: Vec<&SourceSnapshot> = p.cands.iter().filter(|c| ids.contains(&c.index.0)).collect();
                        let mut found = false;
                        'outer: for va in &voters {
                            let a = lo(va);
                            for vb in &voters {
                                let b = hi(vb);
                                if !(a <= b) {
                                    continue;
                                }
                                let core: Vec<u64> = voters.iter().filter(|c| lo(c) <= a && hi(c) >= b).map(|c| c.index.0).collect();
                                if core.len() >= p.min
                                    && 2 * core.len() > voters.len()
                                    && core.iter().all(|i| ids.contains(i))
                                    && sel.iter().all(|c| lo(c) <= b && hi(c) >= a)
                                {
                                    found = true;
                                    break 'outer;
                                }
                            }
                        }
                        if !found {
                            run.oracle_fail(
                                "c03_selected_share_point",
                                &format!("selected={} voters={} min={}", ids.len(), voters.len(), p.min),
                                &format!("selection {:?}: no region shared by a sufficient majority of the voters that every selected source's interval meets (intervals {:?})",
                                    ids, sel.iter().map(|c| (c.index.0, lo(c), hi(c))).collect::<Vec<_>>()),
                            );
                        }
                        // informational: do ALL selected intervals share one point?  (not required: ties)
                        let max_lo = sel.iter().map(|c| lo(c)).fold(f64::NEG_INFINITY, f64::max);
                        let min_hi = sel.iter().map(|c| hi(c)).fold(f64::INFINITY, f64::min);
                        run.hit(if max_lo <= min_hi { "selected-common-point" } else { "selected-touching-chain" });
                    }
                    run.hit(if out.len() == p.cands.len() { "selected-all" } else { "selected-some" });
                    run.nontrivial(op);
                } else {
                    run.hit("selected-none");
                }
                run.end_op(&format!("sel:{}", common::comma_list(&ids)));
            }
        }
    }
}

#[test]
fn entry() {
    let stream = std::env::var("VERIF_STREAM").unwrap_or_default();
    match stream.as_str() {
        "c03_select_grid" => common::drive(
            "c03_select_grid",
            "select on 0..=12 snapshots on a 2^-10 grid (exact arithmetic: touching/coincident bounds, radius == maximum), periodic/unsynchronised members, minimum 1..=5; non-trivial = non-empty selection; distinct by op line",
            gen_grid_case,
            exec_case,
        ),
        "c03_select_rand" => common::drive(
            "c03_select_rand",
            "select on 1..=12 snapshots with random finite doubles (cluster + outliers); non-trivial = non-empty selection",
            gen_rand_case,
            exec_case,
        ),
        "c03_select_edge" => common::drive(
            "c03_select_edge",
            "panic sites of select: negative weights/delays (inverted intervals), -0.0, canonical NaN members, infinite/NaN maximum; panic is a modelled outcome; non-trivial = non-empty selection",
            gen_edge_case,
            exec_case,
        ),
        other => panic!("unknown VERIF_STREAM {:?}", other),
    }
}
