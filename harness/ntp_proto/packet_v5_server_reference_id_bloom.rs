//! C34 harness (cluster `filt`), included into `ntp-proto/src/packet/v5/server_reference_id.rs`.
//! Grandchild of that module: sees `U12`, `ServerId.0`, `BloomFilter.0`, `RemoteBloomFilter`'s fields.
//!
//! Streams (VERIF_STREAM):
//!   c34_remote — `RemoteBloomFilter` scripts against a fixed server filter F: next_request, then answers
//!                of kind match (through the real wire functions: request serialize → decode →
//!                to_response(F) → response serialize → decode), stale, wrong cookie, wrong length,
//!                garbage, duplicate, liar (right cookie and length, wrong bytes; such cases are flagged
//!                dishonest and excluded from the full==F oracle clause only); full_filter; plus server-side
//!                `to_response` / `ReferenceIdRequest::new` / `decode` on arbitrary (len, offset).  The server's
//!                filter may change BETWEEN complete rounds (`server filter=`; a third of the cases are two or
//!                three complete rounds with bits cleared / set / replaced in between); after every completed
//!                honest round the oracle requires full_filter == the server's filter (clause full_means_equal,
//!                attribute round=n).
//!   c34_bloom  — `BloomFilter` set operations (add_id, contains_id, add, union, count_ones) on 4 filters.
//!   c34_sizes  — EXHAUSTIVE: `RemoteBloomFilter::new(c)` for every u16 `c` (case i covers 64 values).
#![allow(clippy::all, clippy::pedantic)]

#[path = "../common/mod.rs"]
mod common;

use super::super::*;
use common::{hex, kv, unhex, Rng, Run};
use std::panic::{catch_unwind, AssertUnwindSafe};

const VALID: [u16; 8] = [4, 8, 16, 32, 64, 128, 256, 512];

fn filter_from(bytes: &[u8]) -> BloomFilter {
    let mut f = BloomFilter::new();
    f.0.copy_from_slice(bytes);
    f
}

fn gen_filter(rng: &mut Rng) -> Vec<u8> {
    match rng.below(4) {
        0 => (0..512).map(|i| (i * 7 + 1) as u8).collect(),
        1 => {
            // a realistic filter: a few server ids
            let mut f = BloomFilter::new();
            for _ in 0..rng.usize(1, 6) {
                let mut id = [U12(0); 10];
                for x in id.iter_mut() {
                    *x = U12(rng.below(4096) as u16);
                }
                f.add_id(&ServerId(id));
            }
            f.0.to_vec()
        }
        _ => rng.bytes(512),
    }
}

// ------------------------------------------------------------------------------------ c34_remote

/// the server's next filter: bits cleared (an upstream id disappeared), bits set, both, replaced, same
fn mutate_filter(rng: &mut Rng, cur: &[u8]) -> Vec<u8> {
    let mut f = cur.to_vec();
    match rng.below(6) {
        0 | 1 => {
            for b in f.iter_mut() {
                *b &= rng.next_u64() as u8 | rng.next_u64() as u8; // clears about a quarter of the bits
            }
        }
        2 => {
            // clear one set bit
            let set: Vec<usize> = (0..4096).filter(|i| f[i / 8] & (1 << (i % 8)) != 0).collect();
            if !set.is_empty() {
                let i = *rng.pick(&set);
                f[i / 8] &= !(1 << (i % 8));
            }
        }
        3 => {
            for b in f.iter_mut() {
                *b |= rng.next_u64() as u8 & rng.next_u64() as u8;
            }
        }
        4 => f = rng.bytes(512),
        _ => {}
    }
    f
}

fn gen_remote_case(rng: &mut Rng, idx: u64, _run: &Run) -> Vec<String> {
    let chunk: u16 = if idx % 10 == 9 {
        *rng.pick(&[0u16, 1, 2, 3, 5, 6, 12, 20, 24, 48, 96, 100, 255, 257, 384, 508, 516, 1024, 65532])
    } else {
        VALID[(idx % 8) as usize]
    };
    let mut ops = vec![format!("cfg chunk={} filter={}", chunk, hex(&gen_filter(rng)))];
    let rounds = 512 / (chunk.max(1) as usize).min(512);
    // enough ops to finish at least one round for most cases; up to ~400
    let n = if rng.chance(1, 3) { rng.usize(0, 30) } else { (rounds * rng.usize(1, 3) + rng.usize(0, 10)).min(400) };
    let dishonest = rng.chance(1, 8);
    if idx % 3 == 1 && VALID.contains(&chunk) {
        // complete rounds with a change of the server's filter BETWEEN them (bits cleared, set, replaced)
        let mut cur = unhex(ops[0].rsplit("filter=").next().unwrap()).unwrap();
        let nrounds = rng.usize(2, 3);
        for round in 0..nrounds {
            for _ in 0..rounds {
                ops.push("next".to_string());
                if rng.chance(1, 6) {
                    // answers that must not be accepted, and queries, in the middle of a round
                    ops.push(
                        rng.pick(&["answer kind=stale", "answer kind=wrongcookie", "answer kind=wronglen", "answer kind=garbage", "full", "srv len=8 off=16"])
                            .to_string(),
                    );
                }
                if rng.chance(1, 40) {
                    // a change attempted DURING a round is not applied (outside the stated assumption)
                    ops.push(format!("server filter={}", hex(&mutate_filter(rng, &cur))));
                }
                ops.push("answer kind=match".to_string());
            }
            ops.push("full".to_string());
            if round + 1 < nrounds {
                cur = mutate_filter(rng, &cur);
                ops.push(format!("server filter={}", hex(&cur)));
            }
        }
        return ops;
    }
    for _ in 0..n {
        let r = rng.below(100);
        if r < 2 {
            // applied only if the client is between rounds
            ops.push(format!("server filter={}", hex(&gen_filter(rng))));
        } else if r < 38 {
            ops.push("next".to_string());
            // usually answered right away
            if rng.chance(3, 4) {
                ops.push("answer kind=match".to_string());
            }
        } else if r < 50 {
            ops.push("answer kind=match".to_string());
        } else if r < 58 {
            ops.push("answer kind=stale".to_string());
        } else if r < 64 {
            ops.push("answer kind=wrongcookie".to_string());
        } else if r < 72 {
            ops.push("answer kind=wronglen".to_string());
        } else if r < 77 {
            ops.push("answer kind=garbage".to_string());
        } else if r < 80 && dishonest {
            ops.push("answer kind=liar".to_string());
        } else if r < 88 {
            ops.push("full".to_string());
        } else if r < 94 {
            let (len, off) = match rng.below(6) {
                0 => (chunk as usize, rng.usize(0, 520)),
                1 => (rng.usize(2, 520), rng.usize(0, 520)),
                2 => (512, 0),
                3 => (4, 508 + rng.usize(0, 5)),
                4 => (rng.usize(2, 12), 512 - rng.usize(0, 12)),
                _ => (rng.usize(2, 600), rng.usize(0, 65535)),
            };
            ops.push(format!("srv len={} off={}", len, off));
        } else if r < 97 {
            let (len, off) = match rng.below(5) {
                0 => (rng.usize(0, 520), rng.usize(0, 520)),
                1 => (4 * rng.usize(0, 130), rng.usize(0, 520)),
                2 => (4 * rng.usize(0, 128), 512 - 4 * rng.usize(0, 128)),
                3 => (65532, rng.usize(0, 8)),
                _ => (4 * rng.usize(0, 16383), rng.usize(0, 65535)),
            };
            ops.push(format!("mkreq len={} off={}", len, off));
        } else {
            let l = *rng.pick(&[0usize, 1, 2, 3, 4, 5, 16]);
            ops.push(format!("dec bytes={}", hex(&rng.bytes(l))));
        }
    }
    ops.push("full".to_string());
    ops
}

fn exec_remote_case(ops: &[String], run: &mut Run) {
    let mut f_bytes = vec![0u8; 512];
    let mut server = BloomFilter::new();
    let mut remote: Option<RemoteBloomFilter> = None;
    let mut chunk: usize = 0;
    // oracle state (the property evaluated directly)
    let mut outstanding: Option<(u16, [u8; 8])> = None;
    let mut previous: Option<(u16, [u8; 8])> = None;
    let mut accepted: usize = 0;
    // per round: were all accepted chunks the server's bytes?  and what the client must hold after the
    // last completed round (None: unknown, a lying answer was accepted in it)
    let mut round_honest = true;
    let mut expected_full: Option<Vec<u8>> = None;
    let mut rounds_done: usize = 0;
    let mut cookie_ctr: u64 = 0;
    let mut key = String::new();
    let mut rng = Rng::new(0x5eed ^ ops.len() as u64);
    for op in ops {
        run.begin_op(op);
        let w: Vec<&str> = op.split_whitespace().collect();
        match w.first().copied() {
            Some("cfg") => {
                let c: u16 = kv(&w, "chunk").and_then(|s| s.parse().ok()).expect("chunk");
                f_bytes = unhex(kv(&w, "filter").expect("filter")).expect("hex");
                server = filter_from(&f_bytes);
                remote = RemoteBloomFilter::new(c);
                chunk = c as usize;
                let valid = VALID.contains(&c);
                if remote.is_some() != valid {
                    run.oracle_fail("valid_chunk_sizes", "", &format!("new({}) -> {}", c, remote.is_some()));
                }
                key.push_str(&format!("c{};", c));
                run.end_op(if remote.is_some() { "some" } else { "none" });
            }
            Some("next") => {
                let Some(r) = remote.as_mut() else {
                    run.end_op("no-filter");
                    continue;
                };
                // cookie: from the op line on replay, else a fresh unique one
                let cookie: [u8; 8] = match kv(&w, "cookie") {
                    Some(h) => unhex(h).expect("hex").try_into().expect("8 bytes"),
                    None => {
                        cookie_ctr += 1;
                        (0xC0_0000_0000_0000u64 + cookie_ctr).to_be_bytes()
                    }
                };
                let req = r.next_request(NtpClientCookie(cookie));
                // through the wire: serialize, cut the 4-byte field header, decode
                let mut buf = vec![];
                req.serialize(&mut buf).expect("serialize");
                let dec = ReferenceIdRequest::decode(&buf[4..]).expect("decode");
                if dec != req || buf.len() != 4 + req.payload_len() as usize {
                    run.oracle_fail("request_wire_roundtrip", "", &format!("{:?} became {:?} ({} bytes)", req, dec, buf.len()));
                }
                if req.payload_len() as usize != chunk || req.offset() as usize + chunk > 512 || req.offset() as usize % chunk != 0 {
                    run.oracle_fail("request_in_range", "", &format!("chunk {} request {:?}", chunk, req));
                }
                if outstanding.is_some() {
                    previous = outstanding;
                }
                outstanding = Some((req.offset(), cookie));
                key.push('n');
                run.hit("next");
                run.end_op_as(&format!("next cookie={}", hex(&cookie)), &format!("req len={} off={}", dec.payload_len(), dec.offset()));
            }
            Some("answer") | Some("resp") => {
                let Some(r) = remote.as_mut() else {
                    run.end_op("no-filter");
                    continue;
                };
                let (cookie, bytes, kind): ([u8; 8], Vec<u8>, String) = if w[0] == "resp" {
                    (
                        unhex(kv(&w, "cookie").expect("cookie")).expect("hex").try_into().expect("8 bytes"),
                        unhex(kv(&w, "bytes").expect("bytes")).expect("hex"),
                        "replayed".to_string(),
                    )
                } else {
                    let kind = kv(&w, "kind").expect("kind");
                    let cur = outstanding.or(previous).unwrap_or((0, [0xAA; 8]));
                    // the server's answer to a request (len = chunk, off), through the wire functions
                    let mut serve = |off: u16| -> Vec<u8> {
                        let Some(rq) = ReferenceIdRequest::new(chunk as u16, off) else { return vec![] };
                        let mut buf = vec![];
                        rq.serialize(&mut buf).expect("serialize");
                        let dec = ReferenceIdRequest::decode(&buf[4..]).expect("decode");
                        let Some(resp) = dec.to_response(&server) else { return vec![] };
                        let mut out = vec![];
                        resp.serialize(&mut out).expect("serialize");
                        let l = u16::from_be_bytes([out[2], out[3]]) as usize;
                        ReferenceIdResponse::decode(&out[4..l]).bytes().to_vec()
                    };
                    match kind {
                        "match" => (cur.1, serve(cur.0), kind.to_string()),
                        "stale" => {
                            let p = previous.unwrap_or((0, [0xBB; 8]));
                            (p.1, serve(p.0), kind.to_string())
                        }
                        "wrongcookie" => {
                            let mut c = cur.1;
                            c[rng.usize(0, 7)] ^= 1 << rng.below(8);
                            (c, serve(cur.0), kind.to_string())
                        }
                        "wronglen" => {
                            let mut b = serve(cur.0);
                            match rng.below(4) {
                                0 => b.truncate(b.len().saturating_sub(4)),
                                1 => b.extend_from_slice(&[0; 4]),
                                2 => b.clear(),
                                _ => b.truncate(b.len() / 2),
                            }
                            (cur.1, b, kind.to_string())
                        }
                        "liar" => {
                            let mut b = serve(cur.0);
                            if !b.is_empty() {
                                let i = rng.usize(0, b.len() - 1);
                                b[i] ^= 0x10;
                            }
                            (cur.1, b, kind.to_string())
                        }
                        _ => {
                            let l = rng.usize(0, 40);
                            (rng.bytes(8).try_into().unwrap(), rng.bytes(l), "garbage".to_string())
                        }
                    }
                };
                let resp = ReferenceIdResponse::decode(&bytes);
                let result = r.handle_response(NtpClientCookie(cookie), &resp);
                // oracle: accepted exactly for the outstanding request's cookie and the requested size
                let should_accept = matches!(outstanding, Some((_, c)) if c == cookie) && bytes.len() == chunk;
                if result.is_ok() != should_accept {
                    run.oracle_fail(
                        "client_accepts_only_current",
                        "",
                        &format!("kind {} cookie {} len {} -> {:?}; outstanding {:?} chunk {}", kind, hex(&cookie), bytes.len(), result, outstanding, chunk),
                    );
                }
                if result.is_ok() {
                    let off = outstanding.map(|o| o.0 as usize).unwrap_or(0);
                    if off + chunk <= 512 && bytes[..] != f_bytes[off..off + chunk] {
                        round_honest = false; // the answer accepted for this request is not the server's
                    }
                    accepted += 1;
                    if r.next_to_request == 0 {
                        // a round is complete: the client must now hold exactly the server's filter (the
                        // server's filter is constant within a round: `server` ops apply only between rounds)
                        rounds_done += 1;
                        if round_honest {
                            let got = r.full_filter().map(|f| f.as_bytes().to_vec());
                            if got.as_deref() != Some(&f_bytes[..]) {
                                let diff = got.as_ref().map(|g| g.iter().zip(f_bytes.iter()).filter(|(a, b)| a != b).count());
                                run.oracle_fail(
                                    "full_means_equal",
                                    &format!("round={}", rounds_done),
                                    &format!("after completed round {} (chunk {}) full_filter differs from the server's filter in {:?} bytes", rounds_done, chunk, diff),
                                );
                            }
                            run.hit(if rounds_done == 1 { "round-1-complete" } else { "later-round-complete" });
                        }
                        expected_full = if round_honest { Some(f_bytes.clone()) } else { None };
                        round_honest = true;
                    }
                    previous = outstanding;
                    outstanding = None;
                    key.push('A');
                } else {
                    key.push('r');
                }
                let obs = match result {
                    Ok(()) => "ok".to_string(),
                    Err(e) => format!("err:{:?}", e),
                };
                run.hit(&format!("{}:{}", kind, obs));
                run.end_op_as(&format!("resp cookie={} bytes={}", hex(&cookie), hex(&bytes)), &obs);
            }
            Some("full") => {
                let Some(r) = remote.as_ref() else {
                    run.end_op("no-filter");
                    continue;
                };
                let full = r.full_filter().map(|f| f.as_bytes().to_vec());
                let rounds = 512 / chunk.max(1);
                match &full {
                    Some(g) => {
                        if r.next_to_request == 0 {
                            if let Some(e) = &expected_full {
                                if g[..] != e[..] {
                                    run.oracle_fail(
                                        "full_means_equal",
                                        &format!("round={}", rounds_done),
                                        &format!("full filter at a round boundary differs from the server's filter as of completed round {} (chunk {})", rounds_done, chunk),
                                    );
                                }
                            }
                        }
                        if accepted < rounds {
                            run.oracle_fail("full_means_equal", "", &format!("full after only {} of {} chunks", accepted, rounds));
                        }
                        key.push('F');
                        run.hit("full-some");
                    }
                    None => {
                        if accepted >= rounds {
                            run.oracle_fail("full_after_all_chunks", "", &format!("{} answers accepted (chunk {}) but filter not full", accepted, chunk));
                        }
                        key.push('f');
                        run.hit("full-none");
                    }
                }
                run.end_op(&match full {
                    Some(g) => format!("some {}", hex(&g)),
                    None => "none".to_string(),
                });
            }
            Some("server") => {
                // the server's filter changes — only BETWEEN complete rounds (never during one: that is the
                // stated assumption of C34); otherwise the op is skipped on both sides
                let between = remote.as_ref().map_or(true, |r| r.next_to_request == 0);
                if between {
                    f_bytes = unhex(kv(&w, "filter").expect("filter")).expect("hex");
                    server = filter_from(&f_bytes);
                    key.push('S');
                    run.hit("server-change");
                    run.end_op("ok");
                } else {
                    run.hit("server-change-skipped");
                    run.end_op("skip");
                }
            }
            Some("srv") => {
                let len: usize = kv(&w, "len").and_then(|s| s.parse().ok()).expect("len");
                let off: u16 = kv(&w, "off").and_then(|s| s.parse().ok()).expect("off");
                // a request as the server decodes it from the wire: `len` payload bytes starting with the offset
                let mut payload = vec![0u8; len.max(2)];
                payload[..2].copy_from_slice(&off.to_be_bytes());
                let req = ReferenceIdRequest::decode(&payload).expect("decode");
                let got = req.to_response(&server).map(|r| r.bytes().to_vec());
                let l = payload.len();
                let want = if off as usize + l <= 512 { Some(f_bytes[off as usize..off as usize + l].to_vec()) } else { None };
                if got != want {
                    run.oracle_fail("server_chunk", "", &format!("request len {} off {}: answered {:?}", l, off, got.as_ref().map(|b| hex(b))));
                }
                run.hit(if got.is_some() { "srv-some" } else { "srv-none" });
                run.end_op_as(&format!("srv len={} off={}", l, off), &match got {
                    Some(b) => format!("some {}", hex(&b)),
                    None => "none".to_string(),
                });
            }
            Some("mkreq") => {
                let len: u16 = kv(&w, "len").and_then(|s| s.parse().ok()).expect("len");
                let off: u16 = kv(&w, "off").and_then(|s| s.parse().ok()).expect("off");
                let r = catch_unwind(AssertUnwindSafe(|| ReferenceIdRequest::new(len, off)));
                let obs = match r {
                    Ok(Some(_)) => "some",
                    Ok(None) => "none",
                    Err(_) => "panic",
                };
                run.hit(&format!("mkreq-{}", obs));
                run.end_op(obs);
            }
            Some("dec") => {
                let b = unhex(kv(&w, "bytes").expect("bytes")).expect("hex");
                let obs = match ReferenceIdRequest::decode(&b) {
                    Ok(r) => format!("req len={} off={}", r.payload_len(), r.offset()),
                    Err(_) => "err:IncorrectLength".to_string(),
                };
                run.end_op(&obs);
            }
            _ => run.end_op("bad-op"),
        }
    }
    if accepted > 0 {
        run.nontrivial(&key);
    }
}

// ------------------------------------------------------------------------------------ c34_bloom

fn gen_id(rng: &mut Rng, pool: &mut Vec<Vec<u16>>) -> Vec<u16> {
    if !pool.is_empty() && rng.chance(1, 2) {
        return rng.pick(pool).clone();
    }
    let mut id: Vec<u16> = match rng.below(5) {
        // as `ServerId::new`: ten distinct sorted values
        0 | 1 => {
            let mut v: Vec<u16> = vec![];
            while v.len() < 10 {
                let x = rng.below(4096) as u16;
                if !v.contains(&x) {
                    v.push(x);
                }
            }
            v.sort();
            v
        }
        // clustered in few bytes (shared bytes, different bits)
        2 => (0..10).map(|_| (rng.below(4) * 8 + rng.below(8)) as u16).collect(),
        // corners
        3 => vec![0, 1, 7, 8, 4095, 4088, 4087, 2048, 2047, 9],
        _ => (0..10).map(|_| rng.below(4096) as u16).collect(),
    };
    if rng.chance(1, 6) {
        // near miss of a pooled id
        if let Some(p) = pool.first() {
            id = p.clone();
            let i = rng.usize(0, 9);
            id[i] ^= 1;
        }
    }
    pool.push(id.clone());
    id
}

fn gen_bloom_case(rng: &mut Rng, _idx: u64, _run: &Run) -> Vec<String> {
    let mut ops = vec![];
    let mut pool: Vec<Vec<u16>> = vec![];
    let n = rng.usize(3, 40);
    for _ in 0..n {
        let r = rng.below(100);
        if r < 35 {
            let id = gen_id(rng, &mut pool);
            ops.push(format!("addid f={} id={}", rng.below(4), common::comma_list(&id)));
        } else if r < 65 {
            let id = gen_id(rng, &mut pool);
            ops.push(format!("contains f={} id={}", rng.below(4), common::comma_list(&id)));
        } else if r < 78 {
            ops.push(format!("add f={} g={}", rng.below(4), rng.below(4)));
        } else if r < 88 {
            let k = rng.usize(0, 4);
            let of: Vec<u64> = (0..k).map(|_| rng.below(4)).collect();
            ops.push(format!("union into={} of={}", rng.below(4), common::comma_list(&of)));
        } else {
            ops.push(format!("dump f={}", rng.below(4)));
        }
    }
    ops.push(format!("dump f={}", rng.below(4)));
    ops
}

fn parse_id(s: &str) -> ServerId {
    let v: Vec<u16> = s.split(',').map(|x| x.parse().expect("u12")).collect();
    let mut id = [U12(0); 10];
    for (i, x) in v.iter().enumerate().take(10) {
        id[i] = U12::try_from(*x).expect("u12 range");
    }
    ServerId(id)
}

fn exec_bloom_case(ops: &[String], run: &mut Run) {
    let mut fs = [BloomFilter::new(); 4];
    // oracle: the ids added to each filter (directly, or inherited through add / union)
    let mut members: [Vec<String>; 4] = Default::default();
    let mut key = String::new();
    let mut positives = 0;
    for op in ops {
        run.begin_op(op);
        let w: Vec<&str> = op.split_whitespace().collect();
        let idx = |k: &str| -> usize { kv(&w, k).and_then(|s| s.parse().ok()).expect("index") };
        match w.first().copied() {
            Some("addid") => {
                let f = idx("f");
                let ids = kv(&w, "id").expect("id");
                let id = parse_id(ids);
                fs[f].add_id(&id);
                members[f].push(ids.to_string());
                if !fs[f].contains_id(&id) {
                    run.oracle_fail("no_false_negative", "", &format!("id {} not contained right after add_id", ids));
                }
                key.push('a');
                run.end_op("ok");
            }
            Some("contains") => {
                let f = idx("f");
                let ids = kv(&w, "id").expect("id");
                let got = fs[f].contains_id(&parse_id(ids));
                if !got && members[f].iter().any(|m| m == ids) {
                    run.oracle_fail("no_false_negative", "", &format!("id {} was added to filter {} but is not reported", ids, f));
                }
                if got {
                    positives += 1;
                }
                run.hit(if got { "contains-1" } else { "contains-0" });
                key.push(if got { 'y' } else { 'n' });
                run.end_op(if got { "1" } else { "0" });
            }
            Some("add") => {
                let (f, g) = (idx("f"), idx("g"));
                let other = fs[g];
                fs[f].add(&other);
                let inherited = members[g].clone();
                members[f].extend(inherited);
                key.push('+');
                run.end_op("ok");
            }
            Some("union") => {
                let into = idx("into");
                let of: Vec<usize> = match kv(&w, "of") {
                    None | Some("-") => vec![],
                    Some(s) => s.split(',').map(|x| x.parse().expect("index")).collect(),
                };
                let u = BloomFilter::union(of.iter().map(|i| &fs[*i]));
                let mut m = vec![];
                for i in &of {
                    m.extend(members[*i].clone());
                }
                fs[into] = u;
                members[into] = m;
                key.push('u');
                run.end_op("ok");
            }
            Some("dump") => {
                let f = idx("f");
                for m in &members[f] {
                    if !fs[f].contains_id(&parse_id(m)) {
                        run.oracle_fail("no_false_negative", "", &format!("id {} was added to filter {} but is not reported", m, f));
                    }
                }
                run.end_op(&format!("{} ones={}", hex(fs[f].as_bytes()), fs[f].count_ones()));
            }
            _ => run.end_op("bad-op"),
        }
    }
    if positives > 0 {
        run.nontrivial(&key);
    }
}

// ------------------------------------------------------------------------------------ c34_sizes

fn gen_sizes_case(_rng: &mut Rng, idx: u64, _run: &Run) -> Vec<String> {
    (0..64u64).map(|k| format!("newchunk c={}", (idx % 1024) * 64 + k)).collect()
}

fn exec_sizes_case(ops: &[String], run: &mut Run) {
    let mut key = String::new();
    for op in ops {
        run.begin_op(op);
        let w: Vec<&str> = op.split_whitespace().collect();
        let c: u16 = kv(&w, "c").and_then(|s| s.parse().ok()).expect("c");
        let got = RemoteBloomFilter::new(c).is_some();
        if got != VALID.contains(&c) {
            run.oracle_fail("valid_chunk_sizes", "", &format!("new({}) -> {}", c, got));
        }
        if got {
            run.hit("valid");
            key.push_str(&format!("{},", c));
        }
        run.end_op(if got { "some" } else { "none" });
    }
    if !key.is_empty() {
        run.nontrivial(&key);
    }
}

#[test]
fn entry() {
    let stream = std::env::var("VERIF_STREAM").unwrap_or_default();
    match stream.as_str() {
        "c34_remote" => common::drive(
            "c34_remote",
            "RemoteBloomFilter against a server filter that changes only BETWEEN complete rounds (a third of the cases: 2-3 complete rounds with bits cleared/set/replaced in between, full_filter checked against the server after every completed round), chunk size cycling through ALL 8 valid sizes (4..512) plus invalid ones, 0-400 ops: next_request / matching (through the wire functions) / stale / wrong-cookie / wrong-length / garbage / duplicate / lying answers, full_filter, server to_response, ReferenceIdRequest::new/decode; non-trivial = at least one chunk accepted; distinct by op-outcome string",
            gen_remote_case,
            exec_remote_case,
        ),
        "c34_bloom" => common::drive(
            "c34_bloom",
            "BloomFilter add_id / contains_id / add / union / count_ones on 4 filters with ids from a shared pool (ServerId::new-like, clustered, corner, near-miss); non-trivial = at least one positive contains; distinct by op-outcome string",
            gen_bloom_case,
            exec_bloom_case,
        ),
        "c34_sizes" => common::drive(
            "c34_sizes",
            "EXHAUSTIVE over u16: RemoteBloomFilter::new(c) for c = 64*i .. 64*i+63 in case i (1024 cases = all 65536 values); non-trivial = case contains a valid size",
            gen_sizes_case,
            exec_sizes_case,
        ),
        other => panic!("unknown VERIF_STREAM {:?}", other),
    }
}
