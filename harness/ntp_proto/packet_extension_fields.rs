//! verification harness module included into `ntp-proto/src/packet/extension_fields.rs` (guarded hook).
