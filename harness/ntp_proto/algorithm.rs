//! verification harness module included into `ntp-proto/src/algorithm/mod.rs` (guarded hook).
