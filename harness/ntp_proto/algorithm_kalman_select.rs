//! verification harness module included into `ntp-proto/src/algorithm/kalman/select.rs` (guarded hook).
