//! verification harness module included into `ntp-proto/src/system.rs` (guarded hook), cluster `srcsm`, C33:
//! `NtpSnapshot::from_used_sources` / `NtpManager::update_used_sources` (the advertised stratum, reference id and
//! Bloom filter).  Stream `c33_advert`: cases of 1–4 `advert` ops on one `NtpManager`; each op registers the
//! snapshots of the reporting NTP sources in the manager's snapshot table (missing ones are not registered),
//! calls `update_used_sources`, and prints the published `NtpSnapshot`.
//! Op line: `advert shape=…` (+ read back: lstrat= own=<bits> srcs=ntp:<stratum>:<source id>:<bits|none>,ext:…,missing)
#![allow(clippy::all, clippy::pedantic)]

#[path = "../common/mod.rs"]
mod common;

use super::super::*;
use crate::source::Reach;
use common::{kv, Rng, Run};
use std::net::{IpAddr, Ipv4Addr, SocketAddr};

fn bits_of(f: &BloomFilter) -> Vec<usize> {
    let mut v = vec![];
    for (i, b) in f.as_bytes().iter().enumerate() {
        for k in 0..8 {
            if b & (1 << k) != 0 {
                v.push(i * 8 + k);
            }
        }
    }
    v
}

fn refid_u32(r: ReferenceId) -> u32 {
    u32::from_be_bytes(r.to_bytes())
}

struct NullController;

impl crate::algorithm::SourceController for NullController {
    fn handle_measurement(&mut self, _m: crate::algorithm::Measurement) {}
    fn set_usable(&mut self, _usable: bool) {}
    fn desired_poll_interval(&self) -> crate::time_types::PollInterval {
        crate::time_types::PollInterval::default()
    }
    fn observe(&self) -> crate::ObservableSourceTimedata {
        crate::ObservableSourceTimedata::default()
    }
}

fn id_bits(id: &ServerId) -> Vec<usize> {
    let mut f = BloomFilter::new();
    f.add_id(id);
    bits_of(&f)
}

/// the wiring invariant of `NtpManager`, evaluated directly on the implementation after every op: ONE server id —
/// the id handed to the sources (`source_info.server_id`) is the id the manager folds into the advertised Bloom
/// filter (`server_id`, via `from_used_sources`); the local stratum and address list handed to the sources are the
/// configured ones; and, end to end on the values a source created through this manager works with: a peer whose
/// complete Bloom filter is the one this daemon advertises is refused as a loop.
fn check_wiring(m: &NtpManager, lstrat: u8, ips: &[IpAddr], run: &mut Run) {
    let si = m.source_info.read().unwrap().clone();
    if id_bits(&si.server_id) != id_bits(&m.server_id) {
        run.oracle_fail("one_server_id", "where=manager", "the server id the manager hands to its sources differs from the id it advertises in its Bloom filter");
    }
    if si.local_stratum != lstrat || si.ip_list.as_ref() != ips {
        run.oracle_fail("source_info_wiring", "", "local stratum / address list handed to the sources differ from the configured ones");
    }
    // what this manager advertises with no used source: exactly its own id
    let advertised = NtpSnapshot::from_used_sources(lstrat, m.server_id, std::iter::empty()).bloom_filter;
    let peer = NtpSourceSnapshot {
        source_addr: SocketAddr::new(IpAddr::V4(Ipv4Addr::new(192, 168, 1, 5)), 123),
        source_id: ReferenceId::from_ip(IpAddr::V4(Ipv4Addr::new(192, 168, 1, 5))),
        poll_interval: crate::time_types::PollInterval::default(),
        reach: Reach::never(),
        stratum: 0,
        reference_id: ReferenceId::NONE,
        protocol_version: ProtocolVersion::V5,
        bloom_filter: Some(advertised),
    };
    if lstrat > 0 {
        // stratum 0 < local stratum, not one of our addresses: the Bloom test is the first that can refuse it
        match peer.accept_synchronization(si.local_stratum, &si.ip_list, si.server_id) {
            Err(crate::source::AcceptSynchronizationError::Loop) => run.hit("wiring-peer-with-advertised-filter-refused"),
            other => run.oracle_fail("bloom_loop_end_to_end", &format!("got={:?}", other), "a peer whose full Bloom filter contains this daemon's advertised id is not refused as a loop by a source wired through the manager"),
        }
    }
}

fn gen_manager_case(rng: &mut Rng, idx: u64, run: &Run) -> Vec<String> {
    // the advert generator's ops, interleaved with the manager's other entry points
    let base = gen_case(rng, idx, run);
    let mut ops = vec![];
    for (i, op) in base.into_iter().enumerate() {
        ops.push(op);
        if i == 0 || rng.chance(1, 2) {
            for _ in 0..rng.usize(0, 3) {
                ops.push(match rng.below(4) {
                    0 => format!("ips n={}", rng.below(4)),
                    1 => format!("newsrc v={}", *rng.pick(&["4", "5", "up"])),
                    2 => "rmsrc".to_string(),
                    _ => "timesnap".to_string(),
                });
            }
        }
    }
    ops
}

fn gen_case(rng: &mut Rng, _idx: u64, _run: &Run) -> Vec<String> {
    let lstrat = *rng.pick(&[16u8, 16, 1, 2, 5, 255, 0]);
    let mut ops = vec![format!("mgr lstrat={}", lstrat)];
    let n = rng.usize(1, 4);
    for _ in 0..n {
        let k = match rng.below(8) {
            0 => 0,
            1 => 6,
            _ => rng.usize(1, 4),
        };
        let mut shape = vec![];
        for _ in 0..k {
            let st = match rng.below(8) {
                0 => 255,
                1 => 254,
                2 => 0,
                3 => 16,
                _ => rng.range(1, 15),
            };
            let item = match rng.below(12) {
                0 => "pps".to_string(),
                1 => "sock".to_string(),
                2 => "csptp".to_string(),
                3 | 4 => "missing".to_string(),
                5 | 6 => format!("ntp:{}:{}:none", st, 0x0a00_0000u32 + rng.below(50) as u32),
                _ => format!("ntp:{}:{}:bloom{}", st, 0x0a00_0000u32 + rng.below(50) as u32, rng.usize(1, 3)),
            };
            shape.push(item);
        }
        ops.push(format!("advert shape={}", if shape.is_empty() { "-".to_string() } else { shape.join(",") }));
    }
    ops
}

fn exec_case(ops: &[String], run: &mut Run) {
    let mut mgr: Option<NtpManager> = None;
    let mut lstrat = 16u8;
    let mut key = String::new();
    let mut next_id = 1u64;
    let mut ips: Vec<IpAddr> = vec![];
    for op in ops {
        run.begin_op(op);
        let w: Vec<&str> = op.split_whitespace().collect();
        match w[0] {
            "ips" => {
                let n: u8 = kv(&w, "n").unwrap().parse().unwrap();
                ips = (0..n).map(|i| IpAddr::V4(Ipv4Addr::new(10, 0, 0, 1 + i))).collect();
                mgr.as_ref().expect("mgr first").update_ip_list(std::sync::Arc::from(ips.clone()));
                key.push('i');
                run.end_op_as("note ips", "ok");
            }
            "newsrc" => {
                // a source created (and dropped again) through the manager's own API
                let m = mgr.as_ref().expect("mgr first");
                let pv = match kv(&w, "v").unwrap() {
                    "4" => ProtocolVersion::V4,
                    "5" => ProtocolVersion::V5,
                    _ => ProtocolVersion::v4_upgrading_to_v5_with_default_tries(),
                };
                let (src, _) = m.new_source(
                    SocketAddr::new(IpAddr::V4(Ipv4Addr::new(192, 168, 1, next_id as u8)), 123),
                    crate::config::SourceConfig::default(),
                    pv,
                    NullController,
                    None,
                    ClockId(next_id),
                );
                next_id += 1;
                drop(src);
                key.push('n');
                run.end_op_as("note newsrc", "ok");
            }
            "rmsrc" => {
                // a source goes away: its snapshot leaves the manager's table
                let m = mgr.as_ref().expect("mgr first");
                let mut t = m.source_snapshots.lock().unwrap();
                if let Some(k) = t.keys().next().copied() {
                    t.remove(&k);
                }
                key.push('r');
                run.end_op_as("note rmsrc", "ok");
            }
            "timesnap" => {
                mgr.as_ref().expect("mgr first").update_time_snapshot(TimeSnapshot::default());
                run.end_op_as("note timesnap", "ok");
            }
            "mgr" => {
                lstrat = kv(&w, "lstrat").unwrap().parse().unwrap();
                let mut cfg = SynchronizationConfig::default();
                cfg.local_stratum = lstrat;
                mgr = Some(NtpManager::new(cfg, std::sync::Arc::from(Vec::<IpAddr>::new())));
                ips = vec![];
                // the model keeps the previous advertisement; a fresh manager publishes the default one
                let s0 = mgr.as_ref().unwrap().observe();
                run.end_op_as(
                    &format!("advinit lstrat={} strat={} rid={}", lstrat, s0.stratum, refid_u32(s0.reference_id)),
                    &format!("strat={} rid={} bits={}", s0.stratum, refid_u32(s0.reference_id), common::comma_list(&bits_of(&s0.bloom_filter))),
                );
            }
            "advert" => {
                let m = mgr.as_ref().expect("mgr first");
                let own = {
                    let mut f = BloomFilter::new();
                    f.add_id(&m.server_id);
                    bits_of(&f)
                };
                let shape = kv(&w, "shape").unwrap();
                let mut srcs_txt = vec![];
                let mut used = vec![];
                let mut all_reported = true;
                let mut first: Option<(u8, u32)> = None;
                let mut union: std::collections::BTreeSet<usize> = own.iter().copied().collect();
                if shape != "-" {
                    for item in shape.split(',') {
                        let id = ClockId(next_id);
                        next_id += 1;
                        let parts: Vec<&str> = item.split(':').collect();
                        match parts.as_slice() {
                            ["pps"] => {
                                used.push((id, SourceType::Pps));
                                srcs_txt.push(format!("ext:0:{}", refid_u32(ReferenceId::PPS)));
                                first.get_or_insert((0, refid_u32(ReferenceId::PPS)));
                            }
                            ["sock"] => {
                                used.push((id, SourceType::Sock));
                                srcs_txt.push(format!("ext:0:{}", refid_u32(ReferenceId::SOCK)));
                                first.get_or_insert((0, refid_u32(ReferenceId::SOCK)));
                            }
                            ["csptp"] => {
                                used.push((id, SourceType::Csptp));
                                srcs_txt.push(format!("ext:0:{}", refid_u32(ReferenceId::CSPTP)));
                                first.get_or_insert((0, refid_u32(ReferenceId::CSPTP)));
                            }
                            ["missing"] => {
                                used.push((id, SourceType::Ntp));
                                srcs_txt.push("missing".to_string());
                                all_reported = false;
                            }
                            ["ntp", st, sid, bl] => {
                                let st: u8 = st.parse().unwrap();
                                let sid: u32 = sid.parse().unwrap();
                                let filter = if *bl == "none" {
                                    None
                                } else {
                                    let k: usize = bl.trim_start_matches("bloom").parse().unwrap();
                                    let mut f = BloomFilter::new();
                                    for _ in 0..k {
                                        f.add_id(&ServerId::default());
                                    }
                                    Some(f)
                                };
                                let snap = NtpSourceSnapshot {
                                    source_addr: SocketAddr::new(IpAddr::V4(Ipv4Addr::from(sid)), 123),
                                    source_id: ReferenceId::from_ip(IpAddr::V4(Ipv4Addr::from(sid))),
                                    poll_interval: crate::time_types::PollInterval::default(),
                                    reach: Reach::never(),
                                    stratum: st,
                                    reference_id: ReferenceId::NONE,
                                    protocol_version: ProtocolVersion::V5,
                                    bloom_filter: filter,
                                };
                                m.source_snapshots.lock().unwrap().insert(id, snap);
                                used.push((id, SourceType::Ntp));
                                let bits = filter.map(|f| bits_of(&f));
                                if let Some(b) = &bits {
                                    union.extend(b.iter().copied());
                                }
                                srcs_txt.push(format!(
                                    "ntp:{}:{}:{}",
                                    st,
                                    sid,
                                    match &bits {
                                        None => "none".to_string(),
                                        Some(b) if b.is_empty() => "none".to_string(),
                                        Some(b) => b.iter().map(|x| x.to_string()).collect::<Vec<_>>().join("."),
                                    }
                                ));
                                first.get_or_insert((st, sid));
                            }
                            other => panic!("bad shape item {:?}", other),
                        }
                    }
                }
                let before = m.observe();
                let snap = m.update_used_sources(used.into_iter());
                let published = m.observe();
                let out = format!("strat={} rid={} bits={}", snap.stratum, refid_u32(snap.reference_id), common::comma_list(&bits_of(&snap.bloom_filter)));
                // ---- oracle: the property evaluated directly
                if all_reported {
                    let (want_st, want_rid) = match first {
                        None => (lstrat, refid_u32(ReferenceId::NONE)),
                        Some((st, sid)) => (st.saturating_add(1), sid),
                    };
                    if snap.stratum != want_st || refid_u32(snap.reference_id) != want_rid {
                        run.oracle_fail("advertise", &format!("stratum={} want={}", snap.stratum, want_st), "advertised stratum / reference id is not primary source + 1 / its identifier");
                    }
                    let got: std::collections::BTreeSet<usize> = bits_of(&snap.bloom_filter).into_iter().collect();
                    if got != union {
                        run.oracle_fail("advertise_bloom", "", "advertised Bloom filter is not the union of the sources' filters and the own id");
                    }
                    run.hit(if first.is_none() { "advert-no-source" } else { "advert-primary" });
                } else {
                    if snap.stratum != before.stratum || snap.reference_id != before.reference_id || bits_of(&snap.bloom_filter) != bits_of(&before.bloom_filter) {
                        run.oracle_fail("advertise_waits", "", "advertisement changed although a used source has not reported");
                    }
                    run.hit("advert-waits");
                }
                if published.stratum != snap.stratum || published.reference_id != snap.reference_id {
                    run.oracle_fail("advertise", "published=differs", "returned snapshot differs from the published one");
                }
                if !snap.bloom_filter.contains_id(&m.server_id) && (all_reported) {
                    run.oracle_fail("advertise_bloom", "own=missing", "advertised Bloom filter lacks the own id");
                }
                key.push_str(&format!("{}{};", srcs_txt.len(), all_reported as u8));
                let opline = format!(
                    "advert shape={} lstrat={} own={} srcs={}",
                    shape,
                    lstrat,
                    common::comma_list(&own),
                    if srcs_txt.is_empty() { "-".to_string() } else { srcs_txt.join(",") }
                );
                run.end_op_as(&opline, &out);
            }
            _ => run.end_op("bad-op"),
        }
        if let Some(m) = mgr.as_ref() {
            check_wiring(m, lstrat, &ips, run);
        }
    }
    run.nontrivial(&key);
}

#[test]
fn entry() {
    let stream = std::env::var("VERIF_STREAM").unwrap_or_default();
    match stream.as_str() {
        "c33_advert" => common::drive(
            "c33_advert",
            "1-4 update_used_sources calls on one NtpManager (local stratum 0/1/2/5/16/255): 0-6 used sources of kinds NTP (strata 0..255, with/without Bloom filter), PPS, SOCK, CSPTP, and NTP sources that have not reported; non-trivial = every case; distinct by (number of sources, all reported) per call",
            gen_case,
            exec_case,
        ),
        "c33_manager" => common::drive(
            "c33_manager",
            "cases on one real NtpManager each (local stratum 0/1/2/5/16/255): update_used_sources calls as in c33_advert interleaved with update_ip_list, new_source (v4/v5/upgrading, created and dropped through the manager's API), removal of a source's snapshot, update_time_snapshot; after EVERY op the wiring invariant is evaluated on the manager (one server id for sources and advertisement; local stratum and address list handed on; a peer relaying the advertised filter is refused as a loop); distinct by op-kind string",
            gen_manager_case,
            exec_case,
        ),
        other => panic!("unknown VERIF_STREAM {:?}", other),
    }
}
