//! verification harness module included into `ntp-proto/src/algorithm/kalman/combiner.rs` (guarded hook).
//! Grandchild of `algorithm::kalman::combiner`, so it sees the private `vote_leap`.
//!
//! Streams (selected with VERIF_STREAM), property C04:
//!   c04_vote_exh   — EVERY multiset of the four admissible leap indicators (NoWarning, Leap59, Leap61,
//!                    Unknown) of size 0..=12 (C(16,4) = 1820 multisets; case idx = rank of the multiset),
//!                    each in canonical order and in three random orders through `vote_leap`, and once more
//!                    through `combine` (which is what `update_clock` calls)
//!   c04_vote_rand  — random indicator lists of length 0..=40, near-tie biased, some containing
//!                    `Unsynchronized` (the `panic!` arm, an expected and modelled outcome)
//!
//! op lines:   vote <chars>      chars: n=NoWarning 5=Leap59 6=Leap61 u=Unknown x=Unsynchronized, `-` = empty
//!             combine <chars>
//! observations: some:<char> | none | panic | empty (combine on an empty selection)
#![allow(clippy::all, clippy::pedantic)]

#[path = "../common/mod.rs"]
mod common;

use super::super::*;
use crate::algorithm::kalman::matrix::{Matrix, Vector};
use crate::time_types::NtpTimestamp;
use common::{Rng, Run};
use std::panic::{catch_unwind, AssertUnwindSafe};

pub(super) fn leap_of_char(c: char) -> Option<NtpLeapIndicator> {
    Some(match c {
        'n' => NtpLeapIndicator::NoWarning,
        '5' => NtpLeapIndicator::Leap59,
        '6' => NtpLeapIndicator::Leap61,
        'u' => NtpLeapIndicator::Unknown,
        'x' => NtpLeapIndicator::Unsynchronized,
        _ => return None,
    })
}

pub(super) fn char_of_leap(l: NtpLeapIndicator) -> char {
    match l {
        NtpLeapIndicator::NoWarning => 'n',
        NtpLeapIndicator::Leap59 => '5',
        NtpLeapIndicator::Leap61 => '6',
        NtpLeapIndicator::Unknown => 'u',
        NtpLeapIndicator::Unsynchronized => 'x',
    }
}

fn snapshot(i: usize, leap: NtpLeapIndicator) -> SourceSnapshot {
    SourceSnapshot {
        index: ClockId(i as u64 + 1),
        state: KalmanState {
            state: Vector::new_vector([1e-3 * (i as f64), 0.0]),
            uncertainty: Matrix::new([[1e-6, 0.0], [0.0, 1e-12]]),
            time: NtpTimestamp::from_fixed_int(0),
        },
        wander: 1e-16,
        delay: 0.01,
        period: None,
        source_uncertainty: NtpDuration::from_seconds(0.001),
        source_delay: NtpDuration::from_seconds(0.01),
        leap_indicator: leap,
        last_update: NtpTimestamp::from_fixed_int(0),
    }
}

fn parse_list(s: &str) -> Option<Vec<SourceSnapshot>> {
    if s == "-" {
        return Some(vec![]);
    }
    s.chars()
        .enumerate()
        .map(|(i, c)| leap_of_char(c).map(|l| snapshot(i, l)))
        .collect()
}

fn chars(v: &[char]) -> String {
    if v.is_empty() {
        "-".to_string()
    } else {
        v.iter().collect()
    }
}

fn shuffle(rng: &mut Rng, v: &mut Vec<char>) {
    for i in (1..v.len()).rev() {
        let j = rng.usize(0, i);
        v.swap(i, j);
    }
}

/// the `idx`-th multiset (counts of n, 5, 6, u) with total size <= 12, in lexicographic order
fn multiset(idx: u64) -> Option<[usize; 4]> {
    let mut k = 0u64;
    for a in 0..=12usize {
        for b in 0..=(12 - a) {
            for c in 0..=(12 - a - b) {
                for d in 0..=(12 - a - b - c) {
                    if k == idx {
                        return Some([a, b, c, d]);
                    }
                    k += 1;
                }
            }
        }
    }
    None
}

pub(super) const N_MULTISETS: u64 = 1820;

fn gen_exh_case(rng: &mut Rng, idx: u64, _run: &Run) -> Vec<String> {
    let m = multiset(idx % N_MULTISETS).expect("rank in range");
    let mut v: Vec<char> = vec![];
    for (k, c) in ['n', '5', '6', 'u'].iter().enumerate() {
        for _ in 0..m[k] {
            v.push(*c);
        }
    }
    let mut ops = vec![format!("vote {}", chars(&v))];
    for _ in 0..3 {
        shuffle(rng, &mut v);
        ops.push(format!("vote {}", chars(&v)));
    }
    shuffle(rng, &mut v);
    ops.push(format!("combine {}", chars(&v)));
    ops
}

fn gen_rand_case(rng: &mut Rng, _idx: u64, _run: &Run) -> Vec<String> {
    let n = match rng.below(10) {
        0 => rng.usize(0, 2),
        1..=6 => rng.usize(1, 14),
        _ => rng.usize(10, 40),
    };
    // near-tie bias: pick a leader and give it about half of the known votes
    let leader = *rng.pick(&['n', '5', '6']);
    let with_unsync = rng.chance(15, 100);
    let p_unknown = *rng.pick(&[0u64, 10, 30, 60]);
    let mut v: Vec<char> = vec![];
    for _ in 0..n {
        if rng.below(100) < p_unknown {
            v.push('u');
        } else if rng.chance(1, 2) {
            v.push(leader);
        } else {
            v.push(*rng.pick(&['n', '5', '6']));
        }
    }
    if with_unsync && !v.is_empty() {
        let k = rng.usize(0, v.len() - 1);
        v[k] = 'x';
    }
    let mut ops = vec![format!("vote {}", chars(&v))];
    shuffle(rng, &mut v);
    ops.push(format!("vote {}", chars(&v)));
    ops.push(format!("combine {}", chars(&v)));
    ops
}

/// the property evaluated directly: the indicator reported by a strict majority of the sources whose
/// status is not unknown, if any
fn majority(sel: &[SourceSnapshot]) -> Option<NtpLeapIndicator> {
    let known = sel
        .iter()
        .filter(|s| s.leap_indicator != NtpLeapIndicator::Unknown)
        .count();
    for l in [
        NtpLeapIndicator::NoWarning,
        NtpLeapIndicator::Leap59,
        NtpLeapIndicator::Leap61,
    ] {
        let c = sel.iter().filter(|s| s.leap_indicator == l).count();
        if 2 * c > known {
            return Some(l);
        }
    }
    None
}

fn obs_of(r: Option<NtpLeapIndicator>) -> String {
    match r {
        None => "none".to_string(),
        Some(l) => format!("some:{}", char_of_leap(l)),
    }
}

fn exec_case(ops: &[String], run: &mut Run) {
    let mut first: Option<String> = None;
    for op in ops {
        run.begin_op(op);
        let w: Vec<&str> = op.split_whitespace().collect();
        match w.as_slice() {
            [kind @ ("vote" | "combine"), s] => {
                let Some(sel) = parse_list(s) else {
                    run.end_op("bad-op");
                    continue;
                };
                let has_unsync = sel
                    .iter()
                    .any(|s| s.leap_indicator == NtpLeapIndicator::Unsynchronized);
                let is_vote = *kind == "vote";
                let r = catch_unwind(AssertUnwindSafe(|| {
                    if is_vote {
                        Some(vote_leap(&sel))
                    } else {
                        combine(&sel, &AlgorithmConfig::default()).map(|c| c.leap_indicator)
                    }
                }));
                let obs = match r {
                    Err(_) => {
                        run.hit("panic");
                        if !has_unsync {
                            run.oracle_fail(
                                "panic",
                                &format!("op={}", kind),
                                &format!("{} panicked on {} without an Unsynchronized member: {}", kind, s, common::last_panic()),
                            );
                        }
                        "panic".to_string()
                    }
                    Ok(None) => {
                        run.hit("combine-empty");
                        if !sel.is_empty() {
                            run.oracle_fail("combine_some", "", &format!("combine returned None on {}", s));
                        }
                        "empty".to_string()
                    }
                    Ok(Some(v)) => {
                        if has_unsync {
                            // an Unsynchronized member must never be voted over silently
                            run.oracle_fail("unsync_voted", "", &format!("{} on {} returned {:?}", kind, s, v));
                        } else {
                            let want = majority(&sel);
                            if v != want {
                                run.oracle_fail(
                                    "strict_majority",
                                    &format!("got={} want={}", obs_of(v), obs_of(want)),
                                    &format!("{} on {}: announced {:?}, strict majority of known votes is {:?}", kind, s, v, want),
                                );
                            }
                        }
                        match v {
                            None => run.hit("none"),
                            Some(l) => {
                                run.hit(&format!("some-{}", char_of_leap(l)));
                                let mut sorted: Vec<char> = s.chars().collect();
                                sorted.sort();
                                run.nontrivial(&format!("{}{}", chars(&sorted), char_of_leap(l)));
                            }
                        }
                        obs_of(v)
                    }
                };
                // all orders of one multiset must give the same answer (ops of a case share a multiset)
                match &first {
                    None => first = Some(obs.clone()),
                    Some(f) => {
                        if *f != obs && !(obs == "empty" && f == "none") {
                            run.oracle_fail("order_independent", "", &format!("{} gave {} but the first order gave {}", op, obs, f));
                        }
                    }
                }
                run.end_op(&obs);
            }
            _ => run.end_op("bad-op"),
        }
    }
}

#[test]
fn entry() {
    let stream = std::env::var("VERIF_STREAM").unwrap_or_default();
    match stream.as_str() {
        "c04_vote_exh" => common::drive(
            "c04_vote_exh",
            "case idx = rank of a multiset over {NoWarning,Leap59,Leap61,Unknown} of size 0..=12 (1820 multisets; exhaustive when n >= 1820); each in canonical + 3 random orders through vote_leap and once through combine; non-trivial = some indicator announced; distinct by (multiset, result)",
            gen_exh_case,
            exec_case,
        ),
        "c04_vote_rand" => common::drive(
            "c04_vote_rand",
            "random indicator lists (0..=40, near-tie biased, 15% with an Unsynchronized member = modelled panic arm) through vote_leap (2 orders) and combine; non-trivial = some indicator announced",
            gen_rand_case,
            exec_case,
        ),
        other => panic!("unknown VERIF_STREAM {:?}", other),
    }
}
