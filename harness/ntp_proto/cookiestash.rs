//! verification harness module included into `ntp-proto/src/cookiestash.rs` (guarded hook).
