//! C20 harness (cluster `filt`), included into `ntp-proto/src/server.rs` through the guarded hook.
//! Grandchild of `crate::server`, so it sees the private `TimestampedCache` and `Server` fields.
//!
//! Streams (VERIF_STREAM):
//!   c20_cache  — `TimestampedCache::<IpAddr>::is_allowed` with synthetic `Instant`s; the real slot index
//!                (`index()`, private, `RandomState`) is read back and handed to the model in the op line.
//!   c20_policy — a real `Server`: `intended_action` on deny/allow lists + cache; list membership, slot
//!                index and the `Instant::now()` the server stored are read back into the op line.
#![allow(clippy::all, clippy::pedantic)]

#[path = "../common/mod.rs"]
mod common;

use super::super::*;
use common::{hex, kv, Rng, Run};
use std::net::IpAddr;
use std::time::{Duration, Instant};

fn ip_bytes(ip: &IpAddr) -> Vec<u8> {
    match ip {
        IpAddr::V4(a) => a.octets().to_vec(),
        IpAddr::V6(a) => a.octets().to_vec(),
    }
}

const POOL: &[&str] = &[
    "10.0.0.1",
    "10.0.0.2",
    "10.0.0.3",
    "10.0.1.1",
    "192.168.7.9",
    "::ffff:10.0.0.1", // a different `IpAddr` value than 10.0.0.1: the cache does not canonicalise
    "2001:db8::1",
    "2001:db8::2",
    "fe80::1",
    "127.0.0.1",
];

/// The property evaluated directly: per slot, the last request that reached the cache.
struct Oracle {
    n: usize,
    last: std::collections::HashMap<usize, (IpAddr, u64)>,
}

impl Oracle {
    fn new(n: usize) -> Self {
        Oracle { n, last: Default::default() }
    }
    /// returns (must be limited?, a human-readable reason)
    fn expect(&self, ip: IpAddr, slot: usize, t: u64, cutoff: u64) -> (bool, String) {
        if self.n == 0 {
            return (false, "cache size 0".into());
        }
        match self.last.get(&slot) {
            Some((prev, t0)) if *prev == ip => {
                let el = t.saturating_sub(*t0);
                (el < cutoff, format!("own previous list-passing request {} ns ago, cutoff {}", el, cutoff))
            }
            Some((prev, _)) => (false, format!("slot last used by other address {}", prev)),
            None => (false, "slot never used".into()),
        }
    }
    fn record(&mut self, ip: IpAddr, slot: usize, t: u64) {
        if self.n > 0 {
            self.last.insert(slot, (ip, t));
        }
    }
}

fn check(run: &mut Run, limited: bool, want: bool, why: &str, n: usize, line: &str) {
    if n == 0 && limited {
        run.oracle_fail("size_zero_never", "", &format!("rate-limited with cache size 0: {}", line));
    } else if limited && !want {
        run.oracle_fail("limited_only_if_own_recent", "", &format!("rate-limited although {}: {}", why, line));
    } else if !limited && want {
        run.oracle_fail("limited_if_recent_undisturbed", "", &format!("not rate-limited although {}: {}", why, line));
    }
}

// ------------------------------------------------------------------------------------ c20_cache

fn gen_cache_case(rng: &mut Rng, idx: u64, _run: &Run) -> Vec<String> {
    let n = match idx % 6 {
        0 => 0,
        1 => 1,
        2 => 2,
        3 => 3,
        4 => 64,
        _ => *rng.pick(&[1usize, 2, 3, 5, 64]),
    };
    let mut ops = vec![format!("cfg n={}", n)];
    let pool_n = rng.usize(1, POOL.len());
    let cutoff: u64 = *rng.pick(&[0u64, 1, 2, 1000, 1_000_000, 100_000_000, 3_600_000_000_000]);
    let mut t: u64 = rng.below(1_000_000);
    let len = rng.usize(2, 50);
    for _ in 0..len {
        let ip = POOL[rng.usize(0, pool_n - 1)];
        // advance time to around the cutoff boundary, far beyond it, or not at all
        let step = match rng.below(10) {
            0 => 0,
            1 => cutoff.saturating_sub(1),
            2 => cutoff,
            3 => cutoff + 1,
            4 => cutoff / 2,
            5 => 2 * cutoff + 7,
            6 => 1,
            _ => rng.below(2 * cutoff + 3),
        };
        if rng.chance(1, 40) {
            // an earlier instant (cannot happen with Instant::now(), duration_since saturates)
            t = t.saturating_sub(rng.below(1000));
        } else {
            t += step;
        }
        let c = if rng.chance(1, 12) { *rng.pick(&[0u64, 1, cutoff + 1, cutoff.saturating_sub(1)]) } else { cutoff };
        ops.push(format!("call ip={} t={} cutoff={}", ip, t, c));
    }
    ops
}

fn exec_cache_case(ops: &[String], run: &mut Run) {
    let base = Instant::now();
    let mut cache: TimestampedCache<IpAddr> = TimestampedCache::new(0);
    let mut oracle = Oracle::new(0);
    let mut key = String::new();
    let (mut lim, mut displaced) = (0, 0);
    for op in ops {
        run.begin_op(op);
        let w: Vec<&str> = op.split_whitespace().collect();
        match w.first().copied() {
            Some("cfg") => {
                let n: usize = kv(&w, "n").and_then(|s| s.parse().ok()).expect("n");
                cache = TimestampedCache::new(n);
                oracle = Oracle::new(n);
                key.push_str(&format!("n{};", n));
                run.end_op("ok");
            }
            Some("call") => {
                let ip: IpAddr = kv(&w, "ip").expect("ip").parse().expect("ip");
                let t: u64 = kv(&w, "t").and_then(|s| s.parse().ok()).expect("t");
                let cutoff: u64 = kv(&w, "cutoff").and_then(|s| s.parse().ok()).expect("cutoff");
                let n = cache.elements.len();
                // `index()` is `% len`: not callable on the disabled cache
                let slot = if n == 0 { 0 } else { cache.index(&ip) };
                let allowed = cache.is_allowed(ip, base + Duration::from_nanos(t), Duration::from_nanos(cutoff));
                let line = format!("call ip={} a={} t={} cutoff={} slot={}", ip, hex(&ip_bytes(&ip)), t, cutoff, slot);
                let (want, why) = oracle.expect(ip, slot, t, cutoff);
                check(run, !allowed, want, &why, n, &line);
                if let Some((prev, _)) = oracle.last.get(&slot) {
                    if *prev != ip {
                        displaced += 1;
                        run.hit("slot-taken-over");
                    }
                }
                oracle.record(ip, slot, t);
                if allowed {
                    run.hit("allowed");
                    key.push('a');
                } else {
                    lim += 1;
                    run.hit("limited");
                    key.push('L');
                }
                key.push_str(&format!("{}", slot % 10));
                run.end_op_as(&line, if allowed { "allowed" } else { "limited" });
            }
            _ => run.end_op("bad-op"),
        }
    }
    if lim > 0 && displaced > 0 {
        run.nontrivial(&key);
    }
}

// ------------------------------------------------------------------------------------ c20_policy

const NETS: &[&str] = &[
    "10.0.0.0/24",
    "10.0.0.1/32",
    "10.0.0.2/31",
    "192.168.0.0/16",
    "2001:db8::/32",
    "2001:db8::1/128",
    "fe80::/10",
    "::ffff:10.0.0.0/120",
    "127.0.0.0/8",
];

fn gen_policy_case(rng: &mut Rng, idx: u64, _run: &Run) -> Vec<String> {
    let n = match idx % 5 {
        0 => 0,
        1 => 1,
        2 => 2,
        3 => 64,
        _ => *rng.pick(&[1usize, 3, 64]),
    };
    let cutoff: u64 = *rng.pick(&[0u64, 1500, 4000, 20_000, 3_600_000_000_000, 3_600_000_000_000]);
    let mut deny: Vec<&str> = vec![];
    let mut allow: Vec<&str> = vec![];
    for net in NETS {
        if rng.chance(1, 6) {
            deny.push(net);
        }
    }
    if rng.chance(2, 3) {
        allow.push("0.0.0.0/0");
        allow.push("::/0");
    } else {
        for net in NETS {
            if rng.chance(2, 3) {
                allow.push(net);
            }
        }
    }
    let acts = ["Deny", "Ignore"];
    let mut ops = vec![format!(
        "cfg n={} cutoff={} denyact={} allowact={} deny={} allow={}",
        n,
        cutoff,
        rng.pick(&acts),
        rng.pick(&acts),
        common::comma_list(&deny),
        common::comma_list(&allow)
    )];
    let pool_n = rng.usize(1, POOL.len());
    let len = rng.usize(2, 30);
    for _ in 0..len {
        if rng.chance(1, 5) {
            ops.push(format!("wait ns={}", rng.pick(&[1000u64, 3000, 6000, 25_000])));
        }
        ops.push(format!("req ip={}", POOL[rng.usize(0, pool_n - 1)]));
    }
    ops
}

fn exec_policy_case(ops: &[String], run: &mut Run) {
    let base = Instant::now();
    let mut server: Option<Server<()>> = None;
    let mut cutoff: u64 = 0;
    let mut oracle = Oracle::new(0);
    let mut key = String::new();
    let (mut lim, mut blocked) = (0, 0);
    for op in ops {
        run.begin_op(op);
        let w: Vec<&str> = op.split_whitespace().collect();
        match w.first().copied() {
            Some("cfg") => {
                let n: usize = kv(&w, "n").and_then(|s| s.parse().ok()).expect("n");
                cutoff = kv(&w, "cutoff").and_then(|s| s.parse().ok()).expect("cutoff");
                let act = |k: &str| match kv(&w, k) {
                    Some("Deny") => FilterAction::Deny,
                    _ => FilterAction::Ignore,
                };
                let nets = |k: &str| -> Vec<IpSubnet> {
                    match kv(&w, k) {
                        None | Some("-") => vec![],
                        Some(s) => s.split(',').map(|x| x.parse().expect("subnet")).collect(),
                    }
                };
                let config = ServerConfig {
                    denylist: FilterList { filter: nets("deny"), action: act("denyact") },
                    allowlist: FilterList { filter: nets("allow"), action: act("allowact") },
                    rate_limiting_cache_size: n,
                    rate_limiting_cutoff: Duration::from_nanos(cutoff),
                    require_nts: None,
                    accepted_versions: vec![NtpVersion::V4],
                };
                server = Some(Server::new_internal(
                    config,
                    (),
                    Arc::default(),
                    crate::KeySetProvider::new(1).get(),
                ));
                oracle = Oracle::new(n);
                key.push_str(&format!("n{}c{};", n, cutoff));
                run.end_op("ok");
            }
            Some("wait") => {
                let ns: u64 = kv(&w, "ns").and_then(|s| s.parse().ok()).expect("ns");
                let start = Instant::now();
                while start.elapsed() < Duration::from_nanos(ns) {
                    std::hint::spin_loop();
                }
                run.end_op("ok");
            }
            Some("req") => {
                let srv = server.as_mut().expect("cfg first");
                let ip: IpAddr = kv(&w, "ip").expect("ip").parse().expect("ip");
                let n = srv.client_cache.elements.len();
                let in_deny = srv.denyfilter.is_in(ip);
                let in_allow = srv.allowfilter.is_in(ip);
                let passes = !in_deny && in_allow;
                let slot = if n == 0 { 0 } else { srv.client_cache.index(&ip) };
                let before: Vec<Option<(IpAddr, Instant)>> = srv.client_cache.elements.clone();
                let (resp, reason) = srv.intended_action(ip);
                let limited = reason == ServerReason::RateLimit;
                // read back the instant the server stored
                let mut t: u64 = 0;
                if passes && n > 0 {
                    match srv.client_cache.elements[slot] {
                        Some((who, ts)) if who == ip => t = ts.duration_since(base).as_nanos() as u64,
                        _ => run.oracle_fail("slot_is_last_writer", "", &format!("slot {} does not hold {} after its list-passing request", slot, ip)),
                    }
                } else if srv.client_cache.elements != before {
                    run.oracle_fail("blocked_leaves_cache", "", &format!("cache changed by a request from {} that did not pass the lists", ip));
                }
                let line = format!(
                    "req ip={} a={} deny={} allow={} slot={} t={} cutoff={}",
                    ip,
                    hex(&ip_bytes(&ip)),
                    in_deny as u8,
                    in_allow as u8,
                    slot,
                    t,
                    cutoff
                );
                if passes {
                    let (want, why) = oracle.expect(ip, slot, t, cutoff);
                    check(run, limited, want, &why, n, &line);
                    oracle.record(ip, slot, t);
                } else {
                    blocked += 1;
                    if limited {
                        run.oracle_fail("limited_only_if_own_recent", "", &format!("rate-limited a request that did not pass the lists: {}", line));
                    }
                }
                if limited && resp != ServerResponse::Ignore {
                    run.oracle_fail("limited_gets_no_answer", "", &format!("RateLimit with response {:?}: {}", resp, line));
                }
                if limited {
                    lim += 1;
                }
                let obs = format!("{:?}/{:?}", resp, reason);
                run.hit(&obs);
                key.push_str(match (passes, limited) {
                    (false, _) => "b",
                    (true, true) => "L",
                    (true, false) => "p",
                });
                run.end_op_as(&line, &obs);
            }
            _ => run.end_op("bad-op"),
        }
    }
    if lim > 0 && blocked > 0 {
        run.nontrivial(&key);
    }
}

#[test]
fn entry() {
    let stream = std::env::var("VERIF_STREAM").unwrap_or_default();
    match stream.as_str() {
        "c20_cache" => common::drive(
            "c20_cache",
            "TimestampedCache<IpAddr> of size 0/1/2/3/5/64, 2-50 is_allowed calls from a pool of 1-10 addresses, synthetic instants stepping by cutoff-1/cutoff/cutoff+1/0/random; slot index read back from the private index(); non-trivial = at least one refusal and one slot take-over by another address; distinct by outcome+slot string",
            gen_cache_case,
            exec_cache_case,
        ),
        "c20_policy" => common::drive(
            "c20_policy",
            "real Server::intended_action with deny/allow lists (both actions), cache size 0/1/2/3/64, cutoff 0/1.5us/4us/20us/1h, real Instant::now() read back from the cache slot; non-trivial = at least one RateLimit and one list-blocked request; distinct by outcome string",
            gen_policy_case,
            exec_policy_case,
        ),
        other => panic!("unknown VERIF_STREAM {:?}", other),
    }
}
