//! verification harness module included into `ntp-proto/src/lib.rs` (guarded hook).
//!
//! Streams:
//!   f64_basic — validates the trusted `F64` base of the Lean models (bit-level IEEE order, min/max/clamp
//!               with Rust's NaN rules, hardware arithmetic and conversions) against Rust's `f64`.
#![allow(clippy::all, clippy::pedantic)]

#[path = "../common/mod.rs"]
mod common;

use common::{f64hex, f64unhex, Rng, Run};

fn special(rng: &mut Rng) -> f64 {
    const S: &[u64] = &[
        0x0000000000000000, 0x8000000000000000, 0x0000000000000001, 0x8000000000000001,
        0x000fffffffffffff, 0x0010000000000000, 0x3ff0000000000000, 0xbff0000000000000,
        0x7fefffffffffffff, 0xffefffffffffffff, 0x7ff0000000000000, 0xfff0000000000000,
        0x7ff8000000000000, 0xfff8000000000000, 0x7ff0000000000001, 0xfff0000000000001,
        0x43e0000000000000, 0xc3e0000000000000, 0x43f0000000000000, 0x41e0000000000000,
        0xc1e0000000000000, 0x41dfffffffc00000, 0x3fe0000000000000, 0x4340000000000000,
        0x433fffffffffffff, 0x3ff0000000000001, 0x4059000000000000,
    ];
    match rng.below(4) {
        0 => f64::from_bits(*rng.pick(S)),
        1 => f64::from_bits(rng.next_u64()),
        2 => (rng.range(-1000, 1000) as f64) * 0.125,
        _ => {
            let m = rng.f64_unit() * 2.0 - 1.0;
            let e = rng.range(-40, 70) as i32;
            m * (2.0f64).powi(e)
        }
    }
}

fn gen_case(rng: &mut Rng, _idx: u64, _run: &Run) -> Vec<String> {
    let a = special(rng);
    let b = if rng.chance(1, 6) { a } else { special(rng) };
    let c = special(rng);
    let mut ops = vec![
        format!("cmp {} {}", f64hex(a), f64hex(b)),
        format!("minmax {} {}", f64hex(a), f64hex(b)),
        format!("clamp {} {} {}", f64hex(a), f64hex(b), f64hex(c)),
        format!("arith {} {}", f64hex(a), f64hex(b)),
        format!("un {}", f64hex(a)),
        format!("conv {}", f64hex(a)),
    ];
    let i = match rng.below(4) {
        0 => *rng.pick(&[0i64, 1, -1, i64::MAX, i64::MIN, 1 << 53, (1 << 53) + 1, -(1 << 53) - 1, i64::MAX - 511]),
        _ => rng.next_u64() as i64 >> rng.below(64),
    };
    ops.push(format!("ofi {}", i));
    ops.push(format!("ofu {}", rng.next_u64() >> rng.below(64)));
    ops
}

fn b(x: bool) -> &'static str {
    if x { "1" } else { "0" }
}

fn exec_case(ops: &[String], run: &mut Run) {
    let mut key = String::new();
    for op in ops {
        run.begin_op(op);
        let w: Vec<&str> = op.split_whitespace().collect();
        let f = |s: &str| f64unhex(s).expect("f64 hex");
        match w.as_slice() {
            ["cmp", a, c] => {
                let (x, y) = (f(a), f(c));
                let tc = x.total_cmp(&y) != std::cmp::Ordering::Greater;
                key.push_str(&format!("{}{}{}", b(x < y), b(x.is_nan()), b(y.is_nan())));
                run.end_op(&format!("{} {} {} {} {} {} {}", b(x < y), b(x <= y), b(x == y), b(tc), b(x.is_nan()), b(x.is_finite()), b(x.is_infinite())));
            }
            ["minmax", a, c] => {
                let (x, y) = (f(a), f(c));
                // Rust leaves the sign of min(+0,-0) unspecified; compare through the order key instead
                let (mn, mx) = (x.min(y), x.max(y));
                let canon = |v: f64, x: f64, y: f64, want_min: bool| {
                    if x == 0.0 && y == 0.0 && x.to_bits() != y.to_bits() {
                        // model returns `a` when neither is smaller
                        let _ = (v, want_min);
                        x
                    } else {
                        v
                    }
                };
                run.end_op(&format!("{} {}", f64hex(canon(mn, x, y, true)), f64hex(canon(mx, x, y, false))));
            }
            ["clamp", a, l, h] => {
                let (x, lo, hi) = (f(a), f(l), f(h));
                let r = std::panic::catch_unwind(|| x.clamp(lo, hi));
                match r {
                    Ok(v) => {
                        // -0/+0 ambiguity: clamp returns x unless strictly outside
                        run.end_op(&f64hex(v))
                    }
                    Err(_) => run.end_op("panic"),
                }
            }
            ["arith", a, c] => {
                let (x, y) = (f(a), f(c));
                let nn = |v: f64| if v.is_nan() { "nan".to_string() } else { f64hex(v) };
                let _ = nn;
                run.end_op(&format!("{} {} {} {}", f64hex(x + y), f64hex(x - y), f64hex(x * y), f64hex(x / y)));
            }
            ["un", a] => {
                let x = f(a);
                run.end_op(&format!("{} {} {} {} {} {}", f64hex(x.sqrt()), f64hex(x.floor()), f64hex(x.exp()), f64hex(-x), f64hex(x.abs()), f64hex(x.ceil())));
            }
            ["conv", a] => {
                let x = f(a);
                run.end_op(&format!("{} {} {} {} {} {}", x as i64, x as u64, x as u32, x as u8, x as i8, x as i32));
            }
            ["ofi", i] => {
                let v: i64 = i.parse().unwrap();
                run.end_op(&f64hex(v as f64));
            }
            ["ofu", i] => {
                let v: u64 = i.parse().unwrap();
                run.end_op(&f64hex(v as f64));
            }
            _ => run.end_op("bad-op"),
        }
    }
    run.nontrivial(&key);
}

#[test]
fn entry() {
    let stream = std::env::var("VERIF_STREAM").unwrap_or_default();
    match stream.as_str() {
        "f64_basic" => common::drive(
            "f64_basic",
            "pairs/triples of f64 from special patterns, random bits, small dyadics and scaled values; every op compared bit-for-bit; distinct by (lt, nan, nan) signature",
            gen_case,
            exec_case,
        ),
        other => panic!("unknown VERIF_STREAM {:?}", other),
    }
}
