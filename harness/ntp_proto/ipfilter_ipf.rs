//! C31 harness (cluster `filt`), included into `ntp-proto/src/ipfilter.rs` through the guarded hook.
//!
//! Streams (VERIF_STREAM):
//!   c31_filter — lists of 0-40 subnets (nested, adjacent, jointly covering, overlapping, duplicate, masks at
//!                nibble boundaries +-1, IPv4 / IPv6 / IPv4-mapped) written as strings, parsed with
//!                `IpSubnet::from_str`, `IpFilter::new`, then ~50 `is_in` queries at subnet edges +-1.
//!   c31_parse  — `IpSubnet::from_str` on address/mask combinations of every family and mask 0..=255, plus
//!                malformed strings.
//! Addresses travel to the model as `4:<8 hex>` / `6:<32 hex>`.
#![allow(clippy::all, clippy::pedantic)]

#[path = "../common/mod.rs"]
mod common;

use super::super::*;
use crate::server::SubnetParseError;
use common::{kv, Rng, Run};
use std::net::{IpAddr, Ipv4Addr, Ipv6Addr};

#[derive(Clone, Copy, PartialEq, Eq, Debug)]
enum A {
    V4(u32),
    V6(u128),
}

fn enc(a: A) -> String {
    match a {
        A::V4(x) => format!("4:{:08x}", x),
        A::V6(x) => format!("6:{:032x}", x),
    }
}

fn dec(s: &str) -> A {
    let (fam, h) = s.split_once(':').expect("fam:hex");
    match fam {
        "4" => A::V4(u32::from_str_radix(h, 16).expect("hex")),
        _ => A::V6(u128::from_str_radix(h, 16).expect("hex")),
    }
}

fn to_ip(a: A) -> IpAddr {
    match a {
        A::V4(x) => IpAddr::V4(Ipv4Addr::from(x)),
        A::V6(x) => IpAddr::V6(Ipv6Addr::from(x)),
    }
}

const MAPPED: u128 = 0xffff_0000_0000;

/// the property's own notion of canonical form
fn canon(a: A) -> A {
    match a {
        A::V6(x) if x >> 32 == 0xffff => A::V4(x as u32),
        other => other,
    }
}

/// "address lies in subnet", evaluated directly on the numbers (both canonical)
fn lies_in(net: A, mask: u32, addr: A) -> bool {
    match (net, addr) {
        (A::V4(n), A::V4(a)) => mask == 0 || (mask <= 32 && (n ^ a) >> (32 - mask) == 0),
        (A::V6(n), A::V6(a)) => mask == 0 || (mask <= 128 && (n ^ a) >> (128 - mask) == 0),
        _ => false,
    }
}

fn width(a: A) -> u32 {
    match a {
        A::V4(_) => 32,
        A::V6(_) => 128,
    }
}

fn with_bits(a: A, f: impl Fn(u128, u32) -> u128) -> A {
    match a {
        A::V4(x) => A::V4(f(x as u128, 32) as u32),
        A::V6(x) => A::V6(f(x, 128)),
    }
}

/// keep the top `m` bits, randomise or zero the rest
fn trunc(a: A, m: u32, fill: u128) -> A {
    with_bits(a, |x, w| {
        if m == 0 {
            fill & low_mask(w)
        } else if m >= w {
            x
        } else {
            (x >> (w - m) << (w - m)) | (fill & low_mask(w - m))
        }
    })
}

fn low_mask(bits: u32) -> u128 {
    if bits >= 128 {
        u128::MAX
    } else {
        (1u128 << bits) - 1
    }
}

fn pick_mask(rng: &mut Rng, w: u32) -> u32 {
    let m = match rng.below(8) {
        0 => 4 * rng.below((w / 4 + 1) as u64) as u32,
        1 => (4 * rng.below((w / 4 + 1) as u64) as u32).saturating_sub(1),
        2 => 4 * rng.below((w / 4) as u64) as u32 + 1,
        3 => *rng.pick(&[0u32, 1, 2, 3, 4, 5]),
        4 => w - rng.below(6) as u32,
        _ => rng.below(w as u64 + 1) as u32,
    };
    m.min(w)
}

/// a subnet as written in the configuration: (address as written, mask as written)
type Net = (A, u32);

fn gen_nets(rng: &mut Rng) -> Vec<Net> {
    let mut nets: Vec<Net> = vec![];
    let target = match rng.below(10) {
        0 => 0,
        1 => 1,
        2 => 2,
        _ => rng.usize(3, 40),
    };
    let bases: Vec<A> = (0..3)
        .map(|_| if rng.chance(1, 2) { A::V4(rng.next_u64() as u32) } else { A::V6(((rng.next_u64() as u128) << 64) | rng.next_u64() as u128) })
        .collect();
    while nets.len() < target {
        let base = *rng.pick(&bases);
        let w = width(base);
        let m = pick_mask(rng, w);
        let fill = ((rng.next_u64() as u128) << 64) | rng.next_u64() as u128;
        match rng.below(12) {
            // a prefix of a base (so prefixes of the same base nest), host bits set or not
            0..=2 => nets.push((trunc(base, m, if rng.chance(1, 2) { fill } else { 0 }), m)),
            // the sibling: together with the prefix it covers the parent
            3 => {
                if m >= 1 {
                    let p = trunc(base, m, 0);
                    nets.push((p, m));
                    nets.push((with_bits(p, |x, w| x ^ (1u128 << (w - m))), m));
                }
            }
            // all 2^k children of a prefix (k = 1..4), or all but one: exercises the coverage sweep
            4..=6 => {
                let k = rng.usize(1, 4) as u32;
                if m + k <= w {
                    let p = trunc(base, m, 0);
                    let skip = if rng.chance(1, 2) { Some(rng.below(1 << k)) } else { None };
                    let mut kids: Vec<Net> = vec![];
                    for c in 0..(1u64 << k) {
                        if Some(c) == skip {
                            continue;
                        }
                        let child = with_bits(p, |x, w| x | ((c as u128) << (w - m - k)));
                        // sometimes split a child further (mixed lengths that still cover)
                        if m + k + 1 <= w && rng.chance(1, 5) {
                            kids.push((child, m + k + 1));
                            kids.push((with_bits(child, |x, w| x | (1u128 << (w - m - k - 1))), m + k + 1));
                        } else {
                            kids.push((child, m + k));
                        }
                    }
                    nets.extend(kids);
                }
            }
            // duplicate / same value, different length
            7 => {
                if let Some(&(a, mm)) = nets.last() {
                    // a mapped spelling only takes masks 96..=128
                    let other = match (a, canon(a)) {
                        (A::V6(_), A::V4(_)) => 96 + pick_mask(rng, 32),
                        _ => pick_mask(rng, width(a)),
                    };
                    nets.push((a, if rng.chance(1, 2) { mm } else { other }));
                }
            }
            // the IPv4-mapped spelling of an IPv4 subnet
            8 => {
                if let A::V4(x) = base {
                    let p = trunc(A::V4(x), m, 0);
                    if let A::V4(px) = p {
                        nets.push((A::V6(MAPPED | px as u128), 96 + m));
                    }
                }
            }
            // a neighbour: the prefix just after / before
            9 => {
                if m >= 1 {
                    let p = trunc(base, m, 0);
                    let step = |x: u128, w: u32| x.wrapping_add(1u128 << (w - m)) & low_mask(w);
                    nets.push((with_bits(p, step), m));
                }
            }
            _ => {
                let a = if rng.chance(1, 2) { A::V4(fill as u32) } else { A::V6(fill) };
                let mm = pick_mask(rng, width(a));
                nets.push((trunc(a, mm, 0), mm));
            }
        }
    }
    // shuffle
    for i in (1..nets.len()).rev() {
        let j = rng.usize(0, i);
        nets.swap(i, j);
    }
    nets
}

fn gen_filter_case(rng: &mut Rng, _idx: u64, _run: &Run) -> Vec<String> {
    let nets = gen_nets(rng);
    let mut ops = vec![format!(
        "cfg nets={}",
        common::comma_list(&nets.iter().map(|(a, m)| format!("{}/{}", enc(*a), m)).collect::<Vec<_>>())
    )];
    let mut addrs: Vec<A> = vec![];
    for _ in 0..50 {
        let fill = ((rng.next_u64() as u128) << 64) | rng.next_u64() as u128;
        let a = if nets.is_empty() || rng.chance(1, 6) {
            if rng.chance(1, 2) { A::V4(fill as u32) } else { A::V6(fill) }
        } else {
            let (n, m) = *rng.pick(&nets);
            // canonical form of the subnet, then its edges
            let (n, m) = match canon(n) {
                A::V4(x) if matches!(n, A::V6(_)) => (A::V4(x), m.saturating_sub(96)),
                c => (c, m),
            };
            let w = width(n);
            let lo = trunc(n, m, 0);
            let hi = trunc(n, m, u128::MAX);
            let a = match rng.below(7) {
                0 => lo,
                1 => hi,
                2 => with_bits(lo, |x, w| x.wrapping_sub(1) & low_mask(w)),
                3 => with_bits(hi, |x, w| x.wrapping_add(1) & low_mask(w)),
                4 => trunc(n, m, fill),
                // flip one bit inside the prefix
                5 => {
                    if m >= 1 {
                        let b = rng.below(m as u64) as u32;
                        with_bits(trunc(n, m, fill), |x, w| x ^ (1u128 << (w - 1 - b)))
                    } else {
                        trunc(n, m, fill)
                    }
                }
                // shared shorter prefix, rest random
                _ => trunc(n, rng.below(w as u64 + 1) as u32, fill),
            };
            // an IPv4 address is sometimes asked about in its mapped spelling
            match a {
                A::V4(x) if rng.chance(1, 4) => A::V6(MAPPED | x as u128),
                other => other,
            }
        };
        addrs.push(a);
    }
    for a in addrs {
        ops.push(format!("in a={}", enc(a)));
    }
    ops
}

fn exec_filter_case(ops: &[String], run: &mut Run) {
    let mut filter = IpFilter::new(&[]);
    // what the configuration says, canonicalised by the oracle's own rules
    let mut configured: Vec<(A, u32)> = vec![];
    let mut key = String::new();
    let (mut yes, mut no) = (0, 0);
    for op in ops {
        run.begin_op(op);
        let w: Vec<&str> = op.split_whitespace().collect();
        match w.first().copied() {
            Some("cfg") => {
                let mut subnets: Vec<IpSubnet> = vec![];
                configured.clear();
                let mut bad = false;
                let list = kv(&w, "nets").unwrap_or("-");
                if list != "-" {
                    for item in list.split(',') {
                        let (a, m) = item.split_once('/').expect("a/m");
                        let a = dec(a);
                        let m: u32 = m.parse().expect("mask");
                        let text = format!("{}/{}", to_ip(a), m);
                        match text.parse::<IpSubnet>() {
                            Ok(s) => subnets.push(s),
                            Err(_) => bad = true,
                        }
                        match (a, canon(a)) {
                            (A::V6(_), A::V4(x)) => configured.push((A::V4(x), m.wrapping_sub(96))),
                            _ => configured.push((a, m)),
                        }
                    }
                }
                if bad {
                    // (not produced by the generator) nothing is configured then
                    configured.clear();
                    filter = IpFilter::new(&[]);
                    run.end_op("err");
                    continue;
                }
                filter = IpFilter::new(&subnets);
                let n4 = subnets.iter().filter(|s| s.addr.is_ipv4()).count();
                key.push_str(&format!("{}/{};", n4, subnets.len() - n4));
                run.end_op(&format!("ok n4={} n6={}", n4, subnets.len() - n4));
            }
            Some("in") => {
                let a = dec(kv(&w, "a").expect("a"));
                let got = filter.is_in(to_ip(a));
                let want = configured.iter().any(|(n, m)| lies_in(*n, *m, canon(a)));
                if got != want {
                    run.oracle_fail(
                        if want { "listed_but_not_matched" } else { "matched_but_not_listed" },
                        "",
                        &format!("address {} ({}): is_in = {}, lies in a configured subnet = {}", to_ip(a), enc(a), got, want),
                    );
                }
                if got {
                    yes += 1;
                    run.hit("in");
                } else {
                    no += 1;
                    run.hit("out");
                }
                key.push(if got { '1' } else { '0' });
                run.end_op(if got { "1" } else { "0" });
            }
            _ => run.end_op("bad-op"),
        }
    }
    if yes > 0 && no > 0 {
        run.nontrivial(&key);
    }
}

// ------------------------------------------------------------------------------------ c31_parse

fn gen_parse_case(rng: &mut Rng, idx: u64, _run: &Run) -> Vec<String> {
    let mut ops = vec![];
    for k in 0..20u64 {
        let fill = ((rng.next_u64() as u128) << 64) | rng.next_u64() as u128;
        let a = match rng.below(4) {
            0 => A::V4(fill as u32),
            1 => A::V6(MAPPED | (fill as u32) as u128),
            2 => A::V6(fill),
            // near misses of the mapped range
            _ => A::V6(*rng.pick(&[0xfffe_0000_0000u128, 0x1_ffff_0000_0000, 0xffff_0000_0000 | (1u128 << 127), 0, 1]) | (fill as u32) as u128),
        };
        // every mask value gets its turn; boundaries more often
        let m: u32 = if rng.chance(1, 2) {
            ((idx * 20 + k) % 256) as u32
        } else {
            *rng.pick(&[0u32, 1, 31, 32, 33, 95, 96, 97, 127, 128, 129, 255])
        };
        match rng.below(12) {
            0 => ops.push(format!("parse s={}", to_ip(a))), // no slash
            1 => ops.push(format!("parse s={}/{}", to_ip(a), 256 + m)), // mask not a u8
            2 => ops.push(format!("parse s={}/-{}", to_ip(a), m)),
            3 => ops.push(format!("parse s={}x/{}", to_ip(a), m)), // address does not parse
            4 => ops.push(format!("parse s={}/{}/", to_ip(a), m)),
            _ => ops.push(format!("parse s={}/{}", to_ip(a), m)),
        }
    }
    ops
}

fn exec_parse_case(ops: &[String], run: &mut Run) {
    let mut key = String::new();
    let mut oks = 0;
    for op in ops {
        run.begin_op(op);
        let s = op.split_whitespace().find_map(|w| w.strip_prefix("s=")).expect("s=");
        let got = s.parse::<IpSubnet>();
        // what the model is told: how far std's parsers got
        let (model_in, want): (String, Result<(A, u32), &str>) = match s.split_once('/') {
            None => ("slash=0".to_string(), Err("Subnet")),
            Some((a, m)) => match a.parse::<IpAddr>() {
                Err(_) => ("slash=1 a=bad".to_string(), Err("Ip")),
                Ok(ip) => {
                    let a = match ip {
                        IpAddr::V4(x) => A::V4(u32::from(x)),
                        IpAddr::V6(x) => A::V6(u128::from(x)),
                    };
                    match m.parse::<u8>() {
                        Err(_) => (format!("slash=1 a={} m=bad", enc(a)), Err("Mask")),
                        Ok(m) => {
                            let m = m as u32;
                            // the property: the mask must fit the canonicalised family
                            let want = match (a, canon(a)) {
                                (A::V4(_), _) => if m <= 32 { Ok((a, m)) } else { Err("Mask") },
                                (A::V6(_), A::V4(x)) => {
                                    if m < 96 { Err("MaskV4Range") } else if m > 128 { Err("Mask") } else { Ok((A::V4(x), m - 96)) }
                                }
                                _ => if m <= 128 { Ok((a, m)) } else { Err("Mask") },
                            };
                            (format!("slash=1 a={} m={}", enc(a), m), want)
                        }
                    }
                }
            },
        };
        let obs = match &got {
            Ok(sn) => {
                let a = match sn.addr {
                    IpAddr::V4(x) => A::V4(u32::from(x)),
                    IpAddr::V6(x) => A::V6(u128::from(x)),
                };
                format!("ok {}/{}", enc(a), sn.mask)
            }
            Err(SubnetParseError::Subnet) => "err:Subnet".to_string(),
            Err(SubnetParseError::Ip(_)) => "err:Ip".to_string(),
            Err(SubnetParseError::Mask) => "err:Mask".to_string(),
            Err(SubnetParseError::MaskV4Range) => "err:MaskV4Range".to_string(),
        };
        let want_obs = match want {
            Ok((a, m)) => format!("ok {}/{}", enc(a), m),
            Err(e) => format!("err:{}", e),
        };
        if obs != want_obs {
            run.oracle_fail("parse_accepts_iff", "", &format!("{:?}: from_str gave {}, the mask rule requires {}", s, obs, want_obs));
        }
        if got.is_ok() {
            oks += 1;
        }
        run.hit(obs.split(' ').next().unwrap_or("?"));
        key.push_str(&obs[..obs.len().min(8)]);
        run.end_op_as(&format!("parse s={} {}", s, model_in), &obs);
    }
    if oks > 0 && oks < ops.len() {
        run.nontrivial(&key);
    }
}

#[test]
fn entry() {
    let stream = std::env::var("VERIF_STREAM").unwrap_or_default();
    match stream.as_str() {
        "c31_filter" => common::drive(
            "c31_filter",
            "subnet lists of 0-40 entries over 3 base addresses (nested prefixes, siblings, all / all-but-one of the 2^k children with mixed lengths, duplicates, neighbours, IPv4-mapped spellings; masks at nibble boundaries +-1, /0, /32, /128), written as strings and parsed by IpSubnet::from_str, IpFilter::new; 50 is_in queries per list at subnet edges +-1, inside, one prefix bit flipped, shared shorter prefix, mapped spelling; non-trivial = both answers occur; distinct by list sizes + answer string",
            gen_filter_case,
            exec_filter_case,
        ),
        "c31_parse" => common::drive(
            "c31_parse",
            "IpSubnet::from_str on IPv4 / IPv4-mapped / IPv6 / near-mapped addresses with every mask 0..=255 (cycled) and boundary masks, plus missing slash, non-u8 mask, negative mask, unparsable address, trailing slash; non-trivial = case has both accepted and rejected strings",
            gen_parse_case,
            exec_parse_case,
        ),
        other => panic!("unknown VERIF_STREAM {:?}", other),
    }
}
