//! verification harness module included into `ntp-proto/src/server.rs` (guarded hook).
