//! C05 harness, included into `ntp-proto/src/algorithm/mod.rs` (guarded hook): grandchild of
//! `crate::algorithm`, so it can build `TwoWaySourceControllerWrapper` / `OneWaySourceControllerWrapper`
//! around a recording inner controller exactly like the crate's own test does.
//!
//! Stream c05_wrapper: per case a short history of measurements fed to ONE two-way wrapper (`m`) and
//! one-way measurements (`ow`; `sock` = the GPSd/SOCK composition `time - from_seconds(offset)`).  Op lines carry the wire timestamps (`s=`, `r=`: what the code sees) and
//! the TRUE times on the unbounded timeline (`ts=`, `tr=`: only the oracle reads them; the model ignores
//! them).  Observation: what reached the inner controller.
#![allow(clippy::all, clippy::pedantic)]

#[path = "../common/mod.rs"]
mod common;

use super::super::*;
use common::{kv, Rng, Run};

struct Rec<D: Debug + Copy + Clone> {
    last: Option<InternalMeasurement<D>>,
    reply: bool,
}

impl<D: Debug + Copy + Clone + Send + 'static> InternalSourceController for Rec<D> {
    type ControllerMessage = ();
    type SourceMessage = ();
    type MeasurementDelay = D;

    fn handle_message(&mut self, _message: ()) {}

    fn handle_measurement(&mut self, measurement: InternalMeasurement<D>) -> Option<()> {
        self.last = Some(measurement);
        if self.reply {
            Some(())
        } else {
            None
        }
    }

    fn desired_poll_interval(&self) -> PollInterval {
        PollInterval::default()
    }

    fn observe(&self) -> ObservableSourceTimedata {
        ObservableSourceTimedata::default()
    }
}

const TWO64: i128 = 1i128 << 64;

fn in_i64(x: i128) -> bool {
    x >= i64::MIN as i128 && x <= i64::MAX as i128
}

/// a difference of true times, aimed at the decision boundaries of wrapping / saturation
fn gen_delta(rng: &mut Rng) -> i128 {
    let big = 1i128 << 63;
    match rng.below(24) {
        0 => 0,
        1 => 1,
        2 => -1,
        3 => 1i128 << 32,
        4 => -(1i128 << 32),
        5 => big - 1,
        6 => -big,
        7 => big, // not representable
        8 => -big - 1, // not representable
        9 => (1i128 << 62) + rng.range(-2, 2) as i128,
        10 => -(1i128 << 62) + rng.range(-2, 2) as i128,
        11 => big - 1 - rng.range(0, 1000) as i128,
        12 => -big + rng.range(0, 1000) as i128,
        13 => rng.next_u64() as i64 as i128, // anything representable
        14 => (rng.next_u64() as i64 as i128) / 2,
        15 | 16 => rng.range(-5, 5) as i128,
        17 => rng.range(-(1 << 40), 1 << 40) as i128, // up to ±256 s
        _ => rng.range(-(1 << 33), 1 << 33) as i128,   // up to ±2 s: the everyday case
    }
}

/// a true time: around era boundaries, era midpoints, or anywhere in eras −2..3
fn gen_time(rng: &mut Rng) -> i128 {
    let era = rng.range(-2, 3) as i128;
    let within: i128 = match rng.below(8) {
        0 => rng.range(-4, 4) as i128,                       // right at the era boundary
        1 => (1i128 << 63) + rng.range(-4, 4) as i128,       // era midpoint
        2 => (1i128 << 32) * rng.range(-3, 3) as i128,
        _ => rng.next_u64() as i128,
    };
    era * TWO64 + within
}

fn wire(t: i128) -> u64 {
    t as u64
}

/// seconds values for the one-way SOCK path, aimed at the decision boundaries of `from_seconds`:
/// the fraction `x - floor(x)` rounding to exactly 1.0 (tiny negatives), +-2^-33 / +-2^-32 (half a unit / one
/// unit), neighbours of integers, signed zero, the +-2^31 s saturation limits, and ordinary offsets.
fn gen_seconds(rng: &mut Rng) -> f64 {
    let nb = |x: f64, d: i64| f64::from_bits((x.to_bits() as i64 + d) as u64);
    let v = match rng.below(24) {
        0 => 1e-17,
        1 => 1e-16,
        2 => 1.1102230246251565e-16, // 2^-53: largest magnitude whose negative still rounds the fraction to 1.0
        3 => 2.220446049250313e-16,  // 2^-52
        4 => 1.1641532182693481e-10, // 2^-33
        5 => 2.3283064365386963e-10, // 2^-32
        6 => 2.3283064370807974e-10, // 1 / (2^32 - 1)
        7 => f64::from_bits(1),      // smallest subnormal
        8 => f64::MIN_POSITIVE,
        9 => 0.0,
        10 => nb(rng.range(1, 5) as f64, -1), // just below an integer
        11 => nb(rng.range(1, 5) as f64, 1),  // just above an integer
        12 => rng.range(-5, 5) as f64,
        13 => rng.range(-5, 5) as f64 + 0.5,
        14 => nb(2147483648.0, -1),           // just inside +-2^31 s
        15 => 2147483647.0 + rng.f64_unit(),
        16 => f64::from_bits(rng.next_u64() & 0x3fff_ffff_ffff_ffff) * 1e-300, // tiny, random mantissa
        17 => rng.f64_unit() * 1.2e-16,
        18 => rng.f64_unit() * 1e-9,
        19 => rng.f64_unit() * 1e-3,
        20 => 10f64.powi(rng.range(-20, 9) as i32) * (0.5 + rng.f64_unit()),
        _ => rng.f64_unit() * 4.0,
    };
    let v = if v.is_finite() { v } else { 0.0 };
    if rng.chance(1, 2) { -v } else { v }
}

/// floor(x * 2^(32+16)) for finite |x| < 2^31, exactly (x = mant * 2^exp)
fn scaled_floor(x: f64) -> i128 {
    let bits = x.to_bits();
    let neg = bits >> 63 == 1;
    let e = ((bits >> 52) & 0x7ff) as i32;
    let frac = bits & ((1u64 << 52) - 1);
    let (mant, exp) = if e == 0 { (frac, -1074) } else { (frac | (1u64 << 52), e - 1075) };
    let sh = exp + 48; // value * 2^48 = mant * 2^sh
    let mag = mant as i128;
    if sh >= 0 {
        let v = mag << sh; // |x| < 2^31 => < 2^79
        return if neg { -v } else { v };
    }
    let k = (-sh) as u32;
    let (q, rem) = if k >= 64 { (0i128, mag != 0) } else { (mag >> k, mag & ((1i128 << k) - 1) != 0) };
    if !neg {
        q
    } else if rem {
        -q - 1
    } else {
        -q
    }
}

fn sock_line(t: i128, x: f64) -> String {
    format!("sock sys=0 s=0 r={} x={}", wire(t), common::f64hex(x))
}

fn m_line(sys: bool, ts: i128, tr: i128) -> String {
    format!("m sys={} s={} r={} ts={} tr={}", sys as u8, wire(ts), wire(tr), ts, tr)
}

fn gen_case(rng: &mut Rng, idx: u64, _run: &Run) -> Vec<String> {
    // corpus first: the crate's own three quadruples, era-wrap witnesses, saturation corners
    let corpus: [[i128; 4]; 8] = [
        [0, 1, 2, 3],
        [0, 2, 3, 3],
        [0, 0, 5, 3],
        [TWO64 - 5, TWO64 + 3, TWO64 + 4, TWO64 + 1],
        [-1, 0, 0, -1],
        [0, (1 << 63) - 1, (1 << 63) - 1, 0],
        [0, 1 << 62, 0, (1 << 63) - 1],
        [10, 8, 9, 10],
    ];
    if (idx as usize) < corpus.len() {
        let [t1, t2, t3, t4] = corpus[idx as usize];
        return vec![m_line(true, t1, t2), m_line(false, t3, t4)];
    }
    // one-way SOCK corpus: offsets whose fraction rounds to 1.0, half units, neighbours of integers
    let sock_corpus: [f64; 12] = [
        -1e-17, 1e-17, -1e-16, -1.1102230246251565e-16, -1.1641532182693481e-10, 1.1641532182693481e-10,
        -2.3283064365386963e-10, -0.0, -0.9999999999999999, 0.9999999999999999, -1.0000000000000002, 0.25,
    ];
    if (idx as usize) < corpus.len() + sock_corpus.len() {
        return vec![sock_line((1i128 << 63) + 12345, sock_corpus[idx as usize - corpus.len()])];
    }
    let mut ops = vec![];
    let n = rng.usize(1, 4);
    for _ in 0..n {
        match rng.below(10) {
            0 => {
                // one-way: remote (sender) vs local (receiver)
                let loc = gen_time(rng);
                let remote = loc + gen_delta(rng);
                ops.push(format!("ow sys={} s={} r={} ts={} tr={}", rng.below(2), wire(remote), wire(loc), remote, loc));
            }
            2 | 3 => {
                // one-way through the SOCK composition: sender_ts = time - from_seconds(sample.offset)
                let t = gen_time(rng);
                ops.push(sock_line(t, gen_seconds(rng)));
            }
            1 => {
                // history noise: an incoming without outgoing, or two outgoing in a row
                let t = gen_time(rng);
                let u = t + gen_delta(rng);
                ops.push(m_line(rng.chance(1, 2), t, u));
            }
            _ => {
                let t1 = gen_time(rng);
                let t2 = t1 + gen_delta(rng);
                let t3 = t2 + if rng.chance(3, 4) { rng.range(0, 1 << 24) as i128 } else { gen_delta(rng) };
                let t4 = if rng.chance(1, 2) { t1 + gen_delta(rng) } else { t3 + gen_delta(rng) };
                ops.push(m_line(true, t1, t2));
                ops.push(m_line(false, t3, t4));
            }
        }
    }
    ops
}

fn measurement(sys: bool, s: u64, r: u64, rng_byte: u8) -> Measurement {
    Measurement {
        sender_id: if sys { ClockId::SYSTEM } else { ClockId(1) },
        receiver_id: if sys { ClockId(1) } else { ClockId::SYSTEM },
        sender_ts: NtpTimestamp::from_fixed_int(s),
        receiver_ts: NtpTimestamp::from_fixed_int(r),
        root_delay: NtpDuration::from_fixed_int(rng_byte as i64),
        root_dispersion: NtpDuration::from_fixed_int(2 * rng_byte as i64),
        leap: NtpLeapIndicator::NoWarning,
        precision: -20,
    }
}

trait ToI64 {
    fn to_bits_i64(self) -> i64;
}
impl ToI64 for NtpDuration {
    fn to_bits_i64(self) -> i64 {
        // NtpDuration's raw field is private to `time_types`; adding it to timestamp 0 (a wrapping add of
        // the raw i64) and reading the timestamp's bits back gives the exact integer.
        let ts = NtpTimestamp::from_fixed_int(0) + self;
        u64::from_be_bytes(ts.to_bits()) as i64
    }
}

fn exec_case(ops: &[String], run: &mut Run) {
    let (tx, _rx) = tokio::sync::mpsc::unbounded_channel();
    let mut two = TwoWaySourceControllerWrapper {
        id: ClockId(1),
        inner: Arc::new(Mutex::new(Rec::<NtpDuration> { last: None, reply: false })),
        last_outgoing_measurement: None,
        messages_for_system: tx,
    };
    let (tx1, _rx1) = tokio::sync::mpsc::unbounded_channel();
    let mut one = OneWaySourceControllerWrapper {
        id: ClockId(2),
        inner: Arc::new(Mutex::new(Rec::<()> { last: None, reply: true })),
        messages_for_system: tx1,
    };
    // oracle state: the true times of the pending outgoing measurement, if the previous op was one
    let mut pending_true: Option<(i128, i128)> = None;
    let mut key = String::new();
    let mut interesting = false;
    for (k, op) in ops.iter().enumerate() {
        run.begin_op(op);
        let w: Vec<&str> = op.split_whitespace().collect();
        let sys = kv(&w, "sys").map(|v| v == "1").unwrap_or(false);
        let s: u64 = match kv(&w, "s").and_then(|v| v.parse().ok()) {
            Some(v) => v,
            None => {
                run.end_op("bad-op");
                continue;
            }
        };
        let r: u64 = match kv(&w, "r").and_then(|v| v.parse().ok()) {
            Some(v) => v,
            None => {
                run.end_op("bad-op");
                continue;
            }
        };
        let ts: Option<i128> = kv(&w, "ts").and_then(|v| v.parse().ok());
        let tr: Option<i128> = kv(&w, "tr").and_then(|v| v.parse().ok());
        match w[0] {
            "m" => {
                two.inner.lock().unwrap().last = None;
                two.inner.lock().unwrap().reply = k % 2 == 0;
                two.handle_measurement(measurement(sys, s, r, k as u8));
                let got = two.inner.lock().unwrap().last;
                if sys {
                    pending_true = ts.zip(tr);
                    run.hit("outgoing");
                    run.end_op(if got.is_none() { "stored" } else { "delivered-on-outgoing" });
                    continue;
                }
                match got {
                    None => {
                        pending_true = None;
                        run.hit("incoming-dropped");
                        run.end_op("dropped");
                    }
                    Some(m) => {
                        let off = m.offset.to_bits_i64();
                        let delay = m.delay.to_bits_i64();
                        let local = u64::from_be_bytes(m.localtime.to_bits());
                        // ---- oracle: the property on the true times
                        if let (Some((t1, t2)), Some(t3), Some(t4)) = (pending_true, ts, tr) {
                            let d21 = t2 - t1;
                            let d34 = t3 - t4;
                            let d41 = t4 - t1;
                            let d32 = t3 - t2;
                            let sum = d21 + d34;
                            let dly = d41 - d32;
                            if in_i64(d21) && in_i64(d34) && in_i64(d41) && in_i64(d32) && in_i64(sum) && in_i64(dly) {
                                interesting = true;
                                let era_cross = (t1.div_euclid(TWO64) != t4.div_euclid(TWO64))
                                    || (t1.div_euclid(TWO64) != t2.div_euclid(TWO64));
                                run.hit(if era_cross { "twoway-representable-era-crossing" } else { "twoway-representable" });
                                key.push_str(&format!("{}:{}:{};", sum.signum(), dly.signum(), era_cross as u8));
                                if (2 * off as i128 - sum).abs() > 1 || (off as i128).abs() > (sum.abs() + 1) / 2 {
                                    run.oracle_fail("offset_formula", "", &format!(
                                        "t1={} t2={} t3={} t4={}: offset {} but ((t2-t1)+(t3-t4))/2 = {}/2", t1, t2, t3, t4, off, sum));
                                }
                                if delay as i128 != dly {
                                    run.oracle_fail("delay_formula", "", &format!(
                                        "t1={} t2={} t3={} t4={}: delay {} but (t4-t1)-(t3-t2) = {}", t1, t2, t3, t4, delay, dly));
                                }
                                if local != wire(t4) {
                                    run.oracle_fail("localtime", "", &format!("localtime {} but T4 = {}", local, wire(t4)));
                                }
                            } else {
                                run.hit("twoway-not-representable");
                            }
                        }
                        pending_true = None;
                        run.end_op(&format!("delivered off={} delay={} local={}", off, delay, local));
                    }
                }
            }
            "ow" => {
                one.inner.lock().unwrap().last = None;
                one.handle_measurement(measurement(sys, s, r, k as u8));
                let got = one.inner.lock().unwrap().last;
                match got {
                    None => run.end_op("dropped"),
                    Some(m) => {
                        let off = m.offset.to_bits_i64();
                        let local = u64::from_be_bytes(m.localtime.to_bits());
                        if let (Some(remote), Some(loc)) = (ts, tr) {
                            if in_i64(remote - loc) {
                                interesting = true;
                                run.hit("oneway-representable");
                                key.push_str(&format!("o{};", (remote - loc).signum()));
                                if off as i128 != remote - loc {
                                    run.oracle_fail("oneway_offset", "", &format!(
                                        "remote={} local={}: offset {} but remote-local = {}", remote, loc, off, remote - loc));
                                }
                            } else {
                                run.hit("oneway-not-representable");
                            }
                        }
                        run.end_op(&format!("delivered off={} delay=- local={}", off, local));
                    }
                }
            }
            "sock" => {
                // the GPSd/SOCK run loop (ntpd/src/daemon/sock_source.rs): the sample's offset is local - reference;
                // the measurement it hands to the one-way wrapper is {sender_ts: time - from_seconds(offset),
                // receiver_ts: time}.  Same expression here, same wrapper.
                let x = match kv(&w, "x").and_then(common::f64unhex) {
                    Some(x) if x.is_finite() => x,
                    _ => {
                        run.end_op("bad-op");
                        continue;
                    }
                };
                let time = NtpTimestamp::from_fixed_int(r);
                let mut m = measurement(false, 0, r, k as u8);
                m.sender_ts = time - NtpDuration::from_seconds(x);
                one.inner.lock().unwrap().last = None;
                one.handle_measurement(m);
                let got = one.inner.lock().unwrap().last;
                match got {
                    None => run.end_op("dropped"),
                    Some(m) => {
                        let off = m.offset.to_bits_i64();
                        let local = u64::from_be_bytes(m.localtime.to_bits());
                        if x.abs() < 2147483648.0 {
                            // oracle (implementation only): remote - local = -offset_sample, to within 2^-31 s
                            // (two units; 2^-16 unit of slack for the roundings inside from_seconds), exactly
                            interesting = true;
                            run.hit(if x < 0.0 { "sock-negative" } else { "sock-nonnegative" });
                            if x != 0.0 && x.abs() < 1.2e-16 {
                                run.hit("sock-fraction-rounds-to-one-region");
                            }
                            key.push_str("s;");
                            let sum = ((off as i128) << 16) + scaled_floor(x); // (off + x*2^32) * 2^16, floored
                            if sum < -(2 << 16) - 1 || sum > (2 << 16) + 1 {
                                run.oracle_fail("oneway_sock_offset", "", &format!(
                                    "SOCK sample offset {:e} s (local - reference) at local time {}: one-way offset (remote - local) reported as {} units = {:e} s, expected {:e} s within 2^-31 s",
                                    x, r, off, off as f64 / 4294967296.0, -x));
                            }
                            if (x > 0.0 && off > 0) || (x < 0.0 && off < 0) {
                                run.oracle_fail("oneway_sock_sign", "", &format!(
                                    "SOCK sample offset {:e} s: one-way offset {} units has the sign of the sample (must be the opposite)", x, off));
                            }
                        } else {
                            run.hit("sock-saturating");
                        }
                        if local != r {
                            run.oracle_fail("localtime", "", &format!("localtime {} but receive time {}", local, r));
                        }
                        run.end_op(&format!("delivered off={} delay=- local={}", off, local));
                    }
                }
            }
            _ => run.end_op("bad-op"),
        }
    }
    if interesting {
        // distinct by the exact op text: timestamps are 64-bit random, so collisions mean a degenerate generator
        run.nontrivial(&format!("{}|{}", key, ops.join("|")));
    }
}

#[test]
fn entry() {
    let stream = std::env::var("VERIF_STREAM").unwrap_or_default();
    match stream.as_str() {
        "c05_wrapper" => common::drive(
            "c05_wrapper",
            "histories of 1-8 measurements on a TwoWaySourceControllerWrapper / OneWaySourceControllerWrapper around a recording inner controller; true times in eras -2..3 at era boundaries/midpoints, differences at 0, ±1, ±2^32, ±2^62, ±2^63 and random; one-way SOCK samples (20% of ops) with offsets at ±1e-17, ±2^-53, ±2^-33, ±2^-32, neighbours of integers, ±0, ±2^31 and random magnitudes 1e-20..1e9; non-trivial = at least one delivered measurement whose true differences are representable (oracle applied); distinct by op text",
            gen_case,
            exec_case,
        ),
        other => panic!("unknown VERIF_STREAM {:?}", other),
    }
}
