//! verification harness module of the `ntske` cluster (C28, C29, C30), included into
//! `ntp-proto/src/nts/mod.rs` (guarded hook `verif_nts`).  Grandchild of `crate::nts`, so it sees the
//! private modules `messages` / `record` and the private items of `nts` itself.
//!
//! Streams (selected with VERIF_STREAM):
//!   c30_rec   — `NtsRecord::parse` on grammar-generated, perturbed and random byte streams; the parsed
//!               record is re-serialised; consumed byte counts are observed (also on errors)
//!   c30_req   — `Request::parse` on generated request record sequences (valid, duplicated, forbidden,
//!               unknown-critical records, wrong key sizes, padding across the 4096-byte cap, up to 70 kB)
//!   c30_resp  — `KeyExchangeResponse::parse`, same
#![allow(clippy::all, clippy::pedantic)]

#[path = "../common/mod.rs"]
mod common;

use super::super::messages::{KeyExchangeResponse, Request};
use super::super::record::NtsRecord;
use super::super::*;
use common::{hex, unhex, Rng, Run};
use std::future::Future;
use std::pin::pin;
use std::task::{Context, Poll, Waker};

// ------------------------------------------------------------------ canonical text

/// poll a future that never needs to wait (in-memory reader / writer) to completion
fn now<F: Future>(f: F) -> F::Output {
    match pin!(f).poll(&mut Context::from_waker(Waker::noop())) {
        Poll::Ready(v) => v,
        Poll::Pending => panic!("future pending on an in-memory stream"),
    }
}

fn proto_str(p: &NextProtocol) -> String {
    match p {
        NextProtocol::NTPv4 => "v4".into(),
        NextProtocol::DraftNTPv5 => "v5".into(),
        NextProtocol::Unknown(v) => format!("u{}", v),
    }
}

fn aead_str(a: &AeadAlgorithm) -> String {
    match a {
        AeadAlgorithm::AeadAesSivCmac256 => "a256".into(),
        AeadAlgorithm::AeadAesSivCmac512 => "a512".into(),
        AeadAlgorithm::Unknown(v) => format!("u{}", v),
    }
}

fn errcode_str(e: &ErrorCode) -> String {
    match e {
        ErrorCode::UnrecognizedCriticalRecord => "crit".into(),
        ErrorCode::BadRequest => "bad".into(),
        ErrorCode::InternalServerError => "ise".into(),
        ErrorCode::Unknown(v) => format!("u{}", v),
    }
}

fn clist(xs: Vec<String>) -> String {
    if xs.is_empty() {
        "-".into()
    } else {
        xs.join(",")
    }
}

fn bytes_list<'a>(xs: impl Iterator<Item = &'a [u8]>) -> String {
    format!("[{}]", xs.map(hex).collect::<Vec<_>>().join(","))
}

fn record_str(r: &NtsRecord) -> String {
    match r {
        NtsRecord::EndOfMessage => "EndOfMessage".into(),
        NtsRecord::NextProtocol { protocol_ids } => {
            format!("NextProtocol({})", clist(protocol_ids.iter().map(proto_str).collect()))
        }
        NtsRecord::Error { errorcode } => format!("Error({})", errcode_str(errorcode)),
        NtsRecord::Warning { warningcode } => match warningcode {
            WarningCode::Unknown(v) => format!("Warning({})", v),
        },
        NtsRecord::AeadAlgorithm { algorithm_ids } => {
            format!("AeadAlgorithm({})", clist(algorithm_ids.iter().map(aead_str).collect()))
        }
        NtsRecord::NewCookie { cookie_data } => format!("NewCookie({})", hex(cookie_data)),
        NtsRecord::Server { name } => format!("Server({})", hex(name.as_bytes())),
        NtsRecord::Port { port } => format!("Port({})", port),
        NtsRecord::Unknown { record_type, critical, data } => {
            format!("Unknown({},{},{})", record_type, *critical as u8, hex(data))
        }
        NtsRecord::KeepAlive => "KeepAlive".into(),
        NtsRecord::SupportedNextProtocolList { supported_protocols } => format!(
            "SupportedNextProtocolList({})",
            clist(supported_protocols.iter().map(proto_str).collect())
        ),
        NtsRecord::SupportedAlgorithmList { supported_algorithms } => format!(
            "SupportedAlgorithmList({})",
            clist(
                supported_algorithms
                    .iter()
                    .map(|d| format!("{}:{}", aead_str(&d.id), d.keysize))
                    .collect()
            )
        ),
        NtsRecord::FixedKeyRequest { c2s, s2c } => format!("FixedKeyRequest({},{})", hex(c2s), hex(s2c)),
        NtsRecord::NtpServerDeny { denied } => format!("NtpServerDeny({})", hex(denied.as_bytes())),
        NtsRecord::Authentication { key } => format!("Authentication({})", hex(key.as_bytes())),
    }
}

fn record_kind(r: &NtsRecord) -> &'static str {
    match r {
        NtsRecord::EndOfMessage => "EndOfMessage",
        NtsRecord::NextProtocol { .. } => "NextProtocol",
        NtsRecord::Error { .. } => "Error",
        NtsRecord::Warning { .. } => "Warning",
        NtsRecord::AeadAlgorithm { .. } => "AeadAlgorithm",
        NtsRecord::NewCookie { .. } => "NewCookie",
        NtsRecord::Server { .. } => "Server",
        NtsRecord::Port { .. } => "Port",
        NtsRecord::Unknown { .. } => "Unknown",
        NtsRecord::KeepAlive => "KeepAlive",
        NtsRecord::SupportedNextProtocolList { .. } => "SupportedNextProtocolList",
        NtsRecord::SupportedAlgorithmList { .. } => "SupportedAlgorithmList",
        NtsRecord::FixedKeyRequest { .. } => "FixedKeyRequest",
        NtsRecord::NtpServerDeny { .. } => "NtpServerDeny",
        NtsRecord::Authentication { .. } => "Authentication",
    }
}

fn io_err_str(e: &std::io::Error) -> String {
    match e.kind() {
        std::io::ErrorKind::UnexpectedEof => "IO:UnexpectedEof".into(),
        std::io::ErrorKind::InvalidData => "IO:InvalidData".into(),
        k => format!("IO:Other({:?})", k),
    }
}

pub(super) fn nts_err_str(e: &NtsError) -> String {
    match e {
        NtsError::IO(e) => io_err_str(e),
        NtsError::Tls(_) => "Tls".into(),
        NtsError::Dns(_) => "Dns".into(),
        NtsError::UnrecognizedCriticalRecord => "UnrecognizedCriticalRecord".into(),
        NtsError::Invalid => "Invalid".into(),
        NtsError::NoCookie => "NoCookie".into(),
        NtsError::NoOverlappingProtocol => "NoOverlappingProtocol".into(),
        NtsError::NoOverlappingAlgorithm => "NoOverlappingAlgorithm".into(),
        NtsError::UnknownWarning(c) => format!("UnknownWarning({})", c),
        NtsError::Error(c) => format!("Error({})", errcode_str(c)),
        NtsError::AeadNotSupported(v) => format!("AeadNotSupported({})", v),
        NtsError::IncorrectSizedKey => "IncorrectSizedKey".into(),
        NtsError::NotPermitted => "NotPermitted".into(),
    }
}

fn b01(b: bool) -> u8 {
    b as u8
}

fn request_str(r: &Request) -> String {
    match r {
        Request::KeyExchange { algorithms, protocols, denied_servers } => format!(
            "KeyExchange(a={};p={};deny={})",
            clist(algorithms.iter().map(aead_str).collect()),
            clist(protocols.iter().map(proto_str).collect()),
            bytes_list(denied_servers.iter().map(|d| d.as_bytes()))
        ),
        Request::FixedKey { authentication, c2s_key, s2c_key, algorithm, protocol, keep_alive } => format!(
            "FixedKey(auth={};c2s={};s2c={};a={};p={};ka={})",
            hex(authentication.as_bytes()),
            hex(c2s_key.key_bytes()),
            hex(s2c_key.key_bytes()),
            aead_str(algorithm),
            proto_str(protocol),
            b01(*keep_alive)
        ),
        Request::Support { authentication, wants_protocols, wants_algorithms, keep_alive } => format!(
            "Support(auth={};wp={};wa={};ka={})",
            hex(authentication.as_bytes()),
            b01(*wants_protocols),
            b01(*wants_algorithms),
            b01(*keep_alive)
        ),
    }
}

fn request_kind(r: &Request) -> &'static str {
    match r {
        Request::KeyExchange { .. } => "KeyExchange",
        Request::FixedKey { .. } => "FixedKey",
        Request::Support { .. } => "Support",
    }
}

fn response_str(r: &KeyExchangeResponse) -> String {
    format!(
        "Response(p={};a={};cookies={};server={};port={};ka={})",
        proto_str(&r.protocol),
        aead_str(&r.algorithm),
        bytes_list(r.cookies.iter().map(|c| c.as_ref())),
        r.server.as_ref().map(|s| hex(s.as_bytes())).unwrap_or("none".into()),
        r.port.map(|p| p.to_string()).unwrap_or("none".into()),
        b01(r.keep_alive)
    )
}

// ------------------------------------------------------------------ byte-level builders / generators

const MAX_MESSAGE: usize = 4096; // literal of the property text

fn raw_record(ty: u16, size: u16, body: &[u8]) -> Vec<u8> {
    let mut v = Vec::with_capacity(4 + body.len());
    v.extend_from_slice(&ty.to_be_bytes());
    v.extend_from_slice(&size.to_be_bytes());
    v.extend_from_slice(body);
    v
}

fn rec(ty: u16, body: &[u8]) -> Vec<u8> {
    raw_record(ty, body.len() as u16, body)
}

fn u16s(xs: &[u16]) -> Vec<u8> {
    xs.iter().flat_map(|x| x.to_be_bytes()).collect()
}

/// boundary values of the numeric fields: the default NTP port and its neighbours, the NTS-KE port, the ends of
/// the u16 range
const PORT_BOUNDARIES: [u16; 7] = [0, 1, 122, 123, 124, 4460, 65535];
/// error / warning codes: the three assigned error codes, the first unassigned one, the ends of the range
const CODE_BOUNDARIES: [u16; 7] = [0, 1, 2, 3, 0x7fff, 0x8000, 0xffff];
/// key sizes advertised in a SupportedAlgorithmList record
const KEYSIZE_BOUNDARIES: [u16; 8] = [0, 1, 16, 31, 32, 33, 64, 65535];

fn gen_port(rng: &mut Rng) -> u16 {
    if rng.chance(3, 4) {
        *rng.pick(&PORT_BOUNDARIES[..])
    } else {
        rng.next_u64() as u16
    }
}

fn gen_id(rng: &mut Rng) -> u16 {
    match rng.below(10) {
        0 | 1 => 0,
        2 | 3 => 0x8001,
        4 => 15,
        5 => 17,
        6 => *rng.pick(&[1u16, 2, 3, 0x8000, 0x7fff, 0xffff, 16, 14, 18]),
        _ => rng.next_u64() as u16,
    }
}

fn gen_string(rng: &mut Rng) -> Vec<u8> {
    let pieces: [&[u8]; 14] = [
        b"a", b"ntp", b".example.com", b"token", "é".as_bytes(), "€".as_bytes(), "😀".as_bytes(),
        "\u{7ff}".as_bytes(), "\u{800}".as_bytes(), "\u{ffff}".as_bytes(), "\u{10000}".as_bytes(),
        "\u{10ffff}".as_bytes(), "\u{d7ff}".as_bytes(), b"\0",
    ];
    let bad: [&[u8]; 12] = [
        &[0xff], &[0x80], &[0xc0, 0x80], &[0xc1, 0xbf], &[0xed, 0xa0, 0x80], &[0xed, 0xbf, 0xbf],
        &[0xf4, 0x90, 0x80, 0x80], &[0xf5, 0x80, 0x80, 0x80], &[0xe2, 0x82], &[0xf0, 0x9f, 0x98],
        &[0xe0, 0x80, 0x80], &[0xf0, 0x80, 0x80, 0x80],
    ];
    let n = match rng.below(8) {
        0 => 0,
        1 => 1,
        _ => rng.usize(1, 6),
    };
    let mut s = vec![];
    for _ in 0..n {
        s.extend_from_slice(*rng.pick(&pieces[..]));
    }
    if rng.chance(1, 6) {
        let at = rng.usize(0, s.len());
        let b: &[u8] = *rng.pick(&bad[..]);
        s.splice(at..at, b.iter().copied());
    }
    if rng.chance(1, 300) {
        // long names (the body is read through `read_to_string`'s internal buffering)
        let reps = rng.usize(10, 400);
        let unit = s.clone();
        for _ in 0..reps {
            s.extend_from_slice(&unit);
        }
        s.truncate(65535);
    }
    s
}

fn gen_len(rng: &mut Rng) -> usize {
    // large bodies are rare: the op lines carry the bytes in hex and the run's files must stay small
    match rng.below(600) {
        0 => 65535,
        1 => 65534,
        2 | 3 => rng.usize(4000, 4200),
        4..=7 => 1024 + rng.usize(0, 2),
        8..=13 => 511,
        14..=19 => 512,
        20..=25 => 513,
        26..=50 => 0,
        51..=75 => 1,
        76..=100 => 2,
        101..=125 => 3,
        126..=200 => rng.usize(100, 300),
        _ => rng.usize(4, 120),
    }
}

const KINDS: [u16; 19] = [0, 1, 2, 3, 4, 5, 6, 7, 8, 9, 10, 12, 13, 14, 11, 15, 16, 100, 0x7fff];

/// a well-formed body for a record of type `ty`
fn gen_body(rng: &mut Rng, ty: u16) -> Vec<u8> {
    match ty {
        0 | 8 => {
            if rng.chance(3, 4) {
                vec![]
            } else {
                let n = gen_len(rng);
                rng.bytes(n)
            }
        }
        1 | 4 | 9 => {
            let k = match rng.below(12) {
                0 => 0,
                1..=5 => 1,
                6..=8 => 2,
                9 => 3,
                10 => rng.usize(4, 9),
                _ => {
                    if rng.chance(1, 8) {
                        rng.usize(100, 700)
                    } else {
                        rng.usize(1, 3)
                    }
                }
            };
            let ids: Vec<u16> = (0..k).map(|_| gen_id(rng)).collect();
            u16s(&ids)
        }
        2 | 3 => {
            let v = if rng.chance(3, 4) { *rng.pick(&CODE_BOUNDARIES[..]) } else { rng.next_u64() as u16 };
            u16s(&[v])
        }
        7 => u16s(&[gen_port(rng)]),
        6 | 13 | 14 => gen_string(rng),
        10 => {
            let k = rng.usize(0, 4);
            let mut v = vec![];
            for _ in 0..k {
                v.extend(u16s(&[gen_id(rng), *rng.pick(&KEYSIZE_BOUNDARIES[..])]));
            }
            v
        }
        12 => {
            let n = *rng.pick(&[32usize, 64, 32, 64, 0, 1, 16, 33, 63, 128]);
            rng.bytes(2 * n)
        }
        _ => {
            let n = gen_len(rng);
            rng.bytes(n)
        }
    }
}

/// one serialised record, possibly with a perturbed header
fn gen_record_bytes(rng: &mut Rng, perturb: bool) -> Vec<u8> {
    let ty = *rng.pick(&KINDS);
    let mut body = gen_body(rng, ty);
    body.truncate(65535);
    let canonical_critical = !matches!(ty, 5 | 8 | 13 | 14 | 11 | 15 | 16 | 100 | 0x7fff);
    let critical = if rng.chance(1, 5) { !canonical_critical } else { canonical_critical };
    let tyword = ty | if critical { 0x8000 } else { 0 };
    let mut size = body.len() as u16;
    if perturb {
        match rng.below(8) {
            0 => size = size.wrapping_add(1),
            1 => size = size.wrapping_sub(1),
            2 => size = 0,
            3 => size = 0xffff,
            4 => size = rng.next_u64() as u16,
            5 => {
                // odd / shifted body
                if rng.chance(1, 2) {
                    body.push(rng.next_u64() as u8);
                } else {
                    body.pop();
                }
                size = body.len() as u16;
            }
            _ => {}
        }
    }
    raw_record(tyword, size, &body)
}

fn mangle(rng: &mut Rng, mut bytes: Vec<u8>) -> Vec<u8> {
    match rng.below(6) {
        0 => {
            let n = rng.usize(0, bytes.len());
            bytes.truncate(n);
        }
        1 => {
            if !bytes.is_empty() {
                let i = rng.usize(0, bytes.len() - 1);
                bytes[i] ^= 1 << rng.below(8);
            }
        }
        2 => {
            let n = rng.usize(1, 8);
            bytes.extend(rng.bytes(n));
        }
        3 => {
            // cut inside the header
            let n = rng.usize(0, 4.min(bytes.len()));
            bytes.truncate(n);
        }
        4 => {
            if bytes.len() > 4 {
                let i = rng.usize(0, 3);
                bytes[i] = rng.next_u64() as u8;
            }
        }
        _ => {
            if !bytes.is_empty() {
                let n = bytes.len() - 1;
                bytes.truncate(n);
            }
        }
    }
    bytes
}

/// fixed corpus: the byte vectors of the project's own unit tests and the boundary cases of the model
fn record_corpus() -> Vec<Vec<u8>> {
    vec![
        vec![0, 0, 0, 0],
        vec![0x80, 0, 0, 0],
        vec![0x80, 0, 0, 3, 1, 2, 3],
        vec![0x80, 0, 0, 3],
        vec![0, 1, 0, 2, 0, 0],
        vec![0, 1, 0, 3, 0, 0, 0],
        vec![0x80, 1, 0, 4, 0x80, 1, 0, 0],
        vec![0x80, 2, 0, 2, 0, 1],
        vec![0x80, 2, 0, 3, 0, 1, 0],
        vec![0x80, 2, 0, 1, 0],
        vec![0x80, 3, 0, 2, 0, 1],
        vec![0x80, 4, 0, 2, 0, 15],
        vec![0, 5, 0, 2, 1, 2],
        vec![0, 5, 0, 3, 1, 2],
        vec![0x80, 6, 0, 2, b'h', b'i'],
        vec![0x80, 6, 0, 2, 0xc3, 0x28],
        vec![0x80, 6, 0, 3, 0xc3, 0x28],
        vec![0x80, 6, 0, 3, b'h', b'i'],
        vec![0x80, 7, 0, 2, 0, 123],
        vec![0, 8, 0, 0],
        vec![0x80, 9, 0, 2, 0, 0],
        vec![0x80, 10, 0, 4, 0, 15, 0, 32],
        vec![0x80, 10, 0, 6, 0, 15, 0, 32, 0, 17],
        vec![0x80, 12, 0, 4, 1, 2, 3, 4],
        vec![0x80, 12, 0, 5, 1, 2, 3, 4, 5],
        vec![0x80, 12, 0, 1, 1],
        vec![0x80, 12, 0, 0],
        vec![0, 13, 0, 1, b'a'],
        vec![0, 14, 0, 1, b'a'],
        vec![0, 11, 0, 1, 9],
        vec![0x80, 11, 0, 1, 9],
        vec![0xff, 0xff, 0, 0],
        vec![],
        vec![0],
        vec![0, 0],
        vec![0, 0, 0],
    ]
    .into_iter()
    .chain(PORT_BOUNDARIES.iter().map(|p| rec(0x8007, &u16s(&[*p]))))
    .chain(CODE_BOUNDARIES.iter().map(|c| rec(0x8002, &u16s(&[*c]))))
    .chain(CODE_BOUNDARIES.iter().map(|c| rec(0x8003, &u16s(&[*c]))))
    .chain(KEYSIZE_BOUNDARIES.iter().map(|k| rec(0x800a, &u16s(&[15, *k, 0xffff, *k]))))
    .chain([rec(0x8006, &[]), rec(13, &[]), rec(14, &[]), rec(5, &[]), rec(0x800c, &[]), rec(0x8001, &u16s(&[0, 0xffff, 0x8001])), rec(0x8004, &u16s(&[0, 0xffff, 15, 17]))])
    .collect()
}

fn gen_rec_case(rng: &mut Rng, idx: u64, _run: &Run) -> Vec<String> {
    let corpus = record_corpus();
    if (idx as usize) < corpus.len() {
        return vec![format!("rec {}", hex(&corpus[idx as usize]))];
    }
    let n = rng.usize(1, 3);
    let mut ops = vec![];
    for _ in 0..n {
        let bytes = match rng.below(10) {
            0 => {
                let n = rng.usize(0, 24);
                rng.bytes(n)
            }
            1 | 2 | 3 => gen_record_bytes(rng, true),
            4 => {
                let b = gen_record_bytes(rng, false);
                mangle(rng, b)
            }
            5 => {
                let mut b = gen_record_bytes(rng, false);
                b.extend(gen_record_bytes(rng, false));
                b
            }
            _ => gen_record_bytes(rng, false),
        };
        ops.push(format!("rec {}", hex(&bytes)));
    }
    ops
}

// ---- messages

fn key_len(alg: u16) -> usize {
    match alg {
        15 => 32,
        17 => 64,
        _ => 32,
    }
}

fn gen_ignored_for_request(rng: &mut Rng) -> Vec<u8> {
    match rng.below(4) {
        0 => rec(0x8006, &gen_string_valid(rng)),
        1 => rec(0x8007, &u16s(&[gen_port(rng)])),
        2 => rec(*rng.pick(&[11u16, 15, 100, 0x7fff]), &{
            let n = rng.usize(0, 20);
            rng.bytes(n)
        }),
        _ => rec(5 | 0x8000, &rng.bytes(3)), // a critical-flagged NewCookie: forbidden in a request
    }
}

fn gen_string_valid(rng: &mut Rng) -> Vec<u8> {
    loop {
        let s = gen_string(rng);
        if std::str::from_utf8(&s).is_ok() && s.len() < 300 {
            return s;
        }
    }
}

fn gen_request_records(rng: &mut Rng) -> Vec<Vec<u8>> {
    let mut recs: Vec<Vec<u8>> = vec![];
    match rng.below(3) {
        0 => {
            // KeyExchange
            let np = match rng.below(8) {
                0 => 0,
                1..=4 => 1,
                5 | 6 => 2,
                _ => rng.usize(3, 6),
            };
            let protos: Vec<u16> = (0..np).map(|_| gen_id(rng)).collect();
            let na = match rng.below(8) {
                0 => 0,
                1..=3 => 1,
                4..=6 => 2,
                _ => rng.usize(3, 6),
            };
            let algs: Vec<u16> = (0..na).map(|_| gen_id(rng)).collect();
            recs.push(rec(0x8001, &u16s(&protos)));
            recs.push(rec(0x8004, &u16s(&algs)));
            for _ in 0..(if rng.chance(1, 3) { rng.usize(1, 4) } else { 0 }) {
                recs.push(rec(13, &gen_string_valid(rng)));
            }
        }
        1 => {
            // FixedKey
            let alg = *rng.pick(&[15u16, 17, 15, 17, 15, 17, 16, 0]);
            let klen = key_len(alg);
            let (l1, l2) = match rng.below(8) {
                0 => (klen - 1, klen + 1), // total right, split wrong is impossible: parser halves
                1 => (klen + 1, klen + 1),
                2 => (96 - klen, 96 - klen), // the other algorithm's size
                _ => (klen, klen),
            };
            let mut keys = rng.bytes(l1);
            keys.extend(rng.bytes(l2));
            recs.push(rec(14, &gen_string_valid(rng)));
            recs.push(rec(0x800c, &keys));
            let protos: Vec<u16> = match rng.below(8) {
                0 => vec![],
                1 => vec![gen_id(rng), gen_id(rng)],
                _ => vec![gen_id(rng)],
            };
            recs.push(rec(0x8001, &u16s(&protos)));
            let algs: Vec<u16> = match rng.below(8) {
                0 => vec![],
                1 => vec![alg, gen_id(rng)],
                _ => vec![alg],
            };
            recs.push(rec(0x8004, &u16s(&algs)));
            if rng.chance(1, 2) {
                recs.push(rec(8, &[]));
            }
        }
        _ => {
            // Support
            recs.push(rec(14, &gen_string_valid(rng)));
            let which = rng.below(4);
            if which != 1 {
                let body = if rng.chance(1, 4) { u16s(&[0, 0x8001]) } else { vec![] };
                recs.push(rec(0x8009, &body));
            }
            if which != 2 {
                let body = if rng.chance(1, 4) { u16s(&[15, 32]) } else { vec![] };
                recs.push(rec(0x800a, &body));
            }
            if rng.chance(1, 2) {
                recs.push(rec(8, &[]));
            }
        }
    }
    recs
}

fn gen_response_records(rng: &mut Rng) -> Vec<Vec<u8>> {
    let mut recs: Vec<Vec<u8>> = vec![];
    let protos: Vec<u16> = match rng.below(10) {
        0 => vec![],
        1 => vec![gen_id(rng), gen_id(rng)],
        _ => vec![gen_id(rng)],
    };
    recs.push(rec(0x8001, &u16s(&protos)));
    let algs: Vec<u16> = match rng.below(10) {
        0 => vec![],
        1 => vec![gen_id(rng), gen_id(rng)],
        _ => vec![gen_id(rng)],
    };
    recs.push(rec(0x8004, &u16s(&algs)));
    let nc = match rng.below(8) {
        0 => 0,
        1 => 1,
        2 => 7,
        3 => 9,
        4 => rng.usize(10, 14),
        _ => 8,
    };
    for _ in 0..nc {
        let l = match rng.below(6) {
            0 => 0,
            1 => rng.usize(1, 8),
            _ => 100 + rng.usize(0, 8),
        };
        recs.push(rec(5, &rng.bytes(l)));
    }
    match rng.below(6) {
        0 => recs.push(rec(0x8006, &[])), // present but empty is not the same value as absent
        1 => recs.push(rec(0x8006, b"localhost")),
        2 => recs.push(rec(0x8006, &gen_string_valid(rng))),
        _ => {}
    }
    if rng.chance(1, 2) {
        recs.push(rec(0x8007, &u16s(&[gen_port(rng)])));
    }
    if rng.chance(1, 3) {
        recs.push(rec(8, &[]));
    }
    recs
}

/// message = records (perturbed) ++ EndOfMessage, optionally padded so that the message end falls
/// around the 4096-byte cap, optionally followed by trailing bytes
fn assemble_message(rng: &mut Rng, mut recs: Vec<Vec<u8>>, is_request: bool) -> Vec<u8> {
    // structural perturbations
    for _ in 0..(match rng.below(10) {
        0..=4 => 0,
        5..=7 => 1,
        _ => 2,
    }) {
        match rng.below(9) {
            0 => {
                if !recs.is_empty() {
                    let i = rng.usize(0, recs.len() - 1);
                    let r = recs[i].clone();
                    let j = rng.usize(0, recs.len());
                    recs.insert(j, r); // duplicate
                }
            }
            1 => {
                if !recs.is_empty() {
                    let i = rng.usize(0, recs.len() - 1);
                    recs.remove(i); // drop
                }
            }
            2 => {
                // a record that is not allowed in this kind of message
                let r = if is_request {
                    match rng.below(3) {
                        0 => rec(0x8002, &u16s(&[rng.below(4) as u16])),
                        1 => rec(0x8003, &u16s(&[rng.below(4) as u16])),
                        _ => rec(5, &rng.bytes(8)),
                    }
                } else {
                    match rng.below(6) {
                        0 => rec(0x8002, &u16s(&[rng.below(4) as u16])),
                        1 => rec(0x8003, &u16s(&[rng.below(4) as u16])),
                        2 => rec(13, b"x"),
                        3 => rec(0x800c, &rng.bytes(64)),
                        4 => rec(0x8009, &[]),
                        _ => rec(0x800a, &[]),
                    }
                };
                let j = rng.usize(0, recs.len());
                recs.insert(j, r);
            }
            3 => {
                // unknown critical
                let r = rec(0x8000 | *rng.pick(&[11u16, 15, 100, 0x7fff]), &rng.bytes(2));
                let j = rng.usize(0, recs.len());
                recs.insert(j, r);
            }
            4 => {
                // ignored record
                let r = if is_request {
                    gen_ignored_for_request(rng)
                } else {
                    match rng.below(2) {
                        0 => rec(14, b"tok"),
                        _ => rec(*rng.pick(&[11u16, 15, 100]), &rng.bytes(5)),
                    }
                };
                let j = rng.usize(0, recs.len());
                recs.insert(j, r);
            }
            5 => {
                // shuffle
                for i in (1..recs.len()).rev() {
                    let j = rng.usize(0, i);
                    recs.swap(i, j);
                }
            }
            6 => {
                // a perturbed / arbitrary record somewhere
                let r = gen_record_bytes(rng, true);
                let j = rng.usize(0, recs.len());
                recs.insert(j, r);
            }
            7 => {
                // early end of message
                let j = rng.usize(0, recs.len());
                recs.insert(j, rec(0x8000, &[]));
            }
            _ => {
                // KeepAlive twice / with body
                let j = rng.usize(0, recs.len());
                recs.insert(j, rec(8, &rng.bytes(2)));
            }
        }
    }
    let eom = if rng.chance(1, 8) { rec(0x8000, &rng.bytes(3)) } else { rec(0x8000, &[]) };
    let body_len: usize = recs.iter().map(|r| r.len()).sum::<usize>() + eom.len();
    // padding across the cap: make the message end at 4096 + delta
    if rng.chance(1, 5) && body_len + 4 <= MAX_MESSAGE + 8 {
        let delta = *rng.pick(&[-5i64, -4, -1, 0, 0, 1, 2, 3, 4, 5, 8, 100]);
        let target = (MAX_MESSAGE as i64 + delta) as usize;
        if target >= body_len + 4 {
            let mut pad = target - body_len;
            // ignorable padding records (non-critical unknown type 100), at most 65535 bytes each
            let mut pads = vec![];
            if rng.chance(1, 2) && pad >= 8 {
                let first = rng.usize(4, pad - 4);
                pads.push(rec(100, &vec![0xaa; first - 4]));
                pad -= first;
            }
            pads.push(rec(100, &vec![0xbb; pad - 4]));
            let j = rng.usize(0, recs.len());
            for p in pads {
                recs.insert(j, p);
            }
        }
    } else if rng.chance(1, 150) {
        // a huge ignorable record: the parser must stop at the cap
        let n = *rng.pick(&[4092usize, 4093, 5000, 65535, 30000]);
        let j = rng.usize(0, recs.len());
        recs.insert(j, rec(100, &vec![0xcc; n]));
    }
    let mut msg: Vec<u8> = recs.concat();
    if !rng.chance(1, 12) {
        msg.extend(eom);
    }
    match rng.below(12) {
        0 => msg = mangle(rng, msg),
        1 => {
            let n = rng.usize(1, 40);
            msg.extend(rng.bytes(n));
        }
        2 => {
            if rng.chance(1, 40) {
                let n = rng.usize(60000, 70000);
                msg.extend(rng.bytes(n));
            }
        }
        _ => {}
    }
    msg
}

fn request_corpus() -> Vec<Vec<u8>> {
    let mut v = vec![
        vec![0x80, 4, 0, 2, 0, 15, 0x80, 1, 0, 2, 0, 0, 0x80, 0, 0, 0],
        vec![0x80, 1, 0, 4, 0x80, 1, 0, 0, 0x80, 4, 0, 2, 0, 17, 0x80, 0, 0, 0],
        vec![0x80, 1, 0, 2, 0, 0, 0x80, 0, 0, 0],
        vec![0x80, 0, 0, 0],
        vec![],
    ];
    let msg = |recs: Vec<Vec<u8>>| {
        let mut m = recs.concat();
        m.extend(rec(0x8000, &[]));
        m
    };
    // default-looking / boundary values of every field a request keeps
    // key exchange: empty lists, empty and default-looking denied names, ids at the ends of the range
    v.push(msg(vec![rec(0x8001, &[]), rec(0x8004, &[])]));
    v.push(msg(vec![rec(0x8001, &u16s(&[0, 0xffff, 0x8001, 0x8000, 0x7fff])), rec(0x8004, &u16s(&[0, 15, 17, 16, 0xffff]))]));
    v.push(msg(vec![rec(0x8001, &u16s(&[0])), rec(0x8004, &u16s(&[15])), rec(13, &[]), rec(13, b"localhost"), rec(13, &[])]));
    // fixed key: empty token, both algorithms, keep-alive absent / present, protocol ids 0 / unknown
    for (alg, klen) in [(15u16, 32usize), (17, 64)] {
        for ka in [false, true] {
            let mut r = vec![rec(14, &[]), rec(0x800c, &vec![0u8; 2 * klen]), rec(0x8001, &u16s(&[if ka { 0xffff } else { 0 }])), rec(0x8004, &u16s(&[alg]))];
            if ka {
                r.push(rec(8, &[]));
            }
            v.push(msg(r));
        }
    }
    // support: every combination of the three flags, empty token
    for bits in 1..8u8 {
        let mut r = vec![rec(14, if bits & 4 != 0 { &b"hi"[..] } else { &[][..] })];
        if bits & 1 != 0 {
            r.push(rec(0x8009, &[]));
        }
        if bits & 2 != 0 {
            r.push(rec(0x800a, &[]));
        }
        if bits & 4 != 0 {
            r.push(rec(8, &[]));
        }
        if bits & 3 != 0 {
            v.push(msg(r));
        }
    }
    // ignored records carrying boundary values
    for p in PORT_BOUNDARIES {
        v.push(msg(vec![rec(0x8001, &u16s(&[0])), rec(0x8007, &u16s(&[p])), rec(0x8004, &u16s(&[15]))]));
    }
    v
}

fn response_corpus() -> Vec<Vec<u8>> {
    let mut v = vec![
        vec![0x80, 1, 0, 2, 0, 0, 0x80, 4, 0, 2, 0, 15, 0, 5, 0, 2, 1, 2, 0x80, 0, 0, 0],
        vec![0x80, 1, 0, 2, 0x80, 1, 0x80, 4, 0, 2, 0, 17, 0x80, 0, 0, 0],
        vec![0x80, 1, 0, 0, 0x80, 0, 0, 0],
        vec![0x80, 1, 0, 2, 0, 0, 0x80, 4, 0, 0, 0x80, 0, 0, 0],
        vec![0x80, 2, 0, 2, 0, 1, 0x80, 0, 0, 0],
        vec![0x80, 3, 0, 2, 0, 1, 0x80, 0, 0, 0],
    ];
    let msg = |recs: Vec<Vec<u8>>| {
        let mut m = recs.concat();
        m.extend(rec(0x8000, &[]));
        m
    };
    let head = || vec![rec(0x8001, &u16s(&[0])), rec(0x8004, &u16s(&[15])), rec(5, &[1, 2, 3])];
    // every boundary value of the port field (123 = the default a client assumes when the record is absent),
    // alone and together with a server name
    for p in PORT_BOUNDARIES {
        let mut r = head();
        r.push(rec(0x8007, &u16s(&[p])));
        v.push(msg(r));
        let mut r = head();
        r.push(rec(0x8006, b"localhost"));
        r.push(rec(0x8007, &u16s(&[p])));
        r.push(rec(8, &[]));
        v.push(msg(r));
    }
    // server name: absent, present but empty, default-looking
    v.push(msg(head()));
    let mut r = head();
    r.push(rec(0x8006, &[]));
    v.push(msg(r));
    let mut r = head();
    r.push(rec(0x8006, b"localhost"));
    v.push(msg(r));
    // cookies: none, empty ones, exactly 8, 9 (the ninth is dropped); ids at the ends of the range
    v.push(msg(vec![rec(0x8001, &u16s(&[0xffff])), rec(0x8004, &u16s(&[0]))]));
    v.push(msg(vec![rec(0x8001, &u16s(&[0x8001])), rec(0x8004, &u16s(&[0xffff])), rec(5, &[]), rec(5, &[])]));
    for n in [8usize, 9] {
        let mut r = vec![rec(0x8001, &u16s(&[0])), rec(0x8004, &u16s(&[17]))];
        for i in 0..n {
            r.push(rec(5, &[i as u8]));
        }
        v.push(msg(r));
    }
    // error / warning codes
    for c in CODE_BOUNDARIES {
        v.push(msg(vec![rec(0x8002, &u16s(&[c]))]));
        v.push(msg(vec![rec(0x8003, &u16s(&[c]))]));
    }
    v
}

fn gen_msg_case(rng: &mut Rng, idx: u64, is_request: bool) -> Vec<String> {
    let op = if is_request { "req" } else { "resp" };
    let corpus = if is_request { request_corpus() } else { response_corpus() };
    if (idx as usize) < corpus.len() {
        return vec![format!("{} {}", op, hex(&corpus[idx as usize]))];
    }
    let bytes = if rng.chance(1, 40) {
        let n = rng.usize(0, 64);
        rng.bytes(n)
    } else {
        let recs = if is_request { gen_request_records(rng) } else { gen_response_records(rng) };
        assemble_message(rng, recs, is_request)
    };
    vec![format!("{} {}", op, hex(&bytes))]
}

// ------------------------------------------------------------------ executing ops against the real code

fn parse_record_counted(data: &[u8]) -> (Result<NtsRecord<'static>, std::io::Error>, usize) {
    let mut rd: &[u8] = data;
    let r = now(NtsRecord::parse(&mut rd));
    (r, data.len() - rd.len())
}

fn parse_request_counted(data: &[u8]) -> (Result<Request<'static>, NtsError>, usize) {
    let mut rd: &[u8] = data;
    let r = now(Request::parse(&mut rd));
    (r, data.len() - rd.len())
}

fn parse_response_counted(data: &[u8]) -> (Result<KeyExchangeResponse<'static>, NtsError>, usize) {
    let mut rd: &[u8] = data;
    let r = now(KeyExchangeResponse::parse(&mut rd));
    (r, data.len() - rd.len())
}

fn exec_rec(data: &[u8], run: &mut Run) -> String {
    let (r, used) = parse_record_counted(data);
    if used > data.len() || used > 4 + 65535 {
        run.oracle_fail("bounded", "what=record", &format!("record parse consumed {} bytes", used));
    }
    match r {
        Err(e) => {
            run.hit(&format!("rec-err-{}", io_err_str(&e)));
            format!("err:{} used={}", io_err_str(&e), used)
        }
        Ok(record) => {
            run.hit(&format!("rec-ok-{}", record_kind(&record)));
            let text = record_str(&record);
            let mut ser = vec![];
            let sres = now(record.serialize(&mut ser));
            let ser_txt = match sres {
                Ok(()) => {
                    // the property: what the parser accepted re-serialises to bytes that parse back to
                    // the same value
                    let (again, used2) = parse_record_counted(&ser);
                    match again {
                        Ok(r2) if r2 == record && used2 == ser.len() => {
                            let mut ser2 = vec![];
                            let _ = now(r2.serialize(&mut ser2));
                            if ser2 != ser {
                                run.oracle_fail("roundtrip", "what=record", &format!("second serialisation differs for {}", text));
                            }
                        }
                        Ok(r2) => run.oracle_fail(
                            "roundtrip",
                            "what=record",
                            &format!("{} re-serialised to {} which parses to {} (used {})", text, hex(&ser), record_str(&r2), used2),
                        ),
                        Err(e) => run.oracle_fail(
                            "roundtrip",
                            "what=record",
                            &format!("{} re-serialised to {} which fails to parse: {}", text, hex(&ser), io_err_str(&e)),
                        ),
                    }
                    hex(&ser)
                }
                Err(e) => {
                    run.oracle_fail("roundtrip", "what=record", &format!("{} does not serialise: {:?}", text, e.kind()));
                    "none".to_string()
                }
            };
            let key = match &record {
                NtsRecord::Unknown { record_type, critical, data } => format!("U{}{}{}", record_type, critical, data.len()),
                _ => {
                    if text.len() > 80 {
                        format!("{}#{}", record_kind(&record), text.len())
                    } else {
                        text.clone()
                    }
                }
            };
            run.nontrivial(&key);
            format!("ok {} used={} ser={}", text, used, ser_txt)
        }
    }
}

fn exec_req(data: &[u8], run: &mut Run) -> String {
    let (r, used) = parse_request_counted(data);
    if used > MAX_MESSAGE || used > data.len() {
        run.oracle_fail("bounded", "what=request", &format!("request parse consumed {} bytes of {}", used, data.len()));
    }
    if data.len() > MAX_MESSAGE {
        run.hit("req-input-over-cap");
    }
    match r {
        Err(e) => {
            run.hit(&format!("req-err-{}", nts_err_str(&e).split('(').next().unwrap()));
            format!("err:{} used={}", nts_err_str(&e), used)
        }
        Ok(request) => {
            run.hit(&format!("req-ok-{}", request_kind(&request)));
            if used > MAX_MESSAGE - 8 {
                run.hit("req-ok-near-cap");
            }
            let text = request_str(&request);
            let mut ser = vec![];
            let sres = now(request.serialize(&mut ser));
            let ser_txt = match sres {
                Ok(()) => {
                    let (again, used2) = parse_request_counted(&ser);
                    match again {
                        Ok(r2) if request_str(&r2) == text && used2 == ser.len() => {
                            let mut ser2 = vec![];
                            let _ = now(r2.serialize(&mut ser2));
                            if ser2 != ser {
                                run.oracle_fail("roundtrip", "what=request", &format!("second serialisation differs for {}", text));
                            }
                        }
                        Ok(r2) => run.oracle_fail(
                            "roundtrip",
                            "what=request",
                            &format!("{} re-serialised to {} bytes which parse to {} (used {})", text, ser.len(), request_str(&r2), used2),
                        ),
                        Err(e) => run.oracle_fail(
                            "roundtrip",
                            "what=request",
                            &format!("{} re-serialised to {} bytes which fail to parse: {}", text, ser.len(), nts_err_str(&e)),
                        ),
                    }
                    hex(&ser)
                }
                Err(e) => {
                    run.oracle_fail("roundtrip", "what=request", &format!("{} does not serialise: {:?}", text, e.kind()));
                    "none".to_string()
                }
            };
            run.nontrivial(&text);
            format!("ok {} used={} ser={}", text, used, ser_txt)
        }
    }
}

fn exec_resp(data: &[u8], run: &mut Run) -> String {
    let (r, used) = parse_response_counted(data);
    if used > MAX_MESSAGE || used > data.len() {
        run.oracle_fail("bounded", "what=response", &format!("response parse consumed {} bytes of {}", used, data.len()));
    }
    if data.len() > MAX_MESSAGE {
        run.hit("resp-input-over-cap");
    }
    match r {
        Err(e) => {
            run.hit(&format!("resp-err-{}", nts_err_str(&e).split('(').next().unwrap()));
            format!("err:{} used={}", nts_err_str(&e), used)
        }
        Ok(response) => {
            run.hit("resp-ok");
            if used > MAX_MESSAGE - 8 {
                run.hit("resp-ok-near-cap");
            }
            let text = response_str(&response);
            let mut ser = vec![];
            let sres = now(response.serialize(&mut ser));
            let ser_txt = match sres {
                Ok(()) => {
                    let (again, used2) = parse_response_counted(&ser);
                    match again {
                        Ok(r2) if response_str(&r2) == text && used2 == ser.len() => {
                            let mut ser2 = vec![];
                            let _ = now(r2.serialize(&mut ser2));
                            if ser2 != ser {
                                run.oracle_fail("roundtrip", "what=response", &format!("second serialisation differs for {}", text));
                            }
                        }
                        Ok(r2) => run.oracle_fail(
                            "roundtrip",
                            "what=response",
                            &format!("{} re-serialised to {} bytes which parse to {} (used {})", text, ser.len(), response_str(&r2), used2),
                        ),
                        Err(e) => run.oracle_fail(
                            "roundtrip",
                            "what=response",
                            &format!("{} re-serialised to {} bytes which fail to parse: {}", text, ser.len(), nts_err_str(&e)),
                        ),
                    }
                    hex(&ser)
                }
                Err(e) => {
                    run.oracle_fail("roundtrip", "what=response", &format!("{} does not serialise: {:?}", text, e.kind()));
                    "none".to_string()
                }
            };
            let key = if text.len() > 120 { format!("{}#{}", &text[..60], common_fnv(&text)) } else { text.clone() };
            run.nontrivial(&key);
            format!("ok {} used={} ser={}", text, used, ser_txt)
        }
    }
}

fn common_fnv(s: &str) -> u64 {
    let mut h: u64 = 0xcbf2_9ce4_8422_2325;
    for b in s.bytes() {
        h = (h ^ b as u64).wrapping_mul(0x0100_0000_01B3);
    }
    h
}

fn exec_c30_case(ops: &[String], run: &mut Run) {
    for op in ops {
        run.begin_op(op);
        let w: Vec<&str> = op.split_whitespace().collect();
        let obs = match w.as_slice() {
            ["rec", h] => exec_rec(&unhex(h).expect("hex"), run),
            ["req", h] => exec_req(&unhex(h).expect("hex"), run),
            ["resp", h] => exec_resp(&unhex(h).expect("hex"), run),
            _ => "bad-op".to_string(),
        };
        run.end_op(&obs);
    }
}

// =====================================================================================================
// C28 / C29: the real KeyExchangeServer / KeyExchangeClient over TLS on tokio::io::duplex, against a raw
// (scripted) TLS peer that sends arbitrary bytes inside the session and uses the session's exporter itself
// =====================================================================================================

use std::sync::Arc;
use tokio::io::AsyncReadExt as _;

const CA: &[u8] = include_bytes!("../../../repo/ntp-proto/test-keys/testca.pem");
const CHAIN: &[u8] = include_bytes!("../../../repo/ntp-proto/test-keys/end.fullchain.pem");
const KEY: &[u8] = include_bytes!("../../../repo/ntp-proto/test-keys/end.key");

fn runtime() -> tokio::runtime::Runtime {
    tokio::runtime::Builder::new_current_thread()
        .enable_time()
        .start_paused(true)
        .build()
        .expect("runtime")
}

fn ca_certs() -> Arc<[Certificate]> {
    tls_utils::pemfile::certs(&mut &CA[..]).collect::<Result<Arc<_>, _>>().unwrap()
}

fn chain_and_key() -> (Vec<Certificate>, PrivateKey) {
    (
        tls_utils::pemfile::certs(&mut &CHAIN[..]).collect::<Result<Vec<_>, _>>().unwrap(),
        tls_utils::pemfile::private_key(&mut &KEY[..]).unwrap(),
    )
}

/// a plain rustls client (no NTS-KE logic): lets the harness write arbitrary request bytes
fn raw_connector() -> TlsConnector {
    let builder = tls_utils::client_config_builder_with_protocol_versions(&[&TLS13]);
    let verifier = tls_utils::PlatformVerifier::new_with_extra_roots(ca_certs().iter().cloned())
        .unwrap()
        .with_provider(builder.crypto_provider().clone());
    let mut cfg = builder
        .dangerous()
        .with_custom_certificate_verifier(Arc::new(verifier))
        .with_no_client_auth();
    cfg.alpn_protocols = vec![b"ntske/1".to_vec()];
    TlsConnector::from(Arc::new(cfg))
}

/// a plain rustls server (no NTS-KE logic): lets the harness answer with arbitrary response bytes
fn raw_acceptor() -> TlsAcceptor {
    let (chain, key) = chain_and_key();
    let mut cfg = tls_utils::server_config_builder_with_protocol_versions(&[&TLS13])
        .with_no_client_auth()
        .with_single_cert(chain, key)
        .unwrap();
    cfg.alpn_protocols = vec![b"ntske/1".to_vec()];
    TlsAcceptor::from(Arc::new(cfg))
}

/// the harness' own statement of RFC 8915 §5.1 key export (independent of `NtsKeys`)
fn export_pair<D>(conn: &tls_utils::ConnectionCommon<D>, proto: u16, alg: u16) -> Option<(Vec<u8>, Vec<u8>)> {
    let len = match alg {
        15 => 32,
        17 => 64,
        _ => return None,
    };
    let mut out = vec![];
    for dir in [0u8, 1u8] {
        let ctx = [(proto >> 8) as u8, proto as u8, (alg >> 8) as u8, alg as u8, dir];
        let mut key = vec![0u8; len];
        conn.export_keying_material(&mut key[..], b"EXPORTER-network-time-security", Some(&ctx)).ok()?;
        out.push(key);
    }
    let s2c = out.pop().unwrap();
    let c2s = out.pop().unwrap();
    Some((c2s, s2c))
}

fn proto_id(p: &NextProtocol) -> u16 {
    u16::from(*p)
}

fn parse_hex_list(s: &str) -> Vec<Vec<u8>> {
    // "[aa,bb,-]" -> byte strings
    let inner = s.trim_start_matches('[').trim_end_matches(']');
    if inner.is_empty() {
        return vec![];
    }
    inner.split(',').map(|h| unhex(h).expect("hex")).collect()
}

struct SrvCfg {
    tokens: Vec<Vec<u8>>,
    versions: Vec<NtpVersion>,
    server: Option<Vec<u8>>,
    port: Option<u16>,
}

fn parse_cfg(words: &[&str]) -> SrvCfg {
    let tokens = parse_hex_list(common::kv(words, "tokens").unwrap_or("[]"));
    let versions = match common::kv(words, "versions").unwrap_or("-") {
        "-" => vec![],
        v => v
            .split(',')
            .map(|x| match x {
                "v3" => NtpVersion::V3,
                "v4" => NtpVersion::V4,
                _ => NtpVersion::V5,
            })
            .collect(),
    };
    let server = match common::kv(words, "server").unwrap_or("none") {
        "none" => None,
        h => Some(unhex(h).expect("hex")),
    };
    let port = match common::kv(words, "port").unwrap_or("none") {
        "none" => None,
        n => Some(n.parse().expect("port")),
    };
    SrvCfg { tokens, versions, server, port }
}

/// the server's cookie key set: `test` = `KeySet::new()`, otherwise `<id_offset>:<primary>:<len>:<rotations>` =
/// a key file with that header (deterministic key bytes) restored through the real load path
/// `KeySetProvider::load` (history 2) and then rotated `rotations` times — so key ids that wrap around u32
/// (id_offset near u32::MAX) reach `encode_cookie` / `decode_cookie` exactly as after a daemon restart
fn build_keyset(spec: &str) -> Arc<KeySet> {
    if spec == "test" {
        return Arc::new(KeySet::new());
    }
    let f: Vec<u64> = spec.split(':').map(|x| x.parse().expect("ks field")).collect();
    let (id_offset, primary, len, rotations) = (f[0] as u32, f[1] as u32, f[2] as u32, f[3]);
    let mut file = vec![];
    file.extend_from_slice(&1_700_000_000u64.to_be_bytes());
    file.extend_from_slice(&id_offset.to_be_bytes());
    file.extend_from_slice(&primary.to_be_bytes());
    file.extend_from_slice(&len.to_be_bytes());
    for k in 0..len {
        file.extend((0..64u32).map(|i| (k * 67 + i * 3 + 1) as u8));
    }
    let (mut provider, _time) =
        crate::keyset::KeySetProvider::load(&mut &file[..], 2).expect("key file loads");
    for _ in 0..rotations {
        provider.rotate();
    }
    provider.get()
}

/// key-set specs: id offsets at the boundaries of u32 (0, 1, 2^31, u32::MAX-2 .. u32::MAX) x primary x length
fn gen_keyset_spec(rng: &mut Rng) -> String {
    let off = *rng.pick(&[0u32, 1, 0x7fff_ffff, 0x8000_0000, u32::MAX - 2, u32::MAX - 1, u32::MAX, u32::MAX, u32::MAX - 1]);
    let len = rng.usize(1, 4) as u32;
    let primary = if rng.chance(2, 3) { len - 1 } else { rng.below(len as u64) as u32 };
    let rotations = match rng.below(4) {
        0 => rng.usize(1, 4),
        _ => 0,
    };
    format!("{}:{}:{}:{}", off, primary, len, rotations)
}

fn build_server(cfg: &SrvCfg) -> KeyExchangeServer {
    let (certificate_chain, private_key) = chain_and_key();
    KeyExchangeServer::new(NtsServerConfig {
        certificate_chain,
        private_key,
        accepted_versions: cfg.versions.clone(),
        server: cfg.server.as_ref().map(|s| String::from_utf8(s.clone()).expect("utf8 server name")),
        port: cfg.port,
        pool_authentication_tokens: cfg.tokens.iter().map(|t| String::from_utf8(t.clone()).expect("utf8 token")).collect(),
    })
    .expect("server")
}

/// what the raw client saw of one response message
struct Seen {
    items: Vec<String>,
    cookies: Vec<(AeadAlgorithm, Vec<u8>, Vec<u8>)>,
    records: Vec<String>, // kinds, for the oracle
    complete: bool,       // ended with EndOfMessage
    end: &'static str,    // clean | abrupt | open | stall
}

const STEP: std::time::Duration = std::time::Duration::from_secs(5);

/// read records until EndOfMessage / EOF; cookies are decoded with the server's key set
async fn read_message<S: tokio::io::AsyncRead + Unpin>(tls: &mut S, keyset: &KeySet) -> Seen {
    let mut seen = Seen { items: vec![], cookies: vec![], records: vec![], complete: false, end: "open" };
    loop {
        match tokio::time::timeout(STEP, NtsRecord::parse(&mut *tls)).await {
            Err(_) => {
                seen.end = "stall";
                return seen;
            }
            Ok(Err(e)) => {
                // nothing (more) to read: how did the stream end?
                // nothing (more) to read: how did the stream end?  A clean TLS close gives a plain EOF
                // (read_u16 -> UnexpectedEof "early eof"), a dropped transport gives rustls' "peer closed
                // connection without sending TLS close_notify" (same kind) — told apart by the message
                seen.end = if e.to_string().contains("close_notify") { "abrupt" } else { "clean" };
                return seen;
            }
            Ok(Ok(rec)) => {
                seen.records.push(record_kind(&rec).to_string());
                match &rec {
                    NtsRecord::NewCookie { cookie_data } => match keyset.decode_cookie(cookie_data) {
                        Ok(d) => {
                            seen.items.push(format!(
                                "Cookie({},{},{})",
                                aead_str(&d.algorithm),
                                hex(d.c2s.key_bytes()),
                                hex(d.s2c.key_bytes())
                            ));
                            seen.cookies.push((d.algorithm, d.c2s.key_bytes().to_vec(), d.s2c.key_bytes().to_vec()));
                        }
                        Err(_) => seen.items.push("Cookie(undecodable)".to_string()),
                    },
                    other => seen.items.push(record_str(other)),
                }
                if matches!(rec, NtsRecord::EndOfMessage) {
                    seen.complete = true;
                    break;
                }
            }
        }
    }
    seen
}

/// after a complete message: is the connection closed cleanly, dropped, or still open?
async fn probe_end<S: tokio::io::AsyncRead + Unpin>(tls: &mut S) -> &'static str {
    let mut b = [0u8; 1];
    match tokio::time::timeout(STEP, tls.read(&mut b)).await {
        Err(_) => "open",
        Ok(Ok(0)) => "clean",
        Ok(Ok(_)) => "extra",
        Ok(Err(e)) => {
            if e.to_string().contains("close_notify") {
                "abrupt"
            } else {
                "clean"
            }
        }
    }
}

fn srv_result_str<T>(r: &Result<Option<T>, NtsError>) -> String {
    match r {
        Ok(None) => "closed".into(),
        Ok(Some(_)) => "kept".into(),
        Err(e) => format!("err:{}", nts_err_str(e)),
    }
}

fn items_str(items: &[String]) -> String {
    if items.is_empty() {
        "-".into()
    } else {
        items.join(";")
    }
}

type RawClient = tokio_rustls::client::TlsStream<tokio::io::DuplexStream>;

struct ConnState {
    cfg: SrvCfg,
    kex: Arc<KeyExchangeServer>,
    keyset: Arc<KeySet>,
    client: Option<RawClient>,
    longterm: Option<tokio::task::JoinHandle<Result<(), NtsError>>>,
    open: bool,
}

/// the oracle's view of a request: the implementation's own (C30-verified) parser on the bytes sent
fn classify(bytes: &[u8]) -> Result<Request<'static>, NtsError> {
    parse_request_counted(bytes).0
}

async fn exec_conn_ops(ops: &[String], run: &mut Run) {
    let mut st: Option<ConnState> = None;
    let mut key = String::new();
    let mut nontrivial = false;
    for op in ops {
        run.begin_op(op);
        let w: Vec<&str> = op.split_whitespace().collect();
        match w.as_slice() {
            ["cfg", rest @ ..] => {
                let cfg = parse_cfg(rest);
                let kex = Arc::new(build_server(&cfg));
                key.push_str(&format!("t{}v{}", cfg.tokens.len(), cfg.versions.len()));
                let keyset = build_keyset(common::kv(rest, "ks").unwrap_or("test"));
                st = Some(ConnState { cfg, kex, keyset, client: None, longterm: None, open: false });
                run.end_op("ok");
            }
            ["conn", rest @ ..] => {
                let s = st.as_mut().expect("cfg first");
                let permit_available = common::kv(rest, "permit") == Some("1");
                let fin = common::kv(rest, "fin") == Some("1");
                let bytes = unhex(common::kv(rest, "req").expect("req")).expect("hex");
                let (c_io, s_io) = tokio::io::duplex(1 << 20);
                let kex = s.kex.clone();
                let keyset = s.keyset.clone();
                let asked = Arc::new(std::sync::atomic::AtomicBool::new(false));
                let asked2 = asked.clone();
                let server = tokio::task::spawn_local(async move {
                    kex.handle_connection(s_io, &keyset, move || {
                        asked2.store(true, std::sync::atomic::Ordering::SeqCst);
                        if permit_available { Some(()) } else { None }
                    })
                    .await
                });
                let mut tls = raw_connector()
                    .connect(ServerName::try_from("localhost").unwrap(), c_io)
                    .await
                    .expect("raw client handshake");
                // the session's exporter, as the harness states it (the model's `Export` table)
                let mut exp = vec![];
                let mut exp_map = std::collections::HashMap::new();
                for (pn, p) in [("v4", 0u16), ("v5", 0x8001u16)] {
                    for (an, a) in [("a256", 15u16), ("a512", 17u16)] {
                        let (c2s, s2c) = export_pair(tls.get_ref().1, p, a).expect("export");
                        exp.push(format!("{}:{}:{}:{}", pn, an, hex(&c2s), hex(&s2c)));
                        exp_map.insert((p, a), (c2s, s2c));
                    }
                }
                tls.write_all(&bytes).await.expect("write request");
                tls.flush().await.expect("flush");
                if fin {
                    let _ = tls.shutdown().await;
                }
                let mut seen = read_message(&mut tls, &s.keyset).await;
                let result = match tokio::time::timeout(STEP, server).await {
                    Err(_) => None,
                    Ok(j) => Some(j.expect("server task panicked")),
                };
                let result_txt = match &result {
                    None => "stall".to_string(),
                    Some(r) => srv_result_str(r),
                };
                let mut kept = false;
                if let Some(Ok(Some(((), io)))) = result {
                    kept = true;
                    let kex = s.kex.clone();
                    let keyset = s.keyset.clone();
                    s.longterm = Some(tokio::task::spawn_local(async move {
                        kex.handle_longterm(io, move || keyset.clone()).await
                    }));
                }
                if seen.complete {
                    seen.end = probe_end(&mut tls).await;
                }
                let asked = asked.load(std::sync::atomic::Ordering::SeqCst);
                s.open = kept && seen.end == "open";
                s.client = Some(tls);

                // ---------------- oracle: the property on the implementation's behaviour ----------------
                let class = classify(&bytes);
                let tokens = &s.cfg.tokens;
                let has_cookie = seen.records.iter().any(|k| k == "NewCookie");
                let has_keepalive = seen.records.iter().any(|k| k == "KeepAlive");
                let mut attrs = String::new();
                match &class {
                    Ok(Request::FixedKey { authentication, keep_alive, .. })
                    | Ok(Request::Support { authentication, keep_alive, .. }) => {
                        let is_fixed = matches!(class, Ok(Request::FixedKey { .. }));
                        attrs = format!("request={}", if is_fixed { "fixedkey" } else { "support" });
                        let authorised = tokens.iter().any(|t| t.as_slice() == authentication.as_bytes());
                        if !authorised {
                            run.hit("conn-pool-rejected");
                            if seen.items != ["Error(bad)", "EndOfMessage"] || has_cookie || result_txt != "err:NotPermitted" {
                                run.oracle_fail("token_required", &attrs, &format!(
                                    "request without a configured token answered with [{}] result {}", items_str(&seen.items), result_txt));
                            }
                            if kept {
                                run.oracle_fail("kept_open_iff", &attrs, "unauthorised connection kept open");
                            }
                        } else {
                            run.hit(if is_fixed { "conn-fixedkey-served" } else { "conn-support-served" });
                            nontrivial = true;
                            if is_fixed && seen.cookies.len() != 8 {
                                run.oracle_fail("token_required", &attrs, &format!("authorised fixed-key request got {} cookies", seen.cookies.len()));
                            }
                            if result_txt.starts_with("err") {
                                run.oracle_fail("token_required", &attrs, &format!("authorised request refused: {}", result_txt));
                            }
                            let want_kept = *keep_alive && permit_available;
                            if kept != want_kept || has_keepalive != want_kept || (kept && seen.end != "open") || (!kept && seen.end == "open") {
                                run.oracle_fail("kept_open_iff", &attrs, &format!(
                                    "keep_alive={} permit={} but kept={} keepalive-record={} end={}", keep_alive, permit_available, kept, has_keepalive, seen.end));
                            }
                            run.hit(if kept { "conn-kept" } else { "conn-not-kept" });
                        }
                    }
                    Ok(Request::KeyExchange { algorithms, protocols, .. }) => {
                        attrs = "request=keyexchange".to_string();
                        if kept {
                            run.oracle_fail("kept_open_iff", &attrs, "plain key exchange connection kept open");
                        }
                        // C28 (server half): first acceptable protocol / first supported algorithm, 8 cookies
                        // with exactly the exported keys
                        let accepted: Vec<u16> = s.cfg.versions.iter().filter_map(|v| match v {
                            NtpVersion::V3 => None,
                            NtpVersion::V4 => Some(0u16),
                            NtpVersion::V5 => Some(0x8001u16),
                        }).collect();
                        let want_p = protocols.iter().map(proto_id).find(|p| accepted.contains(p));
                        let want_a = algorithms.iter().map(|a| u16::from(*a)).find(|a| *a == 15 || *a == 17);
                        match (want_p, want_a) {
                            (None, _) => {
                                run.hit("conn-ke-no-protocol");
                                if seen.items != ["NextProtocol(-)", "EndOfMessage"] || result_txt != "err:NoOverlappingProtocol" {
                                    run.oracle_fail("server_first_acceptable", &attrs, &format!("no acceptable protocol but answer [{}] {}", items_str(&seen.items), result_txt));
                                }
                            }
                            (Some(p), None) => {
                                run.hit("conn-ke-no-algorithm");
                                let pn = proto_str(&NextProtocol::from(p));
                                if seen.items != [format!("NextProtocol({})", pn), "AeadAlgorithm(-)".to_string(), "EndOfMessage".to_string()] || result_txt != "err:NoOverlappingAlgorithm" {
                                    run.oracle_fail("server_first_acceptable", &attrs, &format!("no supported algorithm but answer [{}] {}", items_str(&seen.items), result_txt));
                                }
                            }
                            (Some(p), Some(a)) => {
                                run.hit("conn-ke-served");
                                if seen.cookies.len() == 8 {
                                    run.hit("conn-ke-8-cookies-decoded");
                                }
                                // coverage of the preference-order cases the property is about
                                let first_a = algorithms.first().map(|x| u16::from(*x));
                                let known_after: Vec<u16> = algorithms.iter().map(|x| u16::from(*x)).filter(|x| *x == 15 || *x == 17).collect();
                                if first_a != Some(a) {
                                    run.hit("conn-ke-alg-not-first-in-list");
                                    if known_after.iter().any(|x| *x != a) {
                                        run.hit(if a == 17 { "conn-ke-unknown-first-then-512-before-256" } else { "conn-ke-unknown-first-then-256-before-512" });
                                    }
                                }
                                if protocols.first().map(proto_id) != Some(p) {
                                    run.hit("conn-ke-proto-not-first-in-list");
                                }
                                if accepted.first() != Some(&p) && accepted.len() > 1 && protocols.iter().map(proto_id).any(|x| x == accepted[0]) {
                                    run.hit("conn-ke-proto-against-server-order");
                                }
                                nontrivial = true;
                                let pn = proto_str(&NextProtocol::from(p));
                                let an = aead_str(&AeadAlgorithm::from(a));
                                let head_ok = seen.items.len() >= 2
                                    && seen.items[0] == format!("NextProtocol({})", pn)
                                    && seen.items[1] == format!("AeadAlgorithm({})", an);
                                if !head_ok || result_txt != "closed" {
                                    run.oracle_fail("server_first_acceptable", &attrs, &format!(
                                        "expected protocol {} algorithm {} but answer [{}] {}", pn, an, items_str(&seen.items[..seen.items.len().min(3)]), result_txt));
                                }
                                let (c2s, s2c) = &exp_map[&(p, a)];
                                let all_right = seen.cookies.len() == 8
                                    && seen.cookies.iter().all(|(ca, cc, cs)| u16::from(*ca) == a && cc == c2s && cs == s2c);
                                if !all_right {
                                    run.oracle_fail("eight_cookies_right_keys", &attrs, &format!(
                                        "{} cookies; not all decode to the keys exported for ({}, {})", seen.cookies.len(), pn, an));
                                }
                                key.push_str(&format!("ke{}{}:{:?}:{:?}", pn, an,
                                    protocols.iter().map(proto_id).collect::<Vec<_>>(),
                                    algorithms.iter().map(|x| u16::from(*x)).collect::<Vec<_>>()));
                            }
                        }
                    }
                    Err(_) => {
                        run.hit("conn-unparsable");
                        if has_cookie || kept {
                            run.oracle_fail("token_required", "request=unparsable", "cookies issued / connection kept for an unparsable request");
                        }
                    }
                }
                if has_cookie {
                    let ok = match &class {
                        Ok(Request::KeyExchange { .. }) => true,
                        Ok(Request::FixedKey { authentication, .. }) => tokens.iter().any(|t| t.as_slice() == authentication.as_bytes()),
                        _ => false,
                    };
                    if !ok {
                        run.oracle_fail("token_required", &attrs, "cookies issued without key exchange or configured token");
                    }
                }
                key.push_str(&format!("c{}{}", result_txt, seen.records.len()));
                let op_txt = format!(
                    "conn permit={} fin={} exp={} req={}",
                    permit_available as u8, fin as u8, exp.join(","), hex(&bytes)
                );
                run.end_op_as(&op_txt, &format!(
                    "items={} result={} end={} asked={}", items_str(&seen.items), result_txt, seen.end, asked as u8));
            }
            ["long", rest @ ..] => {
                let s = st.as_mut().expect("cfg first");
                let fin = common::kv(rest, "fin") == Some("1");
                let bytes = unhex(common::kv(rest, "req").expect("req")).expect("hex");
                if !s.open {
                    run.end_op("items=- end=closed");
                    continue;
                }
                let tls = s.client.as_mut().unwrap();
                let wrote = tls.write_all(&bytes).await.is_ok() && tls.flush().await.is_ok();
                if fin {
                    let _ = tls.shutdown().await;
                }
                let mut seen = read_message(tls, &s.keyset).await;
                if seen.complete {
                    seen.end = probe_end(tls).await;
                }
                if !wrote {
                    seen.end = "write-failed";
                }
                s.open = seen.end == "open";
                // oracle: a plain key exchange is never accepted on a kept-open connection
                if let Ok(Request::KeyExchange { .. }) = classify(&bytes) {
                    run.hit("long-keyexchange");
                    nontrivial = true;
                    let has_cookie = seen.records.iter().any(|k| k == "NewCookie");
                    if seen.items != ["Error(bad)", "EndOfMessage"] || has_cookie || seen.end == "open" {
                        run.oracle_fail("no_plain_ke_on_longterm", "request=keyexchange", &format!(
                            "key exchange on a kept-open connection answered [{}] end={}", items_str(&seen.items), seen.end));
                    }
                } else {
                    run.hit("long-other");
                }
                key.push_str(&format!("l{}{}", seen.records.len(), seen.end));
                run.end_op(&format!("items={} end={}", items_str(&seen.items), seen.end));
            }
            ["finish"] => {
                let s = st.as_mut().expect("cfg first");
                // close our side; the long-term handler (if any) must terminate
                if let Some(mut tls) = s.client.take() {
                    let _ = tls.shutdown().await;
                    drop(tls);
                }
                let obs = match s.longterm.take() {
                    None => "result=none".to_string(),
                    Some(h) => match tokio::time::timeout(STEP, h).await {
                        Err(_) => "result=stall".to_string(),
                        Ok(j) => match j.expect("longterm task panicked") {
                            Ok(()) => "result=ok".to_string(),
                            Err(e) => format!("result=err:{}", nts_err_str(&e)),
                        },
                    },
                };
                run.end_op(&obs);
            }
            _ => run.end_op("bad-op"),
        }
    }
    if nontrivial {
        run.nontrivial(&key);
    }
}

fn exec_conn_case(ops: &[String], run: &mut Run) {
    let rt = runtime();
    let local = tokio::task::LocalSet::new();
    local.block_on(&rt, exec_conn_ops(ops, run));
}

// ---- generators for the server streams

const TOKEN_POOL: [&str; 5] = ["hi", "tok", "pool-secret", "é", "x"];
const AUTH_POOL: [&str; 8] = ["hi", "tok", "pool-secret", "é", "x", "", "nope", "hi "];
/// configured tokens that differ from each other (and from what clients may send) only by white space around
/// them, by case, or by being a prefix / suffix of another: the comparison has to be byte equality
const TRICKY_TOKENS: [&str; 16] = [
    "hi ", " hi", "hi\t", "hi\n", "\thi\n", " hi ", "", " ", "Hi", "HI", "h", "hi2", "hihi", "pool-secret ", "Pool-Secret", "é ",
];

/// a token that is NOT byte-equal to `t` but close to it: trimmed, padded, prefix, extended, case-changed
fn near_miss(rng: &mut Rng, t: &[u8]) -> Vec<u8> {
    let st = String::from_utf8(t.to_vec()).expect("utf8 token");
    let cand = match rng.below(10) {
        0 => st.trim().to_string(),
        1 => st.trim_start().to_string(),
        2 => st.trim_end().to_string(),
        3 => format!("{} ", st),
        4 => format!(" {}", st),
        5 => format!("{}\n", st),
        6 => format!("\t{}", st),
        7 => {
            let mut c: Vec<char> = st.chars().collect();
            c.pop();
            c.into_iter().collect()
        }
        8 => st.to_uppercase(),
        _ => format!("{}{}", st, st),
    };
    cand.into_bytes()
}

fn gen_cfg_line(rng: &mut Rng, want_tokens: bool) -> (String, Vec<Vec<u8>>) {
    let nt = if want_tokens { rng.usize(1, 3) } else { rng.usize(0, 3) };
    let mut tokens: Vec<Vec<u8>> = vec![];
    let tricky = rng.chance(1, 2);
    for _ in 0..nt {
        let t = if tricky && rng.chance(2, 3) { *rng.pick(&TRICKY_TOKENS[..]) } else { *rng.pick(&TOKEN_POOL[..]) };
        tokens.push(t.as_bytes().to_vec());
    }
    let versions = match rng.below(8) {
        0 => "v4",
        1 => "v5",
        2 => "v4,v5",
        3 => "v5,v4",
        4 => "v3,v4",
        5 => "v3",
        6 => "-",
        _ => "v4,v5",
    };
    let server = if rng.chance(1, 4) { hex(b"ntp.example.com") } else { "none".to_string() };
    let port = if rng.chance(1, 4) { format!("{}", *rng.pick(&[123u16, 4460, 1, 65535])) } else { "none".to_string() };
    let ks = if rng.chance(1, 2) { gen_keyset_spec(rng) } else { "test".to_string() };
    (
        format!("cfg tokens={} versions={} server={} port={} ks={}", bytes_list(tokens.iter().map(|t| t.as_slice())), versions, server, port, ks),
        tokens,
    )
}

/// a preference list over `supported` (ids the peer may accept): 0-3 unknown ids first, then the supported
/// ids in a uniformly random order (so every order, incl. the reverse of the server's own preference, occurs),
/// optionally only some of them, optionally with repeated entries and unknown ids in between / at the end
fn gen_pref_list(rng: &mut Rng, supported: &[u16], unknown: &[u16]) -> Vec<u16> {
    let mut body: Vec<u16> = supported.to_vec();
    for i in (1..body.len()).rev() {
        let j = rng.usize(0, i);
        body.swap(i, j);
    }
    if rng.chance(1, 6) {
        let keep = rng.usize(0, body.len());
        body.truncate(keep);
    }
    let lead = match rng.below(10) {
        0..=2 => 0,
        3..=5 => 1,
        6..=7 => 2,
        _ => 3,
    };
    let mut list: Vec<u16> = (0..lead).map(|_| *rng.pick(unknown)).collect();
    list.extend(body);
    // repeated entries (of anything already listed)
    for _ in 0..(match rng.below(6) {
        0 => 1,
        1 => 2,
        _ => 0,
    }) {
        if !list.is_empty() {
            let x = list[rng.usize(0, list.len() - 1)];
            let at = rng.usize(0, list.len());
            list.insert(at, x);
        }
    }
    // an unknown id between / after the supported ones
    if rng.chance(1, 4) {
        let at = rng.usize(lead.min(list.len()), list.len());
        list.insert(at, *rng.pick(unknown));
    }
    list
}

/// a pool / key-exchange request as a record list (no end of message)
fn gen_conn_request(rng: &mut Rng, tokens: &[Vec<u8>], kind: u64, keep_alive: Option<bool>) -> Vec<Vec<u8>> {
    let auth: Vec<u8> = if !tokens.is_empty() && rng.chance(2, 5) {
        rng.pick(tokens).clone()
    } else if !tokens.is_empty() && rng.chance(1, 2) {
        let t = rng.pick(tokens).clone();
        near_miss(rng, &t)
    } else {
        rng.pick(&AUTH_POOL[..]).as_bytes().to_vec()
    };
    let ka = keep_alive.unwrap_or_else(|| rng.chance(1, 2));
    let mut recs = vec![];
    match kind {
        0 => {
            // client preference lists: mostly structured (unknown ids first, the supported ids in every
            // order incl. the reverse of the server's own preference, repeated entries), sometimes free-form
            let protos: Vec<u16> = if rng.chance(1, 5) {
                let np = match rng.below(8) {
                    0 => 0,
                    1..=3 => 1,
                    4..=6 => 2,
                    _ => rng.usize(3, 5),
                };
                (0..np).map(|_| *rng.pick(&[0u16, 0x8001, 0, 0x8001, 0, 0x8001, 1, 0x8002, 15])).collect()
            } else {
                gen_pref_list(rng, &[0u16, 0x8001], &[1u16, 2, 0x8000, 0x8002, 15, 0xffff])
            };
            let algs: Vec<u16> = if rng.chance(1, 5) {
                let na = match rng.below(8) {
                    0 => 0,
                    1..=3 => 1,
                    4..=6 => 2,
                    _ => rng.usize(3, 5),
                };
                (0..na).map(|_| *rng.pick(&[15u16, 17, 15, 17, 15, 17, 16, 0, 0x8001])).collect()
            } else {
                gen_pref_list(rng, &[15u16, 17], &[0u16, 1, 14, 16, 18, 30, 0x8001, 0xffff])
            };
            recs.push(rec(0x8001, &u16s(&protos)));
            recs.push(rec(0x8004, &u16s(&algs)));
            if rng.chance(1, 4) {
                recs.push(rec(13, b"denied.example.com"));
            }
            if rng.chance(1, 6) {
                recs.push(rec(8, &[])); // keep-alive on a plain key exchange is ignored
            }
            if rng.chance(1, 8) {
                recs.push(rec(14, &auth)); // so is a token
            }
        }
        1 => {
            let alg = *rng.pick(&[15u16, 17, 15, 17, 16]);
            let klen = key_len(alg);
            let klen = if rng.chance(1, 10) { klen + 1 } else { klen };
            recs.push(rec(14, &auth));
            recs.push(rec(0x800c, &rng.bytes(2 * klen)));
            recs.push(rec(0x8001, &u16s(&[*rng.pick(&[0u16, 0x8001, 0x8002])])));
            recs.push(rec(0x8004, &u16s(&[alg])));
            if ka {
                recs.push(rec(8, &[]));
            }
        }
        _ => {
            recs.push(rec(14, &auth));
            let which = rng.below(3);
            if which != 1 {
                recs.push(rec(0x8009, &[]));
            }
            if which != 2 {
                recs.push(rec(0x800a, &[]));
            }
            if ka {
                recs.push(rec(8, &[]));
            }
        }
    }
    if rng.chance(1, 6) {
        // order does not matter to the parser
        for i in (1..recs.len()).rev() {
            let j = rng.usize(0, i);
            recs.swap(i, j);
        }
    }
    recs
}

fn finish_message(rng: &mut Rng, mut recs: Vec<Vec<u8>>, allow_malformed: bool) -> (Vec<u8>, bool) {
    // returns (bytes, needs_fin)
    if allow_malformed {
        match rng.below(26) {
            0 => {
                let r = rec(0x8000 | 100, &rng.bytes(2)); // unknown critical
                let j = rng.usize(0, recs.len());
                recs.insert(j, r);
            }
            1 => {
                if !recs.is_empty() {
                    let i = rng.usize(0, recs.len() - 1);
                    let r = recs[i].clone();
                    recs.push(r); // duplicate
                }
            }
            2 => {
                if !recs.is_empty() {
                    let i = rng.usize(0, recs.len() - 1);
                    recs.remove(i);
                }
            }
            3 => {
                let j = rng.usize(0, recs.len());
                recs.insert(j, rec(5, &rng.bytes(8))); // a cookie in a request
            }
            4 => {
                // truncated: the client has to close its side for the server to notice
                let mut msg = recs.concat();
                msg.extend(rec(0x8000, &[]));
                let n = rng.usize(0, msg.len() - 1);
                msg.truncate(n);
                return (msg, true);
            }
            5 => {
                // no end of message
                return (recs.concat(), true);
            }
            _ => {}
        }
    }
    let mut msg = recs.concat();
    msg.extend(rec(0x8000, &[]));
    (msg, false)
}

fn gen_conn_case(rng: &mut Rng, idx: u64, _run: &Run) -> Vec<String> {
    let mut ops = vec![];
    // corpus: the situations the property names, first
    let scripted = idx < 12;
    // always-run witnesses for (a) key sets whose wire ids wrap around u32 and (b) token near misses
    if (12..18).contains(&idx) {
        let ks = ["4294967295:1:2:0", "4294967294:2:3:0", "4294967295:0:1:1", "4294967293:3:4:2", "2147483648:1:2:0", "1:0:1:0"][(idx - 12) as usize];
        let mut m = vec![rec(0x8001, &u16s(&[0x8001, 0])), rec(0x8004, &u16s(&[17, 15]))].concat();
        m.extend(rec(0x8000, &[]));
        return vec![
            format!("cfg tokens=[6869] versions=v4,v5 server=none port=none ks={}", ks),
            format!("conn permit=1 fin=0 req={}", hex(&m)),
            "finish".to_string(),
        ];
    }
    if (18..30).contains(&idx) {
        // (configured tokens, token carried by the request)
        let cases: [(&[&str], &str); 12] = [
            (&["hi "], "hi"),
            (&["hi "], "hi "),
            (&[" hi"], "hi"),
            (&["hi\n"], "hi"),
            (&["\thi"], "\thi"),
            (&[""], ""),
            (&[" "], ""),
            (&["hi", "Hi"], "HI"),
            (&["hihi"], "hi"),
            (&["h"], "hi"),
            (&["pool-secret "], "pool-secret"),
            (&["hi"], "hi "),
        ];
        let (cfg_tokens, auth) = cases[(idx - 18) as usize];
        let pool_req = if idx % 2 == 0 {
            vec![rec(14, auth.as_bytes()), rec(0x800c, &[7u8; 64]), rec(0x8001, &u16s(&[0])), rec(0x8004, &u16s(&[15])), rec(8, &[])]
        } else {
            vec![rec(14, auth.as_bytes()), rec(0x8009, &[]), rec(0x800a, &[]), rec(8, &[])]
        };
        let mut m = pool_req.concat();
        m.extend(rec(0x8000, &[]));
        return vec![
            format!("cfg tokens={} versions=v4,v5 server=none port=none ks=test", bytes_list(cfg_tokens.iter().map(|t| t.as_bytes()))),
            format!("conn permit=1 fin=0 req={}", hex(&m)),
            "finish".to_string(),
        ];
    }
    let (cfg_line, tokens) = if scripted {
        let versions = match idx {
            7 | 10 => "v5,v4",
            9 => "v4",
            11 => "v5",
            _ => "v4,v5",
        };
        // the scripted key exchanges also run on restored key sets with ids around the u32 wrap
        let ks = match idx {
            5 => "4294967295:1:2:0",
            6 => "4294967294:2:3:1",
            8 => "0:0:1:3",
            _ => "test",
        };
        (format!("cfg tokens=[6869] versions={} server=none port=none ks={}", versions, ks), vec![b"hi".to_vec()])
    } else {
        {
            let want = rng.chance(3, 4);
            gen_cfg_line(rng, want)
        }
    };
    ops.push(cfg_line);
    let mk = |recs: Vec<Vec<u8>>| {
        let mut m = recs.concat();
        m.extend(rec(0x8000, &[]));
        hex(&m)
    };
    if scripted {
        let fk = |auth: &[u8], ka: bool| {
            let mut r = vec![rec(14, auth), rec(0x800c, &[7u8; 64]), rec(0x8001, &u16s(&[0])), rec(0x8004, &u16s(&[15]))];
            if ka {
                r.push(rec(8, &[]));
            }
            r
        };
        let sup = |auth: &[u8], ka: bool| {
            let mut r = vec![rec(14, auth), rec(0x8009, &[]), rec(0x800a, &[])];
            if ka {
                r.push(rec(8, &[]));
            }
            r
        };
        let ke = vec![rec(0x8001, &u16s(&[0x8001, 0])), rec(0x8004, &u16s(&[17, 15]))];
        match idx {
            0 => ops.push(format!("conn permit=1 fin=0 req={}", mk(fk(b"nope", true)))),
            1 => ops.push(format!("conn permit=1 fin=0 req={}", mk(sup(b"", true)))),
            2 => {
                ops.push(format!("conn permit=1 fin=0 req={}", mk(fk(b"hi", true))));
                ops.push(format!("long fin=0 req={}", mk(ke.clone())));
            }
            3 => ops.push(format!("conn permit=0 fin=0 req={}", mk(fk(b"hi", true)))),
            4 => {
                ops.push(format!("conn permit=1 fin=0 req={}", mk(sup(b"hi", true))));
                ops.push(format!("long fin=0 req={}", mk(fk(b"whatever", true))));
                ops.push(format!("long fin=0 req={}", mk(sup(b"", false))));
                ops.push(format!("long fin=0 req={}", mk(ke.clone())));
            }
            5 => ops.push(format!("conn permit=1 fin=0 req={}", mk(ke.clone()))),
            _ => {
                // preference-order witnesses: unknown / unaccepted ids first, supported ids in an order that
                // differs from the server's own, repeated entries
                let (protos, algs): (Vec<u16>, Vec<u16>) = match idx {
                    6 => (vec![0x8002, 0, 0x8001], vec![16, 17, 15]),
                    7 => (vec![1, 0x8001, 0], vec![0, 15, 17]),
                    8 => (vec![0x8001, 0x8001, 0], vec![16, 16, 17, 17, 15]),
                    9 => (vec![0x8001, 0], vec![0xffff, 30, 18, 17, 15, 17]),
                    10 => (vec![2, 1, 0, 0x8001], vec![16, 15, 17]),
                    _ => (vec![0, 0x8002, 0x8001, 0], vec![1, 17, 16, 15]),
                };
                ops.push(format!(
                    "conn permit=1 fin=0 req={}",
                    mk(vec![rec(0x8001, &u16s(&protos)), rec(0x8004, &u16s(&algs))])
                ));
            }
        }
        ops.push("finish".to_string());
        return ops;
    }
    let kind = if rng.chance(1, 4) { 0 } else { rng.below(3) };
    let recs = gen_conn_request(rng, &tokens, kind, None);
    let (bytes, fin) = finish_message(rng, recs, true);
    let permit = rng.chance(2, 3);
    ops.push(format!("conn permit={} fin={} req={}", permit as u8, fin as u8, hex(&bytes)));
    // follow-up requests on the (possibly) kept connection
    let n_long = match rng.below(4) {
        0 => 0,
        1 | 2 => 1,
        _ => rng.usize(2, 3),
    };
    for i in 0..n_long {
        let last = i + 1 == n_long;
        let kind = rng.below(3);
        let ka = if last { None } else { Some(rng.chance(3, 4)) };
        let recs = gen_conn_request(rng, &tokens, kind, ka);
        let (bytes, fin) = finish_message(rng, recs, last);
        ops.push(format!("long fin={} req={}", fin as u8, hex(&bytes)));
    }
    ops.push("finish".to_string());
    ops
}

// ---- C28 client stream: the real KeyExchangeClient against a scripted TLS server

async fn exec_client_ops(ops: &[String], run: &mut Run) {
    for op in ops {
        run.begin_op(op);
        let w: Vec<&str> = op.split_whitespace().collect();
        match w.as_slice() {
            ["client", rest @ ..] => {
                let ver = common::kv(rest, "ver").unwrap_or("v4").to_string();
                let resp = unhex(common::kv(rest, "resp").expect("resp")).expect("hex");
                let version = match ver.as_str() {
                    "v4" => ProtocolVersion::V4,
                    "v5" => ProtocolVersion::V5,
                    _ => ProtocolVersion::V4UpgradingToV5 { tries_left: 8 },
                };
                let offered_p: Vec<u16> = match ver.as_str() {
                    "v4" => vec![0],
                    "v5" => vec![0x8001],
                    _ => vec![0x8001, 0],
                };
                // what the scripted answer names (the implementation's own, C30-verified, parser)
                let named = parse_response_counted(&resp).0.ok().map(|r| (proto_id(&r.protocol), u16::from(r.algorithm)));
                let (c_io, s_io) = tokio::io::duplex(1 << 20);
                let resp2 = resp.clone();
                let server = tokio::task::spawn_local(async move {
                    let mut tls = raw_acceptor().accept(s_io).await.expect("raw server handshake");
                    let req = Request::parse(&mut tls).await;
                    let req_txt = match &req {
                        Ok(r) => request_str(r),
                        Err(e) => format!("err:{}", nts_err_str(e)),
                    };
                    let exp = named.and_then(|(p, a)| export_pair(tls.get_ref().1, p, a));
                    let _ = tls.write_all(&resp2).await;
                    let _ = tls.flush().await;
                    let _ = tls.shutdown().await;
                    (req_txt, exp)
                });
                let kex = KeyExchangeClient::new(&NtsClientConfig { certificates: ca_certs(), protocol_version: version }).expect("client");
                let result = tokio::time::timeout(STEP, kex.exchange_keys(c_io, "localhost".to_string(), [])).await;
                let (req_txt, exp) = match tokio::time::timeout(STEP, server).await {
                    Ok(j) => j.expect("scripted server panicked"),
                    Err(_) => ("stall".to_string(), None),
                };
                let exp_txt = match &exp {
                    Some((c2s, s2c)) => format!("{}:{}", hex(c2s), hex(s2c)),
                    None => "none".to_string(),
                };
                let obs = match result {
                    Err(_) => "stall".to_string(),
                    Ok(Err(e)) => {
                        run.hit(&format!("client-err-{}", nts_err_str(&e).split('(').next().unwrap()));
                        format!("req={} err:{}", req_txt, nts_err_str(&e))
                    }
                    Ok(Ok(mut res)) => {
                        run.hit("client-ok");
                        let pv = match res.protocol_version {
                            ProtocolVersion::V4 => "v4",
                            ProtocolVersion::V5 => "v5",
                            _ => "other",
                        };
                        let mut cookies = vec![];
                        while let Some(c) = res.nts.get_cookie() {
                            cookies.push(c);
                        }
                        let c2s = res.nts.c2s.key_bytes().to_vec();
                        let s2c = res.nts.s2c.key_bytes().to_vec();
                        let alg = match c2s.len() {
                            32 => "a256",
                            64 => "a512",
                            _ => "a?",
                        };
                        // ---- oracle (C28, client half)
                        let adopted_p: u16 = if pv == "v4" { 0 } else { 0x8001 };
                        let attrs = format!("client={} adopted={}", ver, pv);
                        if !offered_p.contains(&adopted_p) || pv == "other" {
                            run.oracle_fail("client_adopts_only_offered", &attrs, &format!(
                                "client configured {} (offers {:?}) adopted protocol {}", ver, offered_p, pv));
                        }
                        if alg == "a?" {
                            run.oracle_fail("client_adopts_only_offered", &attrs, "adopted an algorithm it did not offer");
                        }
                        match &exp {
                            Some((e_c2s, e_s2c)) if *e_c2s == c2s && *e_s2c == s2c => {}
                            _ => run.oracle_fail("same_keys", &attrs, "client keys differ from the keys the server side exports for the named protocol and algorithm"),
                        }
                        run.nontrivial(&format!("{}{}{}{}", ver, pv, alg, cookies.len()));
                        format!(
                            "req={} ok proto={} alg={} c2s={} s2c={} cookies={} remote={} port={}",
                            req_txt, pv, alg, hex(&c2s), hex(&s2c),
                            bytes_list(cookies.iter().map(|c| c.as_slice())), hex(res.remote.as_bytes()), res.port
                        )
                    }
                };
                let op_txt = format!("client ver={} exp={} resp={}", ver, exp_txt, hex(&resp));
                run.end_op_as(&op_txt, &obs);
            }
            _ => run.end_op("bad-op"),
        }
    }
}

fn exec_client_case(ops: &[String], run: &mut Run) {
    let rt = runtime();
    let local = tokio::task::LocalSet::new();
    local.block_on(&rt, exec_client_ops(ops, run));
}

fn gen_client_case(rng: &mut Rng, idx: u64, _run: &Run) -> Vec<String> {
    let cookie = |n: u8| rec(5, &[n; 24]);
    let msg = |recs: Vec<Vec<u8>>| {
        let mut m = recs.concat();
        m.extend(rec(0x8000, &[]));
        m
    };
    // corpus: F-C28 first (a v4-only client told "NTPv5"), then the un-offered / unknown variants
    let corpus: Vec<(&str, Vec<u8>)> = vec![
        ("v4", msg(vec![rec(0x8001, &u16s(&[0x8001])), rec(0x8004, &u16s(&[17])), cookie(1)])),
        ("v5", msg(vec![rec(0x8001, &u16s(&[0])), rec(0x8004, &u16s(&[15])), cookie(1)])),
        ("v4", msg(vec![rec(0x8001, &u16s(&[0])), rec(0x8004, &u16s(&[17])), cookie(1), cookie(2)])),
        ("upg", msg(vec![rec(0x8001, &u16s(&[0x8001])), rec(0x8004, &u16s(&[15])), cookie(1)])),
        ("upg", msg(vec![rec(0x8001, &u16s(&[0])), rec(0x8004, &u16s(&[15]))])),
        ("v4", msg(vec![rec(0x8001, &u16s(&[0])), rec(0x8004, &u16s(&[16])), cookie(1)])),
        ("v4", msg(vec![rec(0x8001, &u16s(&[7])), rec(0x8004, &u16s(&[15])), cookie(1)])),
    ];
    if (idx as usize) < corpus.len() {
        let (v, m) = &corpus[idx as usize];
        return vec![format!("client ver={} exp=none resp={}", v, hex(m))];
    }
    let ver = *rng.pick(&["v4", "v5", "upg"]);
    let mut recs = vec![];
    let p = if rng.chance(1, 2) {
        // usually something the client offered
        match ver {
            "v4" => 0u16,
            "v5" => 0x8001,
            _ => *rng.pick(&[0u16, 0x8001]),
        }
    } else {
        *rng.pick(&[0u16, 0x8001, 0, 0x8001, 0, 0x8001, 1, 0x8002])
    };
    let a = *rng.pick(&[15u16, 17, 15, 17, 15, 17, 16, 0]);
    let protos = match rng.below(12) {
        0 => vec![],
        1 => vec![p, 0],
        _ => vec![p],
    };
    let algs = match rng.below(12) {
        0 => vec![],
        1 => vec![a, 15],
        _ => vec![a],
    };
    recs.push(rec(0x8001, &u16s(&protos)));
    recs.push(rec(0x8004, &u16s(&algs)));
    let nc = match rng.below(8) {
        0 => 0,
        1 => 1,
        2 => 9,
        3 => rng.usize(2, 7),
        _ => 8,
    };
    for i in 0..nc {
        let n = rng.usize(1, 40);
        let mut c = rng.bytes(n);
        c[0] = i as u8;
        recs.push(rec(5, &c));
    }
    if rng.chance(1, 3) {
        recs.push(rec(0x8006, b"other.example.com"));
    }
    if rng.chance(1, 3) {
        recs.push(rec(0x8007, &u16s(&[*rng.pick(&[123u16, 4123, 0, 65535])])));
    }
    match rng.below(16) {
        0 => recs.push(rec(0x8002, &u16s(&[rng.below(4) as u16]))),
        1 => recs.push(rec(0x8003, &u16s(&[1]))),
        2 => recs.push(rec(0x8000 | 100, &[1])),
        3 => recs.push(rec(100, &[1, 2, 3])),
        4 => {
            let r = recs[0].clone();
            recs.push(r);
        }
        5 => {
            for i in (1..recs.len()).rev() {
                let j = rng.usize(0, i);
                recs.swap(i, j);
            }
        }
        _ => {}
    }
    let mut m = recs.concat();
    if !rng.chance(1, 20) {
        m.extend(rec(0x8000, &[]));
    }
    if rng.chance(1, 25) {
        let n = rng.usize(0, m.len());
        m.truncate(n);
    }
    vec![format!("client ver={} exp=none resp={}", ver, hex(&m))]
}

#[test]
fn entry() {
    let stream = std::env::var("VERIF_STREAM").unwrap_or_default();
    match stream.as_str() {
        "c30_rec" => common::drive(
            "c30_rec",
            "NtsRecord::parse on the unit-test corpus, grammar-generated records of all 14 known + 5 unknown types (sizes 0..65535, boundary 511/512/513), header perturbations (size ±1/0/ffff/random, odd bodies, flipped critical bit), truncations, bit flips, invalid UTF-8, random bytes; non-trivial = parse accepted; distinct by canonical value",
            gen_rec_case,
            exec_c30_case,
        ),
        "c30_req" => common::drive(
            "c30_req",
            "Request::parse on KeyExchange / FixedKey / Support record sequences with duplicates, drops, forbidden, unknown-critical, ignored and arbitrary records, shuffles, wrong key sizes, padding placing the message end at 4096-5..4096+100, oversized records, inputs up to 70 kB; non-trivial = parse accepted; distinct by canonical value",
            |rng, idx, _run| gen_msg_case(rng, idx, true),
            exec_c30_case,
        ),
        "c30_resp" => common::drive(
            "c30_resp",
            "KeyExchangeResponse::parse on response record sequences (0-14 cookies, server/port/keep-alive, errors, warnings, empty lists) with the same perturbations and cap-crossing padding; non-trivial = parse accepted; distinct by canonical value",
            |rng, idx, _run| gen_msg_case(rng, idx, false),
            exec_c30_case,
        ),
        "c29_conn" => common::drive(
            "c29_conn",
            "real KeyExchangeServer::handle_connection / handle_longterm over TLS (tokio duplex, paused clock) against a raw rustls client writing generated request bytes: 0-3 configured tokens x token/non-token authentication x KeyExchange/FixedKey/Support x keep-alive x permit availability x accepted-version lists (incl. v3, empty, both orders), malformed variants (unknown critical, duplicate, missing, cookie record, truncated, no end of message), 0-3 follow-up requests on a kept connection; cookies decoded with the server's key set and compared with the session's exporter; non-trivial = a request was served or a key exchange arrived on a kept-open connection",
            gen_conn_case,
            exec_conn_case,
        ),
        "c28_client" => common::drive(
            "c28_client",
            "real KeyExchangeClient::exchange_keys (v4 / v5 / upgrading) over TLS against a scripted rustls server answering with generated response bytes: offered and un-offered protocols and algorithms, unknown ids, 0-9 cookies, server/port records, errors, warnings, unknown (critical) records, duplicates, shuffles, truncations; keys compared with the scripted server's own exporter output; non-trivial = the client returned a KeyExchangeResult",
            gen_client_case,
            exec_client_case,
        ),
        other => panic!("unknown VERIF_STREAM {:?}", other),
    }
}
