//! verification harness module included into `ntp-proto/src/config.rs` (guarded hook), property C39.
//! Grandchild of `crate::config`: sees the private `ThresholdPart` and both `StepThreshold` visitors.
//!
//! Stream c39_thr: the two `StepThreshold` deserialisers driven DIRECTLY with serde values (every f64 bit
//! pattern incl. NaN / inf / negative, i64, u64, strings, booleans, maps with the keys forward / backward /
//! duplicates / unknown keys), i.e. the visitors as functions of a TOML-like value, without the TOML parser.
#![allow(clippy::all, clippy::pedantic)]

#[path = "../common/mod.rs"]
mod common;

use super::super::*;
use common::{f64hex, f64unhex, hex, unhex, Rng, Run};
use serde::de::value::{Error as VErr, MapDeserializer};
use serde::de::IntoDeserializer;

/// a TOML-like value as the serde data model presents it to `deserialize_any`
#[derive(Clone, Debug)]
enum V {
    F(f64),
    I(i64),
    U(u64),
    S(String),
    B(bool),
    M(Vec<(String, V)>),
}

impl<'de> serde::Deserializer<'de> for V {
    type Error = VErr;
    fn deserialize_any<Vis: Visitor<'de>>(self, v: Vis) -> Result<Vis::Value, VErr> {
        match self {
            V::F(f) => v.visit_f64(f),
            V::I(i) => v.visit_i64(i),
            V::U(u) => v.visit_u64(u),
            V::S(s) => v.visit_str(&s),
            V::B(b) => v.visit_bool(b),
            V::M(kvs) => v.visit_map(MapDeserializer::new(kvs.into_iter())),
        }
    }
    serde::forward_to_deserialize_any! {
        bool i8 i16 i32 i64 i128 u8 u16 u32 u64 u128 f32 f64 char str string bytes byte_buf option unit
        unit_struct newtype_struct seq tuple tuple_struct map struct enum identifier ignored_any
    }
}

impl<'de> IntoDeserializer<'de, VErr> for V {
    type Deserializer = V;
    fn into_deserializer(self) -> V {
        self
    }
}

/// text form of a scalar: f:<16 hex> i:<dec> u:<dec> s:<hex utf8> b
fn show_scalar(v: &V) -> String {
    match v {
        V::F(f) => format!("f:{:016x}", f.to_bits()),
        V::I(i) => format!("i:{}", i),
        V::U(u) => format!("u:{}", u),
        V::S(s) => format!("s:{}", hex(s.as_bytes())),
        V::B(_) => "b".to_string(),
        V::M(_) => "m".to_string(), // a table where a scalar is expected (content irrelevant: wrong type)
    }
}

fn show(v: &V) -> String {
    match v {
        V::M(kvs) => {
            if kvs.is_empty() {
                "t:-".to_string()
            } else {
                format!("t:{}", kvs.iter().map(|(k, x)| format!("{}={}", k, show_scalar(x))).collect::<Vec<_>>().join(";"))
            }
        }
        other => show_scalar(other),
    }
}

fn parse_scalar(s: &str) -> Option<V> {
    if s == "b" {
        return Some(V::B(true));
    }
    if s == "m" {
        return Some(V::M(vec![]));
    }
    let (k, r) = s.split_once(':')?;
    match k {
        "f" => Some(V::F(f64::from_bits(u64::from_str_radix(r, 16).ok()?))),
        "i" => Some(V::I(r.parse().ok()?)),
        "u" => Some(V::U(r.parse().ok()?)),
        "s" => Some(V::S(String::from_utf8(unhex(r)?).ok()?)),
        _ => None,
    }
}

fn parse(s: &str) -> Option<V> {
    if let Some(r) = s.strip_prefix("t:") {
        if r == "-" {
            return Some(V::M(vec![]));
        }
        let mut kvs = vec![];
        for part in r.split(';') {
            let (k, x) = part.split_once('=')?;
            kvs.push((k.to_string(), parse_scalar(x)?));
        }
        Some(V::M(kvs))
    } else {
        parse_scalar(s)
    }
}

fn gen_f64(rng: &mut Rng) -> f64 {
    const S: &[u64] = &[
        0x7ff8000000000000, 0xfff8000000000000, 0x7ff0000000000001, // NaNs
        0x7ff0000000000000, 0xfff0000000000000, // +-inf
        0x0000000000000000, 0x8000000000000000, // +-0
        0x0000000000000001, 0x8000000000000001, // smallest subnormals
        0xbff0000000000000, 0x3ff0000000000000, // -1, 1
        0x408f400000000000, 0x40f5180000000000, // 1000, 86400
        0x7fefffffffffffff, 0xffefffffffffffff, 0x7e37e43c8800759c, // max, 1e300
        0x41dfffffffc00000, 0x41e0000000000000, 0xc1e0000000000000, 0xc1e0000000200000, // i32 limits
        0x3df0000000000000, 0xbdf0000000000000, 0x3fefffffffffffff, // 2^-32, just below 1
    ];
    match rng.below(8) {
        0..=2 => f64::from_bits(*rng.pick(S)),
        3 => f64::from_bits(rng.next_u64()),
        4 => -(rng.f64_unit() * (2.0f64).powi(rng.range(-40, 40) as i32)),
        _ => rng.f64_unit() * (2.0f64).powi(rng.range(-34, 34) as i32),
    }
}

fn gen_scalar(rng: &mut Rng) -> V {
    match rng.below(16) {
        0..=7 => V::F(gen_f64(rng)),
        8 => V::I(*rng.pick(&[0i64, 1, -1, 1000, i64::MAX, i64::MIN, i32::MAX as i64, i32::MAX as i64 + 1, i32::MIN as i64, i32::MIN as i64 - 1])),
        9 => V::I(rng.next_u64() as i64 >> rng.below(64)),
        10 => V::U(*rng.pick(&[0u64, 1, u64::MAX, i64::MAX as u64 + 1, 1 << 31, (1 << 31) - 1])),
        11 => V::S("inf".to_string()),
        12 => V::S(rng.pick(&["Inf", "-inf", "infinity", "nan", "", "inf ", "1.0", "forward"]).to_string()),
        13 => V::B(true),
        14 => V::M(vec![]),
        _ => V::U(rng.next_u64() >> rng.below(64)),
    }
}

fn gen_value(rng: &mut Rng) -> V {
    if rng.chance(2, 5) {
        return gen_scalar(rng);
    }
    let n = match rng.below(10) {
        0 => 0,
        1..=3 => 1,
        4..=8 => 2,
        _ => 3,
    };
    let mut kvs = vec![];
    for i in 0..n {
        let key = match rng.below(12) {
            0 => rng.pick(&["Forward", "forwards", "back", "", "inf", "backward "]).to_string(),
            1 => "forward".to_string(),  // possibly a duplicate
            2 => "backward".to_string(), // possibly a duplicate
            _ => {
                if (i + rng.below(2) as usize) % 2 == 0 {
                    "forward".to_string()
                } else {
                    "backward".to_string()
                }
            }
        };
        kvs.push((key, gen_scalar(rng)));
    }
    V::M(kvs)
}

fn gen_case(rng: &mut Rng, idx: u64, _run: &Run) -> Vec<String> {
    // design-time witnesses first (F-C39): per-direction form with -1.0, NaN, +inf, -inf
    let w: [u64; 4] = [0xbff0000000000000, 0x7ff8000000000000, 0x7ff0000000000000, 0xfff0000000000000];
    if (idx as usize) < w.len() {
        return vec![format!("thr {}", show(&V::M(vec![("forward".to_string(), V::F(f64::from_bits(w[idx as usize])))])))];
    }
    let n = rng.usize(1, 4);
    (0..n).map(|_| format!("thr {}", show(&gen_value(rng)))).collect()
}

fn raw(d: NtpDuration) -> i64 {
    // `0 - d` on timestamps is `0u64.wrapping_sub(d as u64)`
    let t = crate::time_types::NtpTimestamp::from_bits([0; 8]) - d;
    0u64.wrapping_sub(u64::from_be_bytes(t.to_bits())) as i64
}

fn err_kind(e: &VErr) -> &'static str {
    let s = e.to_string();
    if s.starts_with("invalid value") {
        "InvalidValue"
    } else if s.starts_with("invalid type") {
        "InvalidType"
    } else if s.starts_with("duplicate field") {
        "DuplicateField"
    } else if s.starts_with("unknown field") {
        "UnknownField"
    } else {
        "Other"
    }
}

/// does the value contain a number the property forbids as a threshold (NaN, infinite, negative)?
fn bad_number(v: &V) -> bool {
    let bad = |x: &V| match x {
        V::F(f) => f.is_nan() || f.is_infinite() || *f < 0.0,
        V::I(i) => *i < 0,
        _ => false,
    };
    match v {
        V::M(kvs) => kvs.iter().any(|(_, x)| bad(x)),
        other => bad(other),
    }
}

fn exec_case(ops: &[String], run: &mut Run) {
    for op in ops {
        run.begin_op(op);
        let w: Vec<&str> = op.split_whitespace().collect();
        let v = match w.as_slice() {
            ["thr", s] => match parse(s) {
                Some(v) => v,
                None => {
                    run.end_op("bad-op");
                    continue;
                }
            },
            _ => {
                run.end_op("bad-op");
                continue;
            }
        };
        let is_map = matches!(v, V::M(_));
        let forbidden = bad_number(&v);
        // a panic (debug_assert in from_seconds) is caught by the case guard: observation `panic`
        match StepThreshold::deserialize(v) {
            Ok(t) => {
                let f = t.forward.map(raw);
                let b = t.backward.map(raw);
                for (dir, d) in [("forward", f), ("backward", b)] {
                    if let Some(d) = d {
                        if d < 0 {
                            run.oracle_fail(
                                "accepted_threshold_sane",
                                &format!("form={} dir={}", if is_map { "per-direction" } else { "single" }, dir),
                                &format!("accepted {} threshold is negative: raw {}", dir, d),
                            );
                        }
                    }
                }
                if forbidden {
                    run.oracle_fail(
                        "accepted_from_valid_number",
                        &format!("form={}", if is_map { "per-direction" } else { "single" }),
                        "a threshold given as NaN / infinite / negative number was accepted",
                    );
                }
                let o = |x: Option<i64>| x.map(|d| d.to_string()).unwrap_or_else(|| "none".to_string());
                run.hit(if is_map { "ok-per-direction" } else { "ok-single" });
                run.nontrivial(&format!("{}{:?}{:?}", is_map, f.map(|d| d >> 28), b.map(|d| d >> 28)));
                run.end_op(&format!("ok fwd={} bwd={}", o(f), o(b)));
            }
            Err(e) => {
                run.hit(&format!("err-{}", err_kind(&e)));
                run.end_op(&format!("err:{}", err_kind(&e)));
            }
        }
    }
}

#[test]
fn entry() {
    let _ = (f64hex(0.0), f64unhex("0"));
    let stream = std::env::var("VERIF_STREAM").unwrap_or_default();
    match stream.as_str() {
        "c39_thr" => common::drive(
            "c39_thr",
            "StepThreshold::deserialize on serde values: single-number form (f64 incl. NaN/inf/negative/-0/subnormal/1e300/i32 limits, i64, u64), strings (inf and near misses), booleans, and per-direction maps with 0-3 entries (forward/backward, duplicates, unknown keys) whose values are again such scalars; non-trivial = accepted; distinct by (form, fwd>>28, bwd>>28)",
            gen_case,
            exec_case,
        ),
        other => panic!("unknown VERIF_STREAM {:?}", other),
    }
}
