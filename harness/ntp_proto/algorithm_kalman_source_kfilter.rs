//! verification harness module (cluster `kfilter`: C06, filter half of C10), included into
//! `ntp-proto/src/algorithm/kalman/source.rs` through the guarded hook dispatcher.
//! Grandchild of `algorithm::kalman::source`, so it sees `KalmanState`, `SourceFilter`, `SourceState`.
//!
//! Streams (selected with VERIF_STREAM):
//!   c10_filter_poll — a real `SourceFilter<NtpDuration, AveragingBuffer>`; histories of
//!                     `update_desired_poll(p, weight, measurement_period)`; observed: desired poll
//!                     exponent and poll score.  Oracle: min <= desired <= max after every update.
//!   c06_kstate      — `KalmanState::{progress_time, absorb_measurement, merge, add_server_dispersion,
//!                     process_offset_steering, process_frequency_steering}` as unit operations on
//!                     random and adversarial states; every f64 of the result as a bit pattern.
//!   c06_filter      — a real two-way `KalmanSourceController` on a paused tokio clock: measurement
//!                     histories (random walk, identical values, huge offsets, alternating outliers,
//!                     spacing 1 ms … 2^17 s, emulated steering feedback, clock meddling); observed after
//!                     every op: snapshot (bit patterns), desired poll, `observe()`.
//!                     Oracle (C06): estimates finite, variance >= 0, `from_seconds` never fed NaN/inf.
//!                     Every oracle failure carries `cause=psd_lost|innovation_vanished|none`, the root cause
//!                     evaluated on the implementation's own filter state (see `cov_indefinite`,
//!                     `pre_cause_meas`); known findings are matched by {clause, cause}.
//!   c06_periodic    — a real ONE-WAY `KalmanSourceController<(), FixedMeasurementNoise>` (PPS/sock) with
//!                     `period = Some(p)` / None: wrap of innovation and state, `steer %= period`, initial
//!                     filter wrap; same observation and oracle as c06_filter plus `per=` (the snapshot's
//!                     period as `select` consumes it), oracle `state_wrapped` (|x0| <= p/2) and, for the
//!                     corpus cases, `periodic_wrap_terminates` (400 ms guard thread).
#![allow(clippy::all, clippy::pedantic)]

#[path = "../common/mod.rs"]
mod common;

use super::super::*;
use crate::algorithm::kalman::KalmanControllerMessageInner;
use crate::packet::NtpLeapIndicator;
use common::{f64hex, f64unhex, kv, Rng, Run};
use std::panic::{catch_unwind, AssertUnwindSafe};

// ------------------------------------------------------------------------------------ helpers

fn dur_i64(d: NtpDuration) -> i64 {
    u64::from_be_bytes((NtpTimestamp::from_fixed_int(0) + d).to_bits()) as i64
}
fn ts_u64(t: NtpTimestamp) -> u64 {
    u64::from_be_bytes(t.to_bits())
}
fn dur(v: i64) -> NtpDuration {
    NtpDuration::from_fixed_int(v)
}
fn ts(v: u64) -> NtpTimestamp {
    NtpTimestamp::from_fixed_int(v)
}
fn fx(words: &[&str], key: &str) -> f64 {
    f64unhex(kv(words, key).unwrap_or_else(|| panic!("missing {}", key))).expect("f64 hex")
}
fn ix(words: &[&str], key: &str) -> i64 {
    kv(words, key).unwrap_or_else(|| panic!("missing {}", key)).parse().expect("int")
}
fn ux(words: &[&str], key: &str) -> u64 {
    kv(words, key).unwrap_or_else(|| panic!("missing {}", key)).parse().expect("uint")
}

const F64_SPECIALS: &[u64] = &[
    0x0000000000000000, 0x8000000000000000, 0x7ff8000000000000, 0x7ff0000000000000, 0xfff0000000000000,
    0x3ff0000000000000, 0x0000000000000001, 0x7fefffffffffffff,
];

fn next_up(x: f64) -> f64 {
    f64::from_bits(x.to_bits() + 1)
}
fn next_down(x: f64) -> f64 {
    f64::from_bits(x.to_bits() - 1)
}

// ------------------------------------------------------------------------------------ c10_filter_poll

fn blank_measurement() -> InternalMeasurement<NtpDuration> {
    InternalMeasurement {
        delay: dur(0),
        offset: dur(0),
        localtime: ts(0),
        root_delay: dur(0),
        root_dispersion: dur(0),
        leap: NtpLeapIndicator::NoWarning,
        precision: 0,
    }
}

fn blank_filter(initial: PollInterval) -> SourceFilter<NtpDuration, AveragingBuffer> {
    SourceFilter {
        state: KalmanState {
            state: Vector::new_vector([0.0, 0.0]),
            uncertainty: Matrix::new([[1e-6, 0.0], [0.0, 1e-8]]),
            time: ts(0),
        },
        clock_wander: 1e-16,
        noise_estimator: AveragingBuffer::default(),
        precision_score: 0,
        poll_score: 0,
        desired_poll_interval: initial,
        last_measurement: blank_measurement(),
        last_monotime: tokio::time::Instant::now(),
        prev_was_outlier: false,
        last_iter: ts(0),
    }
}

fn gen_poll_case(rng: &mut Rng, idx: u64, _run: &Run) -> Vec<String> {
    let mut ops = vec![];
    // configuration: mostly inside the property's quantifier 0 <= min <= init <= max <= 17
    let (min, init, max) = match rng.below(10) {
        0..=5 => {
            let a = rng.range(0, 17);
            let c = rng.range(a, 17);
            let b = rng.range(a, c);
            (a, b, c)
        }
        6 => (4, 4, 10),
        7 => {
            // small configurations enumerated by index
            let k = idx % 64;
            let a = (k % 4) as i64;
            let c = a + ((k / 4) % 4) as i64;
            let b = a + ((k / 16) as i64).min(c - a);
            (a, b, c)
        }
        _ => {
            let a = rng.range(-127, 126);
            let c = rng.range(a, 126);
            let b = rng.range(a, c);
            (a, b, c)
        }
    };
    let hyst: i64 = match rng.below(12) {
        0 => 1,
        1 => 2,
        2 | 3 => 3,
        4 | 5 => 16,
        6 => 0,
        7 => -3,
        8 => i32::MAX as i64,
        9 => i32::MIN as i64 + 1,
        _ => rng.range(1, 6),
    };
    let (low, high, thr) = if rng.chance(3, 4) {
        (0.4, 0.6, 1e-6)
    } else {
        let f = |rng: &mut Rng| match rng.below(4) {
            0 => f64::from_bits(*rng.pick(F64_SPECIALS)),
            1 => f64::from_bits(rng.next_u64()),
            _ => rng.f64_unit(),
        };
        (f(rng), f(rng), f(rng))
    };
    ops.push(format!(
        "pcfg min={} max={} init={} low={} high={} hyst={} thr={}",
        min, max, init, f64hex(low), f64hex(high), hyst, f64hex(thr)
    ));
    // the model and the harness both track `desired`; the generator needs the reference period only
    // approximately, so it aims ratios at the current *guess* of the desired interval (init)
    let n = rng.usize(1, 120);
    let mut guess = init;
    let mut dir = rng.below(3);
    for i in 0..n {
        if rng.chance(1, 12) {
            dir = rng.below(3);
        }
        let w = match (dir, rng.below(14)) {
            (_, 0) => f64::NAN,
            (_, 1) => low,
            (_, 2) => high,
            (_, 3) => next_down(low.abs().max(1e-300)),
            (_, 4) => next_up(high.abs().max(1e-300)),
            (0, _) => low * rng.f64_unit(),
            (1, _) => high + (1.0 - high) * rng.f64_unit() + 1e-9,
            _ => low + (high - low) * rng.f64_unit(),
        };
        let reference = 2f64.powi(guess.clamp(-32, 30) as i32);
        let ratio = match rng.below(12) {
            0 => 0.75,
            1 => next_up(0.75),
            2 => 1.4,
            3 => next_down(1.4),
            4 => f64::NAN,
            5 => 0.0,
            6 => f64::INFINITY,
            7 => rng.f64_unit() * 3.0,
            _ => 1.0,
        };
        let mp = ratio * reference;
        let p = match rng.below(16) {
            0 => thr,
            1 => next_up(thr.abs().max(1e-300)),
            2 => 0.0,
            3 => f64::NAN,
            4 if i % 7 == 0 => -1.0,
            _ => 0.05 + rng.f64_unit() * 0.95,
        };
        ops.push(format!("poll p={} w={} mp={}", f64hex(p), f64hex(w), f64hex(mp)));
        // crude tracking of where the desire is heading, to keep ratios near the decision boundaries
        if rng.chance(1, 16) {
            guess = (guess + if dir == 0 { 1 } else if dir == 1 { -1 } else { 0 }).clamp(min, max);
        }
    }
    ops
}

fn exec_poll_case(ops: &[String], run: &mut Run) {
    let mut filter = blank_filter(PollInterval::default());
    let mut source_config = SourceConfig::default();
    let mut algo_config = AlgorithmConfig::default();
    let mut key = String::new();
    let mut changes = 0;
    let mut in_quantifier = false;
    for op in ops {
        run.begin_op(op);
        let w: Vec<&str> = op.split_whitespace().collect();
        match w[0] {
            "pcfg" => {
                let (min, max, init) = (ix(&w, "min"), ix(&w, "max"), ix(&w, "init"));
                source_config.poll_interval_limits = PollIntervalLimits {
                    min: PollInterval::from_byte(min as i8 as u8),
                    max: PollInterval::from_byte(max as i8 as u8),
                };
                source_config.initial_poll_interval = PollInterval::from_byte(init as i8 as u8);
                algo_config.poll_interval_low_weight = fx(&w, "low");
                algo_config.poll_interval_high_weight = fx(&w, "high");
                algo_config.poll_interval_hysteresis = ix(&w, "hyst") as i32;
                algo_config.poll_interval_step_threshold = fx(&w, "thr");
                filter = blank_filter(source_config.initial_poll_interval);
                in_quantifier = 0 <= min && min <= init && init <= max && max <= 17;
                run.hit(if in_quantifier { "cfg-in-quantifier" } else { "cfg-wide" });
                run.end_op("ok");
            }
            "poll" => {
                let before = filter.desired_poll_interval.as_log();
                filter.update_desired_poll(&source_config, &algo_config, fx(&w, "p"), fx(&w, "w"), fx(&w, "mp"));
                let d = filter.desired_poll_interval.as_log();
                let (lo, hi) = (
                    source_config.poll_interval_limits.min.as_log(),
                    source_config.poll_interval_limits.max.as_log(),
                );
                // ORACLE (C10, last sentence): the filter's desired interval lies within the limits
                if d < lo || d > hi {
                    run.oracle_fail(
                        "filter_desire_in_limits",
                        &format!("in_quantifier={}", in_quantifier as u8),
                        &format!("desired {} outside [{}, {}] (was {})", d, lo, hi, before),
                    );
                }
                if d != before {
                    changes += 1;
                    key.push_str(&format!("{}>{};", before, d));
                    run.hit(if d == lo && d < before - 1 {
                        "reset-to-min"
                    } else if d > before {
                        "inc"
                    } else {
                        "dec-or-reset"
                    });
                } else if filter.poll_score == 0 {
                    run.hit("score-zero");
                }
                run.end_op(&format!("d={} s={}", d, filter.poll_score));
            }
            _ => run.end_op("bad-op"),
        }
    }
    if changes > 0 {
        run.nontrivial(&key);
    }
}

// ------------------------------------------------------------------------------------ c06_kstate

fn kstate_line(s: &KalmanState) -> String {
    format!(
        "{} {} {} {} {} {} t={}",
        f64hex(s.state.ventry(0)),
        f64hex(s.state.ventry(1)),
        f64hex(s.uncertainty.entry(0, 0)),
        f64hex(s.uncertainty.entry(0, 1)),
        f64hex(s.uncertainty.entry(1, 0)),
        f64hex(s.uncertainty.entry(1, 1)),
        ts_u64(s.time)
    )
}

fn parse_kstate(w: &[&str], t: u64) -> KalmanState {
    let f = |s: &str| f64unhex(s).expect("f64 hex");
    KalmanState {
        state: Vector::new_vector([f(w[0]), f(w[1])]),
        uncertainty: Matrix::new([[f(w[2]), f(w[3])], [f(w[4]), f(w[5])]]),
        time: ts(t),
    }
}

/// magnitude spread over many decades
fn mag(rng: &mut Rng, lo_exp: i64, hi_exp: i64) -> f64 {
    (0.5 + rng.f64_unit()) * 10f64.powi(rng.range(lo_exp, hi_exp) as i32)
}

fn gen_psd(rng: &mut Rng) -> [f64; 4] {
    // a = variance of offset, c = variance of frequency, b with |b| <= sqrt(ac)
    let a = match rng.below(8) {
        0 => 0.0,
        _ => mag(rng, -18, 4),
    };
    let c = match rng.below(8) {
        0 => 0.0,
        _ => mag(rng, -20, -4),
    };
    let rho = match rng.below(6) {
        0 => 0.0,
        1 => 1.0,
        2 => -1.0,
        _ => rng.f64_unit() * 2.0 - 1.0,
    };
    let b = rho * (a * c).sqrt();
    [a, b, b, c]
}

fn gen_kstate_words(rng: &mut Rng) -> String {
    let p = if rng.chance(1, 10) {
        // not a covariance at all: arbitrary patterns (NaN, inf, asymmetric)
        let f = |rng: &mut Rng| match rng.below(3) {
            0 => f64::from_bits(*rng.pick(F64_SPECIALS)),
            1 => f64::from_bits(rng.next_u64()),
            _ => mag(rng, -10, 10) * if rng.chance(1, 2) { -1.0 } else { 1.0 },
        };
        [f(rng), f(rng), f(rng), f(rng)]
    } else {
        gen_psd(rng)
    };
    let x0 = match rng.below(6) {
        0 => 0.0,
        1 => 2147483648.0 * if rng.chance(1, 2) { -1.0 } else { 1.0 },
        _ => (rng.f64_unit() * 2.0 - 1.0) * mag(rng, -9, 3),
    };
    let x1 = match rng.below(4) {
        0 => 0.0,
        _ => (rng.f64_unit() * 2.0 - 1.0) * mag(rng, -9, -3),
    };
    format!("{} {} {} {} {} {}", f64hex(x0), f64hex(x1), f64hex(p[0]), f64hex(p[1]), f64hex(p[2]), f64hex(p[3]))
}

fn gen_ticks(rng: &mut Rng) -> u64 {
    // 1 ms … 2^17 s in units of 2^-32 s, plus corners
    match rng.below(10) {
        0 => 4294967, // ~1 ms
        1 => (1u64 << 17) << 32,
        2 => 0,
        3 => 1,
        _ => {
            let e = rng.range(-10, 17);
            let base = if e >= 0 { (1u64 << e) << 32 } else { (1u64 << 32) >> (-e) };
            base + rng.below(base / 2 + 1)
        }
    }
}

fn gen_wander(rng: &mut Rng) -> f64 {
    match rng.below(8) {
        0 => 0.0,
        1 => 1e-16,
        2 => 5e-324,
        _ => mag(rng, -30, -8),
    }
}

/// root delay / root dispersion values a peer can choose (seconds; NTP short format 16.16)
const WIRE_DISPERSIONS: &[f64] = &[0.0, 1.52587890625e-05, 1.0, 16.0, 65535.0, 65535.99998474121];

fn wire_ticks(rng: &mut Rng) -> i64 {
    // the same values in 2^-32 s ticks, as `NtpDuration::from_bits_short` produces them
    *rng.pick(&[0i64, 1 << 16, 1 << 32, 16 << 32, 65535i64 << 32, 0xFFFF_FFFFi64 << 16])
}

fn gen_kstate_case(rng: &mut Rng, _idx: u64, _run: &Run) -> Vec<String> {
    let mut ops = vec![];
    let mut t: u64 = match rng.below(4) {
        0 => 0,
        1 => u64::MAX - (5u64 << 32), // close to the era wrap
        _ => rng.next_u64(),
    };
    ops.push(format!("kset {} t={}", gen_kstate_words(rng), t));
    let n = rng.usize(1, 12);
    for _ in 0..n {
        match rng.below(12) {
            0..=3 => {
                let back = rng.chance(1, 12);
                let d = gen_ticks(rng);
                let nt = if back { t.wrapping_sub(d) } else { t.wrapping_add(d) };
                if !back {
                    t = nt;
                }
                ops.push(format!("kprog t={} w={}", nt, f64hex(gen_wander(rng))));
            }
            4..=7 => {
                let (h0, h1) = match rng.below(5) {
                    0..=2 => (1.0, 0.0),
                    3 => (0.0, 1.0),
                    _ => (rng.f64_unit() * 2.0 - 1.0, rng.f64_unit() * 2.0 - 1.0),
                };
                let z = (rng.f64_unit() * 2.0 - 1.0) * mag(rng, -9, 3);
                let r = match rng.below(8) {
                    0 => 0.0,
                    1 => 5e-324,
                    _ => mag(rng, -20, 0),
                };
                ops.push(format!("kabs h0={} h1={} z={} r={}", f64hex(h0), f64hex(h1), f64hex(z), f64hex(r)));
            }
            8 => ops.push(format!("kmerge {}", gen_kstate_words(rng))),
            9 => {
                // root dispersions a peer can put on the wire (16.16 fixed point): 0, one unit, 1 s, 16 s, and the
                // top of the range (65535 s, 0xFFFF.FFFF = 65535.99998 s), next to ordinary small ones
                let d = match rng.below(8) {
                    0 => 0.0,
                    1 => *rng.pick(WIRE_DISPERSIONS),
                    2 => *rng.pick(&[65535.0, 65535.99998474121, 65534.99998474121, 65535.5]),
                    _ => mag(rng, -9, 1),
                };
                ops.push(format!("kdisp d={}", f64hex(d)));
            }
            10 => {
                let s = (rng.f64_unit() * 2.0 - 1.0) * mag(rng, -9, 4);
                t = ts_u64(ts(t) + NtpDuration::from_seconds(s));
                ops.push(format!("kosteer s={}", f64hex(s)));
            }
            _ => {
                let d = gen_ticks(rng);
                t = t.wrapping_add(d);
                let s = (rng.f64_unit() * 2.0 - 1.0) * mag(rng, -12, -4);
                ops.push(format!("kfsteer t={} s={} w={}", t, f64hex(s), f64hex(gen_wander(rng))));
            }
        }
    }
    ops
}

fn is_psd_finite(s: &KalmanState) -> bool {
    let (a, b, b2, c) = (
        s.uncertainty.entry(0, 0),
        s.uncertainty.entry(0, 1),
        s.uncertainty.entry(1, 0),
        s.uncertainty.entry(1, 1),
    );
    a.is_finite() && b.is_finite() && c.is_finite() && b == b2 && a >= 0.0 && c >= 0.0 && a * c >= b * b
}

fn exec_kstate_case(ops: &[String], run: &mut Run) {
    let mut st = KalmanState {
        state: Vector::new_vector([0.0, 0.0]),
        uncertainty: Matrix::new([[0.0, 0.0], [0.0, 0.0]]),
        time: ts(0),
    };
    let mut key = String::new();
    let mut finite_results = 0;
    for op in ops {
        run.begin_op(op);
        let w: Vec<&str> = op.split_whitespace().collect();
        match w[0] {
            "kset" => {
                st = parse_kstate(&w[1..7], ux(&w, "t"));
                run.end_op("ok");
            }
            "kprog" => {
                st = st.progress_time(ts(ux(&w, "t")), fx(&w, "w"), None);
                key.push('p');
                run.end_op(&kstate_line(&st));
            }
            "kabs" => {
                let was_psd = is_psd_finite(&st);
                let r = fx(&w, "r");
                let (h0, h1) = (fx(&w, "h0"), fx(&w, "h1"));
                let (ns, stats) = st.absorb_measurement(
                    Matrix::new([[h0, h1]]),
                    Vector::new_vector([fx(&w, "z")]),
                    Matrix::new([[r]]),
                    None,
                    |value, _prediction, _period| value,
                );
                // ORACLE: `symmetrize` makes the covariance exactly symmetric (whatever the rounding)
                let (b, b2) = (ns.uncertainty.entry(0, 1), ns.uncertainty.entry(1, 0));
                if !(b == b2 || (b.is_nan() && b2.is_nan())) {
                    run.oracle_fail("absorb_symmetric", "", &format!("P01={:e} P10={:e}", b, b2));
                }
                // ORACLE: for a finite PSD prior and positive finite noise the weight is in [0, 1]
                if was_psd && r > 0.0 && r.is_finite() && (h0, h1) == (1.0, 0.0) {
                    if !(stats.weight >= 0.0 && stats.weight <= 1.0) {
                        run.oracle_fail("weight_in_unit_interval", "", &format!("weight={:e}", stats.weight));
                    }
                    run.hit("absorb-psd-prior");
                }
                st = ns;
                key.push('a');
                run.end_op(&format!(
                    "{} p={} w={}",
                    kstate_line(&st),
                    f64hex(stats.observe_probability),
                    f64hex(stats.weight)
                ));
            }
            "kmerge" => {
                let other = parse_kstate(&w[1..7], ts_u64(st.time));
                st = st.merge(&other);
                key.push('m');
                run.end_op(&kstate_line(&st));
            }
            "kdisp" => {
                let before_finite = is_psd_finite(&st);
                let d = fx(&w, "d");
                st = st.add_server_dispersion(d);
                // ORACLE (C06, "never passes an infinite error estimate / publishes finite snapshots"): adding
                // a root dispersion from the wire range [0, 65536) s to a finite covariance keeps it finite
                if before_finite && d >= 0.0 && d < 65536.0 {
                    let a = st.uncertainty.entry(0, 0);
                    if !a.is_finite() {
                        run.oracle_fail("dispersion_keeps_finite", "", &format!("add_server_dispersion({:e}) made the offset variance {:e}", d, a));
                    }
                    run.hit("dispersion-on-finite-psd");
                }
                key.push('d');
                run.end_op(&kstate_line(&st));
            }
            "kosteer" => {
                st = st.process_offset_steering(fx(&w, "s"), None);
                key.push('o');
                run.end_op(&kstate_line(&st));
            }
            "kfsteer" => {
                st = st.process_frequency_steering(ts(ux(&w, "t")), fx(&w, "s"), fx(&w, "w"), None);
                key.push('f');
                run.end_op(&kstate_line(&st));
            }
            _ => run.end_op("bad-op"),
        }
        if w[0] != "kset" && st.state.ventry(0).is_finite() && st.uncertainty.entry(0, 0).is_finite() {
            finite_results += 1;
        }
    }
    if finite_results > 0 {
        key.push_str(&format!("#{}", run_fnv(ops)));
        run.nontrivial(&key);
    }
}

fn run_fnv(ops: &[String]) -> u64 {
    let mut h: u64 = 0xcbf2_9ce4_8422_2325;
    for o in ops {
        for b in o.bytes() {
            h = (h ^ b as u64).wrapping_mul(0x0100_0000_01B3);
        }
    }
    h
}

// ------------------------------------------------------------------------------------ c06_filter

const TICKS_PER_S: f64 = 4294967296.0;

fn secs_to_ticks(s: f64) -> i64 {
    let v = s * TICKS_PER_S;
    if v >= 9.2e18 {
        i64::MAX
    } else if v <= -9.2e18 {
        i64::MIN
    } else {
        v as i64
    }
}

/// nanoseconds of monotonic time that correspond to `ticks` (2^-32 s units), rounded down
fn ticks_to_ns(ticks: u64) -> u64 {
    ((ticks as u128 * 1_000_000_000u128) >> 32) as u64
}

/// F-C06 witness (found by this stream, seed 1 case 1533): eight identical offsets, all delays below
/// MIN_DELAY (so every preprocessed delay is identical and the measurement-noise estimate is exactly 0),
/// spacing ~32 s: rounding makes P11 and then P00 negative, `observe()` feeds NaN to `from_seconds`.
const WITNESS_F_C06: &[&str] = &[
    "fcfg min=8 max=11 init=11 plow=3fd5555555555555 phigh=3fe5555555555555 physt=2 pminw=3fb999999999999a wlow=3fd999999999999a whigh=3fe3333333333333 whyst=16 wthr=3eb0c6f7a0b5ed8d outl=4014000000000000 iw=3d719799812dea11 ifu=3f50624dd2f1a9fc medd=21474836480 inq=1",
    "meas mono=32244846568 lt=138490561478 off=-9223372036854775808 delay=12 rdelay=42296324 rdisp=13781398",
    "meas mono=32464194768 lt=277923216300 off=-9223372036854775808 delay=301 rdelay=1475044 rdisp=3543790",
    "meas mono=32298383117 lt=416643715502 off=-9223372036854775808 delay=183 rdelay=87202022 rdisp=8421426",
    "meas mono=32473121882 lt=556114711986 off=-9223372036854775808 delay=425 rdelay=17901024 rdisp=36375450",
    "meas mono=32315229507 lt=694907565885 off=-9223372036854775808 delay=234 rdelay=212108954 rdisp=42352642",
    "meas mono=32408015557 lt=834098932832 off=-9223372036854775808 delay=152 rdelay=83539852 rdisp=36859166",
    "meas mono=32154923032 lt=972203275662 off=-9223372036854775808 delay=237 rdelay=138587558 rdisp=13389195",
    "meas mono=32191315873 lt=1110463924553 off=-9223372036854775808 delay=393 rdelay=139125380 rdisp=18748024",
    "meas mono=32065201561 lt=1248182916598 off=-9223372036854775808 delay=339 rdelay=7465866 rdisp=1061846",
    "meas mono=32426937092 lt=1387455550919 off=-9223372036854775808 delay=300 rdelay=99812540 rdisp=6382720",
    "meas mono=32235422516 lt=1525905636401 off=-9223372036854775808 delay=73 rdelay=34770490 rdisp=180945",
];

fn gen_filter_case(rng: &mut Rng, idx: u64, run: &Run) -> Vec<String> {
    if idx == 0 {
        return WITNESS_F_C06.iter().map(|s| s.to_string()).collect();
    }
    if idx == 1 {
        // F-C06c witness (thorough tier, seed 1 case 6, reduced): identical measurements (offset 0, delay 0)
        // every 63 ms with precision-hysteresis 1: every measurement equals the prediction, the wander
        // estimate is quartered on every update until the predicted variance underflows; with the noise
        // estimate exactly 0 the innovation variance S becomes subnormal, 1/S = inf, the state NaN.
        let mut ops = vec!["fcfg min=9 max=9 init=9 plow=3fd5555555555555 phigh=3fe5555555555555 physt=1 pminw=3fb999999999999a wlow=3fd999999999999a whigh=3fe3333333333333 whyst=1 wthr=3eb0c6f7a0b5ed8d outl=4014000000000000 iw=3d719799812dea11 ifu=3f50624dd2f1a9fc medd=21474836480 inq=1".to_string()];
        let mut lt: u64 = 1885209537190747541;
        for _ in 0..540 {
            lt += 270582939; // 63 ms in 2^-32 s
            ops.push(format!("meas mono=63000000 lt={} off=0 delay=0 rdelay=1000 rdisp=1000", lt));
        }
        return ops;
    }
    let mut ops = vec![];
    // --- configuration
    let default_cfg = rng.chance(2, 3);
    let (min, init, max) = if default_cfg {
        (4, 4, 10)
    } else {
        let a = rng.range(0, 10);
        let c = rng.range(a, 17);
        (a, rng.range(a, c), c)
    };
    let hyst_p = if default_cfg { 16 } else { *rng.pick(&[1i64, 2, 4, 16]) };
    let hyst_w = if default_cfg { 16 } else { *rng.pick(&[1i64, 2, 4, 16]) };
    let iw = if default_cfg { 1e-8 } else { *rng.pick(&[1e-8, 1e-6, 1e-10, 1e-12]) };
    let ifu = if default_cfg { 100e-6 } else { *rng.pick(&[100e-6, 1e-3, 1e-6]) };
    // in_q: the history stays inside the quantifier of C06 (increasing local times spaced 1 ms … 2^17 s,
    // offsets/delays representable, no meddling).  Otherwise: correspondence only.
    let in_q = !rng.chance(1, 6);
    ops.push(format!(
        "fcfg min={} max={} init={} plow={} phigh={} physt={} pminw={} wlow={} whigh={} whyst={} wthr={} outl={} iw={} ifu={} medd={} inq={}",
        min, max, init,
        f64hex(1.0 / 3.0), f64hex(2.0 / 3.0), hyst_p, f64hex(0.1),
        f64hex(0.4), f64hex(0.6), hyst_w, f64hex(1e-6),
        f64hex(5.0), f64hex(iw), f64hex(ifu), dur_i64(NtpDuration::from_seconds(5.0)), in_q as u8
    ));
    // --- scenario
    let scenario = match idx {
        2 => 1, // identical offsets and delays (design-time adversarial case) always first
        3 => 2, // huge offsets
        _ => rng.below(8),
    };
    let n = if run.tier_thorough { rng.usize(20, 2000) } else { rng.usize(10, 260) };
    let mut local: u64 = match rng.below(4) {
        0 => 0,
        1 => u64::MAX - (300u64 << 32),
        _ => rng.next_u64(),
    };
    let mut theta: f64 = match scenario {
        2 => 2147483647.0 * if rng.chance(1, 2) { -1.0 } else { 1.0 },
        _ => (rng.f64_unit() * 2.0 - 1.0) * mag(rng, -6, 1),
    };
    // fixed share (every 5th history): a LARGE COMMON offset with small jitter from the very first sample (a
    // clock that is a day / 11 days / 68 years off): the start-up variance is a difference of huge squares
    let big_common = idx % 5 == 4;
    if big_common {
        theta = *rng.pick(&[86400.0, -86400.0, 1e6, -1e6, 2147480000.0, -2147480000.0, 604800.0]);
    }
    // fixed share (every 3rd history): root delay / dispersion are the peer's choice: wire boundary values
    let wire_roots = idx % 3 == 2;
    let mut drift: f64 = (rng.f64_unit() * 2.0 - 1.0) * *rng.pick(&[0.0, 1e-9, 1e-6, 50e-6, 400e-6]);
    let jitter = if big_common { *rng.pick(&[1e-5, 1e-6, 1e-4]) } else { *rng.pick(&[0.0, 1e-9, 1e-6, 1e-4, 1e-2]) };
    let delay_base = *rng.pick(&[0.0, 1e-6, 1e-4, 5e-3, 0.3, 30.0]);
    let delay_jit = if big_common { 1e-5 } else { *rng.pick(&[0.0, 1e-7, 1e-5, 1e-3]) };
    let mut spacing_exp: i64 = rng.range(-10, 17);
    let fixed_spacing = rng.chance(1, 2);
    let mut recent: Vec<f64> = vec![];
    let mut last_off = 0.0f64;
    for i in 0..n {
        // spacing
        let ticks: u64 = if fixed_spacing {
            let base = if spacing_exp >= 0 { (1u64 << spacing_exp) << 32 } else { (1u64 << 32) >> (-spacing_exp) };
            base.max(4294968) + rng.below(1 + base / 64)
        } else {
            gen_ticks(rng).clamp(4294968, (1u64 << 17) << 32)
        };
        if rng.chance(1, 40) {
            spacing_exp = (spacing_exp + rng.range(-2, 2)).clamp(-10, 17);
        }
        let mut lt_ticks = ticks;
        let mut mono_ns = ticks_to_ns(ticks);
        if !in_q {
            match rng.below(30) {
                0 => lt_ticks = 0,                                        // same local time twice
                1 => lt_ticks = ticks.wrapping_neg(),                      // local time goes backwards
                2 => mono_ns += 6_000_000_000,                             // clock meddling: > 5 s apart
                3 => mono_ns = mono_ns.saturating_sub(5_500_000_000),
                4 => mono_ns += 4_999_000_000,                             // just inside the threshold
                5 => lt_ticks = 1u64 << 63,                                // local difference = i64::MIN: saturating abs_diff
                6 => lt_ticks = (1u64 << 63) + 1,
                _ => {}
            }
        }
        local = local.wrapping_add(lt_ticks);
        let dt_s = ticks as f64 / TICKS_PER_S;
        theta += drift * dt_s;
        // measured offset / delay
        let noise = (rng.f64_unit() * 2.0 - 1.0) * jitter;
        let mut off = theta + noise;
        let mut delay = delay_base + rng.f64_unit() * delay_jit;
        match scenario {
            1 => {
                // identical measurements
                off = last_off;
                delay = delay_base;
            }
            3 => {
                // alternating outliers in offset and delay
                if i % 2 == 1 {
                    off += *rng.pick(&[1.0, -1.0, 100.0, 1e-3]);
                    delay += *rng.pick(&[0.0, 1.0, 10.0]);
                }
            }
            4 => {
                // rare huge delay spikes
                if rng.chance(1, 9) {
                    delay += mag(rng, -2, 3);
                }
            }
            5 => {
                // offsets quantised to one tick, zero delay
                off = (off * TICKS_PER_S).round() / TICKS_PER_S;
                delay = 0.0;
            }
            6 => {
                // offset jumps (server steps)
                if rng.chance(1, 25) {
                    theta += (rng.f64_unit() * 2.0 - 1.0) * mag(rng, -3, 2);
                }
            }
            _ => {}
        }
        if i == 0 {
            last_off = off;
        }
        let off_t = secs_to_ticks(off);
        let delay_t = secs_to_ticks(delay).max(if rng.chance(1, 50) { -1000 } else { 0 });
        let rdelay = if wire_roots { wire_ticks(rng) } else { secs_to_ticks(rng.f64_unit() * 0.05) };
        let rdisp = if wire_roots { wire_ticks(rng) } else { secs_to_ticks(rng.f64_unit() * 0.01) };
        ops.push(format!(
            "meas mono={} lt={} off={} delay={} rdelay={} rdisp={}",
            mono_ns, local, off_t, delay_t, rdelay, rdisp
        ));
        recent.push(off);
        if recent.len() > 8 {
            recent.remove(0);
        }
        // --- emulated steering feedback (what the clock controller would send)
        if i >= 8 && scenario != 1 && rng.chance(1, 10) {
            let est: f64 = recent.iter().sum::<f64>() / recent.len() as f64;
            if rng.chance(1, 2) && est.abs() < 1e6 {
                // step: the local clock jumps by `est`; later offsets shrink accordingly
                let steer = est;
                ops.push(format!("step s={}", f64hex(steer)));
                local = ts_u64(ts(local) + NtpDuration::from_seconds(steer));
                theta -= steer;
                for r in recent.iter_mut() {
                    *r -= steer;
                }
            } else {
                // frequency change: estimated slope over the recent window, capped like the controller
                let slope = (recent[recent.len() - 1] - recent[0]) / (recent.len() as f64 * dt_s.max(1e-3));
                let steer = slope.clamp(-495e-6, 495e-6);
                ops.push(format!("freq t={} s={}", local, f64hex(steer)));
                drift -= steer;
            }
        }
    }
    ops
}

/// ---- root-cause classification for the finiteness oracle (known findings are registered BY CAUSE) ----
/// Evaluated on the implementation's own filter state, never through the Lean model.
///
/// `psd_lost`            the 2x2 covariance of the stable filter is indefinite: a negative diagonal entry
///                       or a strictly negative determinant (as computed in f64), before or after the op.
///                       In exact arithmetic this cannot happen (C06.history_keeps_psd); it is the
///                       rounding of `(I - K H) P` in `absorb_measurement`, typically when the noise
///                       estimate is exactly 0 so that K0 rounds to 1.
/// `innovation_vanished` the innovation variance S = P00(predicted) + R the next `absorb_measurement`
///                       will divide by is zero or so small that 1/S is not finite (R exactly 0 and the
///                       wander estimate quartered until P00 underflows).  In exact arithmetic S > 0
///                       (C06.innovation_variance_positive).
/// `none`                neither: a failure with this attribute is a NEW violation.
fn cov_indefinite(k: &KalmanState) -> bool {
    let (a, b, c) = (k.uncertainty.entry(0, 0), k.uncertainty.entry(0, 1), k.uncertainty.entry(1, 1));
    let b2 = k.uncertainty.entry(1, 0);
    if !(a.is_finite() && b.is_finite() && b2.is_finite() && c.is_finite()) {
        return false;
    }
    a < 0.0 || c < 0.0 || a * c - b * b2 < 0.0
}

fn cov_finite(k: &KalmanState) -> bool {
    (0..2).all(|i| (0..2).all(|j| k.uncertainty.entry(i, j).is_finite()))
}

/// cause visible BEFORE a measurement is handed to the controller
fn pre_cause_meas<D: core::fmt::Debug + Copy + Clone + Send + 'static, N: MeasurementNoiseEstimator<MeasurementDelay = D> + Clone + Send + 'static>(
    ctrl: &KalmanSourceController<D, N>,
    m: &InternalMeasurement<D>,
) -> &'static str {
    match &ctrl.state.0 {
        SourceStateInner::Stable(f) => {
            if cov_indefinite(&f.state) {
                return "psd_lost";
            }
            if !cov_finite(&f.state) {
                return "none";
            }
            // what `SourceFilter::update` is about to compute (pure re-computation on copies)
            let pred = f.state.progress_time(m.localtime, f.clock_wander, None);
            let mut ne = f.noise_estimator.clone();
            let delay = MeasurementNoiseEstimator::preprocess(&ne, m.delay);
            MeasurementNoiseEstimator::update(&mut ne, delay);
            let r = ne.get_noise_estimate();
            let s = pred.uncertainty.entry(0, 0) + r;
            if cov_indefinite(&pred) {
                "psd_lost"
            } else if r < 0.0 {
                // a negative measurement-noise estimate is never a registered cause: the two-pass
                // `AveragingBuffer::variance` is a sum of squares
                "noise_negative"
            } else if s.is_finite() && (!(s > 0.0) || !(1.0 / s).is_finite()) {
                "innovation_vanished"
            } else {
                "none"
            }
        }
        SourceStateInner::Initial(_) => "none",
    }
}

fn pre_cause_msg<D: core::fmt::Debug + Copy + Clone + Send + 'static, N: MeasurementNoiseEstimator<MeasurementDelay = D> + Clone + Send + 'static>(ctrl: &KalmanSourceController<D, N>) -> &'static str {
    match &ctrl.state.0 {
        SourceStateInner::Stable(f) if cov_indefinite(&f.state) => "psd_lost",
        _ => "none",
    }
}

/// cause to attach to failures reported after the op, and the new sticky value (a NaN state keeps the
/// cause that produced it; a finite state is judged on its own)
fn post_cause<D: core::fmt::Debug + Copy + Clone + Send + 'static, N: MeasurementNoiseEstimator<MeasurementDelay = D> + Clone + Send + 'static>(
    ctrl: &KalmanSourceController<D, N>,
    pre: &'static str,
    sticky: &mut &'static str,
) -> &'static str {
    post_cause_p(ctrl, pre, sticky, false)
}

/// `promoted`: this op turned the initial filter into the stable one.  An indefinite covariance straight
/// out of the promotion (variance of the eight start-up samples negative) is NOT the registered cause
/// `psd_lost` (rounding of the measurement update): it gets its own, unregistered cause.
fn post_cause_p<D: core::fmt::Debug + Copy + Clone + Send + 'static, N: MeasurementNoiseEstimator<MeasurementDelay = D> + Clone + Send + 'static>(
    ctrl: &KalmanSourceController<D, N>,
    pre: &'static str,
    sticky: &mut &'static str,
    promoted: bool,
) -> &'static str {
    let pre = if *sticky == "init_variance_negative" && pre == "psd_lost" { "init_variance_negative" } else { pre };
    let (indefinite, finite) = match &ctrl.state.0 {
        SourceStateInner::Stable(f) => (cov_indefinite(&f.state), cov_finite(&f.state) && f.state.state.ventry(0).is_finite() && f.state.state.ventry(1).is_finite()),
        SourceStateInner::Initial(_) => (false, true),
    };
    let cause = if pre != "none" {
        pre
    } else if indefinite {
        if promoted { "init_variance_negative" } else { "psd_lost" }
    } else if !finite {
        *sticky
    } else {
        "none"
    };
    *sticky = if !finite { cause } else if indefinite { if promoted || *sticky == "init_variance_negative" { "init_variance_negative" } else { "psd_lost" } } else { "none" };
    cause
}

thread_local! {
    /// set by the c06_periodic stream so that non-periodic one-way sources print `per=-`
    static PRINT_PERIOD: std::cell::Cell<bool> = std::cell::Cell::new(false);
}

fn snapshot_line<D: core::fmt::Debug + Copy + Clone + Send + 'static, N: MeasurementNoiseEstimator<MeasurementDelay = D> + Clone + Send + 'static>(
    ctrl: &KalmanSourceController<D, N>,
    run: &mut Run,
    in_q: bool,
    cause: &str,
) -> String {
    let snap = ctrl.state.snapshot(ctrl.index, &ctrl.algo_config, ctrl.period);
    let poll = ctrl.desired_poll_interval().as_log();
    let observed = catch_unwind(AssertUnwindSafe(|| ctrl.observe()));
    // attribute for the known-finding signature: the measurement-noise estimate is exactly zero
    let r0 = match &ctrl.state.0 {
        SourceStateInner::Stable(f) => (f.noise_estimator.get_noise_estimate() == 0.0) as u8,
        SourceStateInner::Initial(_) => 0,
    };
    let mut s = String::new();
    match &snap {
        None => s.push_str("nosnap"),
        Some(sn) => {
            s.push_str(&format!(
                "{} wd={} dl={} su={} sd={} lu={}",
                kstate_line(&sn.state),
                f64hex(sn.wander),
                f64hex(sn.delay),
                dur_i64(sn.source_uncertainty),
                dur_i64(sn.source_delay),
                ts_u64(sn.last_update)
            ));
            // ORACLE (C06): the per-source estimates are finite, the variance is non-negative
            if in_q {
                let off = sn.state.state.ventry(0);
                let var = sn.state.uncertainty.entry(0, 0);
                let fvar = sn.state.uncertainty.entry(1, 1);
                let problems: Vec<&str> = [
                    (!off.is_finite(), "offset_not_finite"),
                    (!sn.state.state.ventry(1).is_finite(), "frequency_not_finite"),
                    (!var.is_finite(), "variance_not_finite"),
                    (!(var >= 0.0), "variance_negative"),
                    (!sn.delay.is_finite(), "delay_not_finite"),
                    (!sn.wander.is_finite() || !(sn.wander >= 0.0), "wander_bad"),
                    (
                        !sn.state.uncertainty.entry(0, 1).is_finite() || !sn.state.uncertainty.entry(1, 0).is_finite(),
                        "covariance_not_finite",
                    ),
                ]
                .iter()
                .filter(|(bad, _)| *bad)
                .map(|(_, n)| *n)
                .collect();
                for p in problems {
                    run.oracle_fail("estimates_finite", &format!("what={} cause={} noise_zero={}", p, cause, r0), &format!("snapshot {}", s));
                }
                // not one of the outputs the property lists, but ill-formed: recorded in the histogram
                if !(fvar >= 0.0) || !fvar.is_finite() {
                    run.hit(if r0 == 1 { "OBSERVATION-frequency-variance-negative(noise_zero=1)" } else { "OBSERVATION-frequency-variance-negative(noise_zero=0)" });
                }
            }
        }
    }
    if let (Some(sn), Some(per)) = (&snap, ctrl.period) {
        // periodic sources only (two-way sources have no period): the snapshot's `period` as `select`
        // consumes it, and the well-formedness of the wrapped state
        s.push_str(&format!(" per={}", f64hex(per)));
        let x0 = sn.state.state.ventry(0);
        if in_q && x0.is_finite() && per.is_finite() && per > 0.0 && !(x0.abs() <= per / 2.0) {
            run.oracle_fail("state_wrapped", &format!("cause={}", cause), &format!("x0={:e} period={:e}", x0, per));
        }
    } else if snap.is_some() && PRINT_PERIOD.with(|c| c.get()) {
        s.push_str(" per=-");
    }
    s.push_str(&format!(" poll={}", poll));
    match observed {
        Ok(o) => {
            if snap.is_some() {
                s.push_str(&format!(" obs={},{},{}", dur_i64(o.offset), dur_i64(o.uncertainty), dur_i64(o.delay)));
                if in_q && dur_i64(o.uncertainty) < 0 {
                    run.oracle_fail("estimates_finite", &format!("what=observed_uncertainty_negative cause={} noise_zero={}", cause, r0), &s);
                }
            } else {
                s.push_str(" obs=-");
            }
        }
        Err(_) => {
            // `NtpDuration::from_seconds` was handed NaN or an infinity
            s.push_str(" obs=panic");
            if in_q {
                run.oracle_fail("from_seconds_fed_nonfinite", &format!("what=observe cause={} noise_zero={}", cause, r0), &format!("{} | {}", s, common::last_panic()));
            }
            run.hit("observe-panic");
        }
    }
    s
}

fn exec_filter_case(ops: &[String], run: &mut Run) {
    let rt = tokio::runtime::Builder::new_current_thread()
        .enable_time()
        .start_paused(true)
        .build()
        .expect("runtime");
    rt.block_on(async {
        let mut source_config = SourceConfig::default();
        let mut algo_config = AlgorithmConfig::default();
        let mut ctrl: KalmanSourceController<NtpDuration, AveragingBuffer> = KalmanSourceController::new(
            ClockId::new(),
            algo_config,
            None,
            source_config,
            AveragingBuffer::default(),
        );
        let mut in_q = false;
        let mut key = String::new();
        let mut stable_updates = 0u32;
        let mut sticky: &'static str = "none";
        for op in ops {
            run.begin_op(op);
            let w: Vec<&str> = op.split_whitespace().collect();
            match w[0] {
                "fcfg" => {
                    source_config.poll_interval_limits = PollIntervalLimits {
                        min: PollInterval::from_byte(ix(&w, "min") as i8 as u8),
                        max: PollInterval::from_byte(ix(&w, "max") as i8 as u8),
                    };
                    source_config.initial_poll_interval = PollInterval::from_byte(ix(&w, "init") as i8 as u8);
                    algo_config.precision_low_probability = fx(&w, "plow");
                    algo_config.precision_high_probability = fx(&w, "phigh");
                    algo_config.precision_hysteresis = ix(&w, "physt") as i32;
                    algo_config.precision_minimum_weight = fx(&w, "pminw");
                    algo_config.poll_interval_low_weight = fx(&w, "wlow");
                    algo_config.poll_interval_high_weight = fx(&w, "whigh");
                    algo_config.poll_interval_hysteresis = ix(&w, "whyst") as i32;
                    algo_config.poll_interval_step_threshold = fx(&w, "wthr");
                    algo_config.delay_outlier_threshold = fx(&w, "outl");
                    algo_config.initial_wander = fx(&w, "iw");
                    algo_config.initial_frequency_uncertainty = fx(&w, "ifu");
                    algo_config.meddling_threshold = dur(ix(&w, "medd"));
                    in_q = ix(&w, "inq") == 1;
                    ctrl = KalmanSourceController::new(
                        ClockId::new(),
                        algo_config,
                        None,
                        source_config,
                        AveragingBuffer::default(),
                    );
                    sticky = "none";
                    run.hit(if in_q { "history-in-quantifier" } else { "history-outside-quantifier" });
                    run.end_op("ok");
                }
                "meas" => {
                    tokio::time::advance(std::time::Duration::from_nanos(ux(&w, "mono"))).await;
                    let was_stable = matches!(ctrl.state.0, SourceStateInner::Stable(_));
                    let m = InternalMeasurement {
                        delay: dur(ix(&w, "delay")),
                        offset: dur(ix(&w, "off")),
                        localtime: ts(ux(&w, "lt")),
                        root_delay: dur(ix(&w, "rdelay")),
                        root_dispersion: dur(ix(&w, "rdisp")),
                        leap: NtpLeapIndicator::NoWarning,
                        precision: 0,
                    };
                    let pre = pre_cause_meas(&ctrl, &m);
                    let msg = ctrl.handle_measurement(m);
                    let promoted = !was_stable && matches!(ctrl.state.0, SourceStateInner::Stable(_));
                    let cause = post_cause_p(&ctrl, pre, &mut sticky, promoted);
                    if cause != "none" {
                        run.hit(if cause == "psd_lost" { "CAUSE-psd_lost(op)" } else { "CAUSE-innovation_vanished(op)" });
                    }
                    let is_stable = matches!(ctrl.state.0, SourceStateInner::Stable(_));
                    match (was_stable, is_stable, msg.is_some()) {
                        (false, true, _) => run.hit("promoted-to-stable"),
                        (true, false, _) => run.hit("meddling-reset"),
                        (true, true, true) => {
                            stable_updates += 1;
                            run.hit("stable-absorbed")
                        }
                        (true, true, false) => run.hit("stable-ignored(outlier/past)"),
                        _ => run.hit("initial"),
                    }
                    key.push(if msg.is_some() { 'm' } else { 'i' });
                    let line = snapshot_line(&ctrl, run, in_q, cause);
                    run.end_op(&format!("msg={} {}", msg.is_some() as u8, line));
                }
                "step" => {
                    let pre = pre_cause_msg(&ctrl);
                    ctrl.handle_message(KalmanControllerMessage {
                        inner: KalmanControllerMessageInner::Step { steer: fx(&w, "s") },
                    });
                    let cause = post_cause(&ctrl, pre, &mut sticky);
                    run.hit("step");
                    key.push('s');
                    let line = snapshot_line(&ctrl, run, in_q, cause);
                    run.end_op(&line);
                }
                "freq" => {
                    let pre = pre_cause_msg(&ctrl);
                    ctrl.handle_message(KalmanControllerMessage {
                        inner: KalmanControllerMessageInner::FreqChange { steer: fx(&w, "s"), time: ts(ux(&w, "t")) },
                    });
                    let cause = post_cause(&ctrl, pre, &mut sticky);
                    run.hit("freq");
                    key.push('f');
                    let line = snapshot_line(&ctrl, run, in_q, cause);
                    run.end_op(&line);
                }
                _ => run.end_op("bad-op"),
            }
        }
        if stable_updates > 0 {
            key.push_str(&format!("#{}", run_fnv(ops)));
            run.nontrivial(&key);
        }
    });
}

// ------------------------------------------------------------------------------------ c06_periodic

type OneWay = KalmanSourceController<(), FixedMeasurementNoise>;

/// run `f` on its own thread; `None` if it has not finished after `ms` milliseconds (the thread is
/// left running: a Rust loop cannot be cancelled)
fn with_deadline<T: Send + 'static>(ms: u64, f: impl FnOnce() -> T + Send + 'static) -> Option<T> {
    let (tx, rx) = std::sync::mpsc::channel();
    std::thread::spawn(move || {
        let _ = tx.send(f());
    });
    rx.recv_timeout(std::time::Duration::from_millis(ms)).ok()
}

const PERIODS: &[f64] = &[1.0, 1.0, 1.0, 0.5, 0.2, 1.5, 2.0, 1e-3, 60.0, 0.1, 3.0];

fn gen_periodic_case(rng: &mut Rng, idx: u64, run: &Run) -> Vec<String> {
    let default_cfg = rng.chance(2, 3);
    let (min, init, max) = if default_cfg { (4, 4, 10) } else {
        let a = rng.range(0, 10);
        let c = rng.range(a, 17);
        (a, rng.range(a, c), c)
    };
    let hyst_p = if default_cfg { 16 } else { *rng.pick(&[1i64, 2, 4, 16]) };
    let hyst_w = if default_cfg { 16 } else { *rng.pick(&[1i64, 2, 4, 16]) };
    let iw = if default_cfg { 1e-8 } else { *rng.pick(&[1e-8, 1e-6, 1e-10, 1e-12]) };
    let ifu = if default_cfg { 100e-6 } else { *rng.pick(&[100e-6, 1e-3, 1e-6]) };
    let period: Option<f64> = match idx {
        0 | 1 => Some(1.0),
        _ => match rng.below(10) {
            0 => None,
            1 => Some(f64::INFINITY),
            _ => Some(*rng.pick(PERIODS)),
        },
    };
    let prec = *rng.pick(&[1e-9f64, 1e-7, 1e-6, 1e-4, 1e-12, 1e-3]);
    let prec = if rng.chance(1, 12) { 0.0 } else { prec };
    let acc = *rng.pick(&[0.0f64, 1e-6, 1e-3, 0.1, 2.0]);
    let in_q = !rng.chance(1, 8);
    let cfg = |inq: bool| format!(
        "ocfg min={} max={} init={} plow={} phigh={} physt={} pminw={} wlow={} whigh={} whyst={} wthr={} iw={} ifu={} medd={} prec={} acc={} period={} inq={}",
        min, max, init, f64hex(1.0 / 3.0), f64hex(2.0 / 3.0), hyst_p, f64hex(0.1), f64hex(0.4), f64hex(0.6), hyst_w,
        f64hex(1e-6), f64hex(iw), f64hex(ifu), dur_i64(NtpDuration::from_seconds(5.0)), f64hex(prec), f64hex(acc),
        period.map(f64hex).unwrap_or_else(|| "-".to_string()), inq as u8
    );
    // ---- corpus: the loops that do not come back (bounded-time guard in the executor)
    if idx == 0 {
        // `correct_periodicity` on an infinite / astronomically large state never terminates (x - p == x);
        // NaN terminates at once; 2^31 s with p = 1 s needs 2^31 iterations
        return vec![
            cfg(true),
            format!("owrap x0={} x1={} p={}", f64hex(f64::NAN), f64hex(0.0), f64hex(1.0)),
            format!("owrap x0={} x1={} p={}", f64hex(0.75), f64hex(-0.0), f64hex(1.0)),
            format!("owrap x0={} x1={} p={}", f64hex(-3.25), f64hex(-0.0), f64hex(1.0)),
            format!("owrap x0={} x1={} p={}", f64hex(f64::INFINITY), f64hex(0.0), f64hex(1.0)),
            format!("owrap x0={} x1={} p={}", f64hex(2147483648.0), f64hex(0.0), f64hex(1.0)),
        ];
    }
    if idx == 1 {
        // a first measurement 2^31 s away with a 1 s period: `InitialSourceFilter::update` walks there
        // one period at a time
        return vec![
            cfg(true),
            format!("omeas mono=1000000000 lt=4294967296 off={} rdelay=0 rdisp=0 guard=1", i64::MAX),
        ];
    }
    let mut ops = vec![cfg(in_q)];
    if idx % 5 == 2 {
        // `%` of the steering (C fmod) on its own
        for _ in 0..8 {
            let x = match rng.below(6) {
                0 => f64::from_bits(*rng.pick(F64_SPECIALS)),
                1 => f64::from_bits(rng.next_u64()),
                _ => (rng.f64_unit() * 2.0 - 1.0) * mag(rng, -9, 12),
            };
            let y = match rng.below(6) {
                0 => f64::from_bits(*rng.pick(F64_SPECIALS)),
                1 => f64::from_bits(rng.next_u64()),
                _ => *rng.pick(PERIODS),
            };
            ops.push(format!("orem x={} y={}", f64hex(x), f64hex(y)));
        }
    }
    let p = period.filter(|p| p.is_finite()).unwrap_or(1.0);
    // keep |x| / period (= iterations of the wrap loops) well below the model's budget (1e6): a filter fed half-period alternations
    // learns a frequency of several s/s, which a long gap turns into millions of periods
    let scenario = match rng.below(7) {
        5 if p < 0.5 => 6,
        x => x,
    };
    let n = if run.tier_thorough { rng.usize(20, 1500) } else { rng.usize(10, 220) };
    let mut local: u64 = match rng.below(4) {
        0 => 0,
        1 => u64::MAX - (300u64 << 32),
        _ => rng.next_u64(),
    };
    // true offset: near a wrap point, in the middle, or many periods away (bounded: <= 2e4 periods)
    let mut theta: f64 = match scenario {
        0 => p / 2.0 * if rng.chance(1, 2) { -1.0 } else { 1.0 },
        1 => (rng.range(-300, 300) as f64) * p + (rng.f64_unit() - 0.5) * p,
        2 => 0.0,
        _ => (rng.f64_unit() * 2.0 - 1.0) * p * *rng.pick(&[0.4, 0.5, 0.6, 3.0, 40.0]),
    };
    if period.is_none() && scenario == 1 {
        theta = (rng.f64_unit() * 2.0 - 1.0) * 2147483647.0;
    }
    let mut drift: f64 = (rng.f64_unit() * 2.0 - 1.0) * *rng.pick(&[0.0, 1e-9, 1e-6, 50e-6, 400e-6]);
    let jitter = *rng.pick(&[0.0, 1e-9, 1e-6, 1e-4]) + if scenario == 0 { p * 1e-3 } else { 0.0 };
    let mut spacing_exp: i64 = rng.range(-6, 10);
    let mut recent: Vec<f64> = vec![];
    for i in 0..n {
        let base = if spacing_exp >= 0 { (1u64 << spacing_exp) << 32 } else { (1u64 << 32) >> (-spacing_exp) };
        let ticks = if rng.chance(1, 30) && p >= 0.1 && scenario != 4 && scenario != 5 { gen_ticks(rng).clamp(4294968, (1u64 << 17) << 32) } else { base.max(4294968) + rng.below(1 + base / 64) };
        if rng.chance(1, 40) {
            spacing_exp = (spacing_exp + rng.range(-2, 2)).clamp(-10, 17);
        }
        let mut lt_ticks = ticks;
        let mut mono_ns = ticks_to_ns(ticks);
        if !in_q {
            match rng.below(30) {
                0 => lt_ticks = 0,
                1 => lt_ticks = ticks.wrapping_neg(),
                2 => mono_ns += 6_000_000_000,
                3 => mono_ns = mono_ns.saturating_sub(5_500_000_000),
                _ => {}
            }
        }
        local = local.wrapping_add(lt_ticks);
        let dt_s = ticks as f64 / TICKS_PER_S;
        theta += drift * dt_s;
        let mut off = theta + (rng.f64_unit() * 2.0 - 1.0) * jitter;
        match scenario {
            3 => {
                // the measurement arrives an arbitrary whole number of periods away (what a PPS does)
                off += (rng.range(-50, 50) as f64) * p;
            }
            4 => {
                if rng.chance(1, 20) {
                    theta += (rng.f64_unit() * 2.0 - 1.0) * p;
                }
            }
            5 => {
                if i % 2 == 1 {
                    off += p / 2.0;
                }
            }
            _ => {}
        }
        ops.push(format!(
            "omeas mono={} lt={} off={} rdelay={} rdisp={}",
            mono_ns, local, secs_to_ticks(off), secs_to_ticks(rng.f64_unit() * 0.05), secs_to_ticks(rng.f64_unit() * 0.01)
        ));
        recent.push(off);
        if recent.len() > 8 {
            recent.remove(0);
        }
        if i >= 8 && rng.chance(1, 10) {
            let est: f64 = recent.iter().sum::<f64>() / recent.len() as f64;
            if rng.chance(1, 2) {
                // step feedback, sometimes many periods large (`steer %= period`)
                let steer = est + if rng.chance(1, 4) { (rng.range(-1000, 1000) as f64) * p } else { 0.0 };
                ops.push(format!("ostep s={}", f64hex(steer)));
                let applied = match period { Some(pp) => steer % pp, None => steer };
                if applied.is_finite() {
                    local = ts_u64(ts(local) + NtpDuration::from_seconds(applied));
                }
                theta -= steer;
                for r in recent.iter_mut() {
                    *r -= steer;
                }
            } else {
                let slope = (recent[recent.len() - 1] - recent[0]) / (recent.len() as f64 * dt_s.max(1e-3));
                let steer = slope.clamp(-495e-6, 495e-6);
                ops.push(format!("ofreq t={} s={}", local, f64hex(steer)));
                drift -= steer;
            }
        }
    }
    ops
}

fn exec_periodic_case(ops: &[String], run: &mut Run) {
    PRINT_PERIOD.with(|c| c.set(true));
    let rt = tokio::runtime::Builder::new_current_thread()
        .enable_time()
        .start_paused(true)
        .build()
        .expect("runtime");
    rt.block_on(async {
        let mut source_config = SourceConfig::default();
        let mut algo_config = AlgorithmConfig::default();
        let mk = |a: AlgorithmConfig, s: SourceConfig, period: Option<f64>, prec: f64, acc: f64| -> OneWay {
            KalmanSourceController::new(ClockId::new(), a, period, s, FixedMeasurementNoise { precision: prec, accuracy: acc })
        };
        let mut ctrl: Option<OneWay> = Some(mk(algo_config, source_config, None, 1e-6, 0.0));
        let mut in_q = false;
        let mut key = String::new();
        let mut stable_updates = 0u32;
        let mut sticky: &'static str = "none";
        for op in ops {
            run.begin_op(op);
            let w: Vec<&str> = op.split_whitespace().collect();
            match w[0] {
                "ocfg" => {
                    source_config.poll_interval_limits = PollIntervalLimits {
                        min: PollInterval::from_byte(ix(&w, "min") as i8 as u8),
                        max: PollInterval::from_byte(ix(&w, "max") as i8 as u8),
                    };
                    source_config.initial_poll_interval = PollInterval::from_byte(ix(&w, "init") as i8 as u8);
                    algo_config.precision_low_probability = fx(&w, "plow");
                    algo_config.precision_high_probability = fx(&w, "phigh");
                    algo_config.precision_hysteresis = ix(&w, "physt") as i32;
                    algo_config.precision_minimum_weight = fx(&w, "pminw");
                    algo_config.poll_interval_low_weight = fx(&w, "wlow");
                    algo_config.poll_interval_high_weight = fx(&w, "whigh");
                    algo_config.poll_interval_hysteresis = ix(&w, "whyst") as i32;
                    algo_config.poll_interval_step_threshold = fx(&w, "wthr");
                    algo_config.initial_wander = fx(&w, "iw");
                    algo_config.initial_frequency_uncertainty = fx(&w, "ifu");
                    algo_config.meddling_threshold = dur(ix(&w, "medd"));
                    let period = match kv(&w, "period") {
                        Some("-") | None => None,
                        Some(h) => Some(f64unhex(h).expect("f64 hex")),
                    };
                    in_q = ix(&w, "inq") == 1;
                    ctrl = Some(mk(algo_config, source_config, period, fx(&w, "prec"), fx(&w, "acc")));
                    sticky = "none";
                    run.hit(match period {
                        None => "period-none",
                        Some(p) if p == 1.0 => "period-1s",
                        Some(p) if p.is_infinite() => "period-inf",
                        _ => "period-other",
                    });
                    run.end_op("ok");
                }
                "owrap" => {
                    let st = KalmanState {
                        state: Vector::new_vector([fx(&w, "x0"), fx(&w, "x1")]),
                        uncertainty: Matrix::new([[0.0, 0.0], [0.0, 0.0]]),
                        time: ts(0),
                    };
                    let p = fx(&w, "p");
                    match with_deadline(400, move || st.correct_periodicity(Some(p))) {
                        Some(r) => {
                            run.hit("wrap-returned");
                            run.end_op(&format!("{} {}", f64hex(r.state.ventry(0)), f64hex(r.state.ventry(1))));
                        }
                        None => {
                            run.hit("wrap-TIMEOUT");
                            // ORACLE: the periodicity loop comes back in bounded time
                            run.oracle_fail(
                                "periodic_wrap_terminates",
                                "what=correct_periodicity",
                                &format!("KalmanState::correct_periodicity(Some({:e})) with offset {:e} still running after 400 ms", p, fx(&w, "x0")),
                            );
                            run.end_op("timeout");
                        }
                    }
                }
                "orem" => {
                    let (x, y) = (fx(&w, "x"), fx(&w, "y"));
                    run.end_op(&f64hex(x % y));
                }
                "omeas" => {
                    let Some(mut c) = ctrl.take() else {
                        run.end_op("gone");
                        continue;
                    };
                    let m = InternalMeasurement {
                        delay: (),
                        offset: dur(ix(&w, "off")),
                        localtime: ts(ux(&w, "lt")),
                        root_delay: dur(ix(&w, "rdelay")),
                        root_dispersion: dur(ix(&w, "rdisp")),
                        leap: NtpLeapIndicator::NoWarning,
                        precision: 0,
                    };
                    if kv(&w, "guard") == Some("1") {
                        // bounded-time guard (only used on a filter that is still collecting its first
                        // samples: that path does not read the clock, so no tokio context is needed)
                        match with_deadline(400, move || {
                            let r = c.handle_measurement(m).is_some();
                            (c, r)
                        }) {
                            Some((c2, r)) => {
                                ctrl = Some(c2);
                                let line = snapshot_line(ctrl.as_ref().unwrap(), run, in_q, "none");
                                run.end_op(&format!("msg={} {}", r as u8, line));
                            }
                            None => {
                                run.hit("meas-TIMEOUT");
                                run.oracle_fail(
                                    "periodic_wrap_terminates",
                                    "what=initial_update",
                                    &format!("handle_measurement with offset {} ticks still running after 400 ms", ix(&w, "off")),
                                );
                                run.end_op("timeout");
                            }
                        }
                        continue;
                    }
                    tokio::time::advance(std::time::Duration::from_nanos(ux(&w, "mono"))).await;
                    let was_stable = matches!(c.state.0, SourceStateInner::Stable(_));
                    let pre = pre_cause_meas(&c, &m);
                    let msg = c.handle_measurement(m);
                    let promoted = !was_stable && matches!(c.state.0, SourceStateInner::Stable(_));
                    let cause = post_cause_p(&c, pre, &mut sticky, promoted);
                    if cause != "none" {
                        run.hit(if cause == "psd_lost" { "CAUSE-psd_lost(op)" } else { "CAUSE-innovation_vanished(op)" });
                    }
                    let is_stable = matches!(c.state.0, SourceStateInner::Stable(_));
                    match (was_stable, is_stable, msg.is_some()) {
                        (false, true, _) => run.hit("promoted-to-stable"),
                        (true, false, _) => run.hit("meddling-reset"),
                        (true, true, true) => {
                            stable_updates += 1;
                            run.hit("stable-absorbed")
                        }
                        (true, true, false) => run.hit("stable-ignored(past)"),
                        _ => run.hit("initial"),
                    }
                    key.push(if msg.is_some() { 'm' } else { 'i' });
                    let line = snapshot_line(&c, run, in_q, cause);
                    ctrl = Some(c);
                    run.end_op(&format!("msg={} {}", msg.is_some() as u8, line));
                }
                "ostep" | "ofreq" => {
                    let Some(mut c) = ctrl.take() else {
                        run.end_op("gone");
                        continue;
                    };
                    let pre = pre_cause_msg(&c);
                    let inner = if w[0] == "ostep" {
                        KalmanControllerMessageInner::Step { steer: fx(&w, "s") }
                    } else {
                        KalmanControllerMessageInner::FreqChange { steer: fx(&w, "s"), time: ts(ux(&w, "t")) }
                    };
                    c.handle_message(KalmanControllerMessage { inner });
                    let cause = post_cause(&c, pre, &mut sticky);
                    run.hit(if w[0] == "ostep" { "step" } else { "freq" });
                    key.push(if w[0] == "ostep" { 's' } else { 'f' });
                    let line = snapshot_line(&c, run, in_q, cause);
                    ctrl = Some(c);
                    run.end_op(&line);
                }
                _ => run.end_op("bad-op"),
            }
        }
        if stable_updates > 0 {
            key.push_str(&format!("#{}", run_fnv(ops)));
            run.nontrivial(&key);
        }
    });
    PRINT_PERIOD.with(|c| c.set(false));
}

#[test]
fn entry() {
    let stream = std::env::var("VERIF_STREAM").unwrap_or_default();
    match stream.as_str() {
        "c10_filter_poll" => common::drive(
            "c10_filter_poll",
            "histories (1-120) of update_desired_poll(p, weight, period) on a real SourceFilter; configurations inside 0<=min<=init<=max<=17 (70%), enumerated small ones and wide i8 ones; weights/ratios/p at the decision boundaries (+-1 ulp, NaN, inf); non-trivial = the desired interval changed at least once; distinct by the sequence of changes",
            gen_poll_case,
            exec_poll_case,
        ),
        "c06_kstate" => common::drive(
            "c06_kstate",
            "unit operations on KalmanState (progress_time, absorb_measurement with general 1x2 measurement row, merge, add_server_dispersion, offset/frequency steering) from PSD, degenerate and arbitrary (NaN/inf/asymmetric) states; time steps 0, 1 tick, 1 ms … 2^17 s, backwards, era wrap; non-trivial = at least one finite result; distinct by op lines",
            gen_kstate_case,
            exec_kstate_case,
        ),
        "c06_filter" => common::drive(
            "c06_filter",
            "measurement histories on a real two-way KalmanSourceController with a paused tokio clock: random walk, identical values, huge offsets (+-2^31 s), alternating outliers, delay spikes, quantised offsets, server steps; spacing 1 ms … 2^17 s; emulated Step/FreqChange feedback; 1/6 of the histories leave the quantifier (equal/backward local times, clock meddling) and are compared only; non-trivial = at least one measurement absorbed by the stable filter; distinct by op lines",
            gen_filter_case,
            exec_filter_case,
        ),
        "c06_periodic" => common::drive(
            "c06_periodic",
            "measurement histories on a real ONE-WAY KalmanSourceController<(), FixedMeasurementNoise> (PPS/sock) with period 1 s (most), 0.5/0.2/1.5/2/3/60/0.1/1e-3 s, infinite and None, on a paused tokio clock: true offset at a wrap point +-p/2, whole periods away (<= 300), measurements displaced by whole periods, half-period alternation; Step (steer %= period, also many periods) and FreqChange feedback; unit checks of f64 % and of correct_periodicity; corpus: loops that do not come back (bounded-time guard); non-trivial = a measurement absorbed by the stable filter; distinct by op lines",
            gen_periodic_case,
            exec_periodic_case,
        ),
        other => panic!("unknown VERIF_STREAM {:?}", other),
    }
}
